#!/bin/bash
# Run once after a fresh restore, offline: builds /repo's working tree into /verif/.work (plain + sanitizer variants),
# the harness objects, and self-tests the reference parsers/generators (these self-tests say nothing about stepcode).
set -e
here="$(cd "$(dirname "$0")" && pwd)"
cd "$here"
export PYTHONPATH="$here/lib:$here/lib/checks"
export PYTHONDONTWRITEBYTECODE=1
python3-vt lib/build.py ensure plain san
python3-vt lib/selftest.py
echo "setup ok"
