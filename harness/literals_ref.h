// Reference side of check C09: recognisers transcribed from doc/iso-10303-21--2002.bnf as explicit
// DFAs, and the value each grammatical token denotes.  Nothing in this file uses stepcode.
#ifndef LITERALS_REF_H
#define LITERALS_REF_H
#include <string>
#include <cstring>
#include <cstdlib>
#include <cstdio>
#include <cerrno>
#include <cmath>
#include <cfloat>
#include <climits>
#include <stdint.h>

enum Kind { K_INT, K_REAL, K_NUM, K_STR, K_BIN, K_BOOL, K_LOG, K_ENUM, K_REF, NKIND };
static const char * const KNAME[NKIND] = { "INTEGER", "REAL", "NUMBER", "STRING", "BINARY", "BOOLEAN", "LOGICAL",
                                           "ENUMERATION", "REFERENCE" };
static const char * const KENT[NKIND] = { "INT", "REAL", "NUM", "STR", "BIN", "BOOL", "LOG", "ENUM", "REF" };

// items of TYPE colour in schemas/literals.exp, and of BOOLEAN / LOGICAL
static const char * const ENUM_ITEMS[] = { "RED", "GREEN", "BLUE_2", "A", "T", "E1", 0 };
static const char * const BOOL_ITEMS[] = { "T", "F", 0 };
static const char * const LOG_ITEMS[] = { "T", "F", "U", 0 };
// instances the harness puts into the InstMgr: ids of TARGET (referable) and of STRANGER (wrong type)
static const int TARGET_IDS[] = { 1, 9, 10, 19, 90, 100, 2147483647, 0 };
static const int STRANGER_IDS[] = { 11, 91, 0 };

static inline bool rDigit( unsigned char c ) { return c >= '0' && c <= '9'; }
static inline bool rUpper( unsigned char c ) { return ( c >= 'A' && c <= 'Z' ) || c == '_'; }   // BNF: upper includes '_'
static inline bool rHex( unsigned char c ) { return rDigit( c ) || ( c >= 'A' && c <= 'F' ); }
static inline bool rCharacter( unsigned char c ) { return c >= 0x20 && c <= 0x7e; }               // space|digit|lower|upper|special|\|'
static inline bool rNonQ( unsigned char c ) { return rCharacter( c ) && c != '\'' && c != '\\'; }
static inline bool rSpace( unsigned char c ) { return c == ' ' || c == '\t' || c == '\n' || c == '\r' || c == '\f' || c == '\v'; }

// ---- DFA: step(kind, state, char) -> next state or -1; accepting(kind, state)
// numeric: 0 start, 1 sign, 2 digits, 3 after '.', 4 after E, 5 exponent sign, 6 exponent digits
// string : 0 start, 1 body, 2 after quote (accepting), 3 after '\', 4 \S, 5 \S\, 6 \P, 7 \P<u>, 8 \X,
//          9 \X\ , 10 \X\h, 11 \X2, 12 \X4, 13 end1 '\', 14 end2 'X', 15 end3 '0', 100+n \X2\ with n hex in group (4 = group complete),
//          200+n \X4\ with n hex (8 = group complete)
// binary : 0 start, 1 after '"', 2 after [0-3] and hex, 3 closed
// enum   : 0 start, 1 after '.', 2 name, 3 closed
// ref    : 0 start, 1 after '#', 2 digits
static inline int rStep( Kind k, int s, unsigned char c ) {
    switch( k ) {
        case K_INT:
            switch( s ) {
                case 0: return ( c == '+' || c == '-' ) ? 1 : rDigit( c ) ? 2 : -1;
                case 1: return rDigit( c ) ? 2 : -1;
                case 2: return rDigit( c ) ? 2 : -1;
            }
            return -1;
        case K_REAL:
        case K_NUM:
            switch( s ) {
                case 0: return ( c == '+' || c == '-' ) ? 1 : rDigit( c ) ? 2 : -1;
                case 1: return rDigit( c ) ? 2 : -1;
                case 2: return rDigit( c ) ? 2 : c == '.' ? 3 : -1;
                case 3: return rDigit( c ) ? 3 : c == 'E' ? 4 : -1;
                case 4: return ( c == '+' || c == '-' ) ? 5 : rDigit( c ) ? 6 : -1;
                case 5: return rDigit( c ) ? 6 : -1;
                case 6: return rDigit( c ) ? 6 : -1;
            }
            return -1;
        case K_STR:
            if( s >= 200 ) {
                int n = s - 200;
                if( rHex( c ) ) {
                    return 200 + ( n == 8 ? 1 : n + 1 );
                }
                return ( n == 8 && c == '\\' ) ? 13 : -1;
            }
            if( s >= 100 ) {
                int n = s - 100;
                if( rHex( c ) ) {
                    return 100 + ( n == 4 ? 1 : n + 1 );
                }
                return ( n == 4 && c == '\\' ) ? 13 : -1;
            }
            switch( s ) {
                case 0: return c == '\'' ? 1 : -1;
                case 1: return c == '\'' ? 2 : c == '\\' ? 3 : rNonQ( c ) ? 1 : -1;
                case 2: return c == '\'' ? 1 : -1;
                case 3: return c == '\\' ? 1 : c == 'S' ? 4 : c == 'P' ? 6 : c == 'X' ? 8 : -1;
                case 4: return c == '\\' ? 5 : -1;
                case 5: return rCharacter( c ) ? 1 : -1;
                case 6: return rUpper( c ) ? 7 : -1;
                case 7: return c == '\\' ? 1 : -1;
                case 8: return c == '\\' ? 9 : c == '2' ? 11 : c == '4' ? 12 : -1;
                case 9: return rHex( c ) ? 10 : -1;
                case 10: return rHex( c ) ? 1 : -1;
                case 11: return c == '\\' ? 100 : -1;
                case 12: return c == '\\' ? 200 : -1;
                case 13: return c == 'X' ? 14 : -1;
                case 14: return c == '0' ? 15 : -1;
                case 15: return c == '\\' ? 1 : -1;
            }
            return -1;
        case K_BIN:
            switch( s ) {
                case 0: return c == '"' ? 1 : -1;
                case 1: return ( c >= '0' && c <= '3' ) ? 2 : -1;
                case 2: return rHex( c ) ? 2 : c == '"' ? 3 : -1;
            }
            return -1;
        case K_BOOL:
        case K_LOG:
        case K_ENUM:
            switch( s ) {
                case 0: return c == '.' ? 1 : -1;
                case 1: return rUpper( c ) ? 2 : -1;
                case 2: return ( rUpper( c ) || rDigit( c ) ) ? 2 : c == '.' ? 3 : -1;
            }
            return -1;
        case K_REF:
            switch( s ) {
                case 0: return c == '#' ? 1 : -1;
                case 1: return rDigit( c ) ? 2 : -1;
                case 2: return rDigit( c ) ? 2 : -1;
            }
            return -1;
        default:
            return -1;
    }
}

static inline bool rAccepting( Kind k, int s ) {
    switch( k ) {
        case K_INT: return s == 2;
        case K_REAL: return s == 3 || s == 6;
        case K_NUM: return s == 2 || s == 3 || s == 6;
        case K_STR: return s == 2;
        case K_BIN: return s == 3;
        case K_BOOL: case K_LOG: case K_ENUM: return s == 3;
        case K_REF: return s == 2;
        default: return false;
    }
}

struct Scan {
    bool ingr;        // whole token is in the kind's grammar
    size_t viable;    // length of the longest prefix that is a prefix of some grammatical token
    size_t lastacc;   // length of the longest prefix that is itself grammatical (0: none)
    int deadState;    // state in which the token died (or the final state)
};

static inline Scan rScan( Kind k, const std::string & t ) {
    Scan r;
    r.ingr = false;
    r.viable = 0;
    r.lastacc = 0;
    int s = 0;
    size_t i = 0;
    for( ; i < t.size(); i++ ) {
        int n = rStep( k, s, ( unsigned char ) t[i] );
        if( n < 0 ) {
            break;
        }
        s = n;
        if( rAccepting( k, s ) ) {
            r.lastacc = i + 1;
        }
    }
    r.viable = i;
    r.deadState = s;
    r.ingr = ( i == t.size() ) && rAccepting( k, s );
    return r;
}

// near-grammar rule (non-trivial): the token is grammatical, or starts with a grammatical token, or is in
// full a proper prefix of a grammatical token (a truncated token), or is the unset marker.
static inline bool rNear( const Scan & sc, const std::string & t ) {
    return !t.empty() && ( sc.ingr || sc.lastacc > 0 || sc.viable == t.size() || t == "$" );
}

// ---- denoted values
enum RefStatus { RS_OK, RS_OVERFLOW, RS_UNDERFLOW, RS_SENTINEL, RS_NOITEM, RS_DANGLING, RS_WRONGTYPE };
static const char * const RSTATUS[] = { "ok", "overflow", "underflow", "sentinel", "not-an-item", "dangling-reference",
                                        "wrong-entity-type" };

static inline std::string bitsOf( double d ) {
    uint64_t u;
    memcpy( &u, &d, 8 );
    char b[40];
    snprintf( b, sizeof b, "%016llx", ( unsigned long long ) u );
    return b;
}

static inline std::string showReal( const std::string & bits ) {
    uint64_t u = strtoull( bits.c_str(), 0, 16 );
    double d;
    memcpy( &d, &u, 8 );
    char b[64];
    snprintf( b, sizeof b, "%.17g", d );
    return b;
}

// correctly rounded decimal -> double (glibc strtod); classifies overflow / underflow / in-band sentinel
static inline RefStatus rReal( const std::string & t, std::string & val ) {
    errno = 0;
    char * end = 0;
    double d = strtod( t.c_str(), &end );
    val = bitsOf( d );
    if( std::isinf( d ) ) {
        return RS_OVERFLOW;
    }
    bool nonzeroMantissa = false;
    for( size_t i = 0; i < t.size() && t[i] != 'E' && t[i] != 'e'; i++ ) {
        if( t[i] >= '1' && t[i] <= '9' ) {
            nonzeroMantissa = true;
        }
    }
    if( ( d == 0.0 && nonzeroMantissa ) || ( d != 0.0 && fabs( d ) < DBL_MIN ) ) {
        return RS_UNDERFLOW;
    }
    if( d == ( double ) FLT_MIN ) {
        return RS_SENTINEL;    // SDAI_REAL_NULL / SDAI_NUMBER_NULL (src/clstepcore/sdai.cc)
    }
    return RS_OK;
}

static inline bool inList( const char * const * l, const std::string & s ) {
    for( ; *l; l++ ) {
        if( s == *l ) {
            return true;
        }
    }
    return false;
}

static inline const char * const * itemsOf( Kind k ) {
    return k == K_BOOL ? BOOL_ITEMS : k == K_LOG ? LOG_ITEMS : ENUM_ITEMS;
}

// value denoted by a token that IS in the grammar of kind k
static inline RefStatus rDenote( Kind k, const std::string & t, std::string & val ) {
    switch( k ) {
        case K_INT: {
            size_t i = 0;
            bool neg = false;
            if( t[0] == '+' || t[0] == '-' ) {
                neg = t[0] == '-';
                i = 1;
            }
            unsigned __int128 a = 0;
            const unsigned __int128 cap = ( ( unsigned __int128 ) 1 ) << 100;
            for( ; i < t.size(); i++ ) {
                a = a * 10 + ( unsigned )( t[i] - '0' );
                if( a > cap ) {
                    a = cap;
                }
            }
            const unsigned __int128 two63 = ( ( unsigned __int128 ) 1 ) << 63;
            if( neg ? a > two63 : a >= two63 ) {
                return RS_OVERFLOW;
            }
            long v = neg ? ( long )( 0 - ( unsigned long ) a ) : ( long ) a;
            char b[32];
            snprintf( b, sizeof b, "%ld", v );
            val = b;
            return v == LONG_MAX ? RS_SENTINEL : RS_OK;     // SDAI_INT_NULL == LONG_MAX
        }
        case K_REAL:
        case K_NUM:
            return rReal( t, val );
        case K_STR:
            val = t;      // the library keeps strings in exchange form, quotes included (src/cldai/sdaiString.cc)
            return RS_OK;
        case K_BIN:
            val = t.substr( 1, t.size() - 2 );
            return RS_OK;
        case K_BOOL:
        case K_LOG:
        case K_ENUM:
            val = t.substr( 1, t.size() - 2 );
            return inList( itemsOf( k ), val ) ? RS_OK : RS_NOITEM;
        case K_REF: {
            unsigned long long a = 0;
            for( size_t i = 1; i < t.size(); i++ ) {
                a = a * 10 + ( unsigned )( t[i] - '0' );
                if( a > 0xffffffffffULL ) {
                    a = 0xffffffffffULL;
                }
            }
            char b[32];
            snprintf( b, sizeof b, "%llu", a );
            val = b;
            if( a > ( unsigned long long ) INT_MAX ) {
                return RS_OVERFLOW;
            }
            for( const int * p = TARGET_IDS; *p; p++ ) {
                if( ( unsigned long long ) *p == a ) {
                    return RS_OK;
                }
            }
            for( const int * p = STRANGER_IDS; *p; p++ ) {
                if( ( unsigned long long ) *p == a ) {
                    return RS_WRONGTYPE;
                }
            }
            return RS_DANGLING;
        }
        default:
            return RS_NOITEM;
    }
}

// ---- the closed leniency table: out-of-grammar spellings the reader accepts on purpose, with the value
// they evidently spell.  rule ids are documented in lib/checks/c09.py (LENIENCIES).
//  1  NUMBER   [sign] (digits ['.' digits*] | '.' digits) [('e'|'E') [sign] digits]  -> strtod of the text
//  2  ENUMERATION/BOOLEAN/LOGICAL  '.' name '.' with lower-case letters -> the item spelled in upper case
static inline int rLenient( Kind k, const std::string & t, std::string & val, RefStatus & st ) {
    st = RS_OK;
    if( k == K_NUM ) {
        size_t i = 0, n = t.size();
        if( i < n && ( t[i] == '+' || t[i] == '-' ) ) {
            i++;
        }
        size_t d0 = i;
        while( i < n && rDigit( t[i] ) ) {
            i++;
        }
        size_t nint = i - d0, nfrac = 0;
        if( i < n && t[i] == '.' ) {
            i++;
            size_t f0 = i;
            while( i < n && rDigit( t[i] ) ) {
                i++;
            }
            nfrac = i - f0;
        }
        if( nint + nfrac == 0 ) {
            return 0;
        }
        if( i < n && ( t[i] == 'e' || t[i] == 'E' ) ) {
            i++;
            if( i < n && ( t[i] == '+' || t[i] == '-' ) ) {
                i++;
            }
            size_t e0 = i;
            while( i < n && rDigit( t[i] ) ) {
                i++;
            }
            if( i == e0 ) {
                return 0;
            }
        }
        if( i != n ) {
            return 0;
        }
        st = rReal( t, val );
        return 1;
    }
    if( k == K_BOOL || k == K_LOG || k == K_ENUM ) {
        size_t n = t.size();
        if( n < 3 || t[0] != '.' || t[n - 1] != '.' ) {
            return 0;
        }
        std::string up;
        bool lower = false;
        for( size_t i = 1; i + 1 < n; i++ ) {
            unsigned char c = t[i];
            if( c >= 'a' && c <= 'z' ) {
                lower = true;
                c = c - 'a' + 'A';
            }
            if( !( rUpper( c ) || ( i > 1 && rDigit( c ) ) ) ) {
                return 0;
            }
            up += ( char ) c;
        }
        if( !lower || !inList( itemsOf( k ), up ) ) {
            return 0;
        }
        val = up;
        return 2;
    }
    return 0;
}

// why is an out-of-domain token out of domain: used only to name the root cause in failure signatures
static inline std::string rCause( Kind k, const std::string & t, const Scan & sc, bool ingr, RefStatus st ) {
    if( ingr ) {
        if( ( k == K_BOOL || k == K_LOG || k == K_ENUM ) && t == ".UNSET." ) {
            return "unset-keyword";
        }
        return RSTATUS[st];
    }
    if( !t.empty() && t[0] == '$' ) {
        return "dollar-followed-by-text";
    }
    if( k == K_REAL || k == K_NUM || k == K_INT ) {
        // a real that stops after E or after the exponent sign
        Kind kk = k == K_INT ? K_REAL : k;
        Scan s2 = ( kk == k ) ? sc : rScan( kk, t );
        if( s2.viable == t.size() && ( s2.deadState == 4 || s2.deadState == 5 ) ) {
            return "empty-exponent";
        }
        if( k == K_NUM ) {
            // lenient lower-case / pointless forms with an empty exponent
            size_t n = t.size();
            if( n >= 2 && ( t[n - 1] == 'e' || t[n - 1] == 'E' || ( ( t[n - 1] == '+' || t[n - 1] == '-' ) && ( t[n - 2] == 'e' || t[n - 2] == 'E' ) ) ) ) {
                return "empty-exponent";
            }
        }
        return "malformed";
    }
    if( k == K_BOOL || k == K_LOG || k == K_ENUM ) {
        std::string up;
        for( size_t i = 0; i < t.size(); i++ ) {
            unsigned char c = t[i];
            if( c != '.' ) {
                up += ( char )( ( c >= 'a' && c <= 'z' ) ? c - 'a' + 'A' : c );
            }
        }
        if( up == "UNSET" ) {
            return "unset-keyword";
        }
        return "malformed";
    }
    if( k == K_BIN ) {
        if( t == "\"\"" ) {
            return "empty";
        }
        return "malformed";
    }
    if( k == K_REF ) {
        if( t.size() > 1 && t[0] == '#' ) {
            if( t[1] == '+' || t[1] == '-' ) {
                return "signed-id";
            }
            if( rSpace( t[1] ) ) {
                return "space-after-hash";
            }
        }
        return "malformed";
    }
    return "malformed";
}

#endif
