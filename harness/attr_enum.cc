// Check C05, engine 3: exhaustive short inputs.  Every string of length <= L over the Part 21 punctuation alphabet
//     ( ) , ; ' " . $ * # = / \ + - E e 0 1 9 A a _ space newline          (25 characters)
// is fed, in-process and under ASan+UBSan, to STEPattribute::STEPread of one attribute per attribute kind
// (level A) or, prefixed with "(", to the whole-instance reader SDAI_Application_instance::STEPread /
// STEPcomplex::STEPread (level I).  Linked with the library generated from schemas/probe.exp.
//
// This is the memory-safety / termination sweep (C09 owns the semantic oracle for simple kinds): a case fails iff a
// sanitizer reports, a C++ exception leaves the library, the process dies, or the severity returned is outside the
// Severity enumeration.  The string being processed is kept in a small shared file (OUT.cur) and printed by the sanitizer
// death callback, so the driver can name and re-run it.
//
//   attr_enum list
//   attr_enum run OUT KIND L FIRST     all strings s, 1 <= |s| <= L, s[0] == alphabet[FIRST] (FIRST == 0 adds the empty string)
//   attr_enum one KIND HEX             one string (hex encoded), fresh fixtures; prints a JSON line
extern void SchemaInit( class Registry & );
#include "clstepcore/sdai.h"
#include "clstepcore/STEPattribute.h"
#include "clstepcore/STEPcomplex.h"
#include "clstepcore/ExpDict.h"
#include "clstepcore/Registry.h"
#include "clstepcore/instmgr.h"
#include "clutils/errordesc.h"
#include <cstdio>
#include <cstdlib>
#include <cstring>
#include <exception>
#include <iostream>
#include <sstream>
#include <streambuf>
#include <string>
#include <vector>
#include <fcntl.h>
#include <unistd.h>
#include <sys/mman.h>

extern "C" void __sanitizer_set_death_callback( void ( *cb )( void ) );

static const char ALPHABET[] = "(),;'\".$*#=/\\+-Ee019Aa_ \n";
static const int NALPHA = 25;

struct KindDef {
    const char * name;      // as reported
    char level;             // 'A' attribute, 'I' instance
    const char * entity;    // entity (level A: owner of the attribute); "+" = complex BASE+LEAF1+LEAF3
    int attr;               // level A: attribute index
};

static const KindDef KINDS[] = {
    { "INTEGER", 'A', "HOLDER", 0 }, { "REAL", 'A', "HOLDER", 1 }, { "NUMBER", 'A', "HOLDER", 2 }, { "STRING", 'A', "HOLDER", 3 },
    { "BOOLEAN", 'A', "HOLDER", 4 }, { "LOGICAL", 'A', "HOLDER", 5 }, { "BINARY", 'A', "HOLDER", 6 }, { "ENUMERATION", 'A', "HOLDER", 7 },
    { "REFERENCE", 'A', "HOLDER", 8 },
    { "OPTIONAL-INTEGER", 'A', "HOLDER", 9 }, { "OPTIONAL-STRING", 'A', "HOLDER", 10 }, { "OPTIONAL-REFERENCE", 'A', "HOLDER", 11 },
    { "SELECT", 'A', "SEL", 0 }, { "SELECT-OF-SELECT", 'A', "SEL", 1 }, { "OPTIONAL-SELECT", 'A', "SEL", 2 },
    { "LIST-OF-INTEGER", 'A', "AGGS", 0 }, { "SET-OF-REAL", 'A', "AGGS", 1 }, { "BAG-OF-STRING", 'A', "AGGS", 2 },
    { "ARRAY-OF-INTEGER", 'A', "AGGS", 3 }, { "LIST-OF-REFERENCE", 'A', "AGGS", 4 }, { "LIST-OF-LIST-OF-REAL", 'A', "AGGS", 5 },
    { "LIST-OF-ENUMERATION", 'A', "AGGS", 6 }, { "LIST-OF-SELECT", 'A', "AGGS", 7 }, { "OPTIONAL-LIST-OF-BINARY", 'A', "AGGS", 8 },
    { "DEFINED-LIST-OF-INTEGER", 'A', "AGGS", 9 }, { "SET-OF-REFERENCE", 'A', "OWN", 0 },
    { "INSTANCE:HOLDER", 'I', "HOLDER", -1 }, { "INSTANCE:AGGS", 'I', "AGGS", -1 }, { "INSTANCE:SEL", 'I', "SEL", -1 },
    { "INSTANCE:LEAF1", 'I', "LEAF1", -1 }, { "INSTANCE:OWN", 'I', "OWN", -1 }, { "INSTANCE:DER", 'I', "DER", -1 },
    { "INSTANCE:COMPLEX", 'I', "+", -1 },
};
static const int NKINDS = sizeof( KINDS ) / sizeof( KINDS[0] );

class NullBuf : public std::streambuf {
    protected:
        int overflow( int c ) {
            return c;
        }
        std::streamsize xsputn( const char *, std::streamsize n ) {
            return n;
        }
};
static NullBuf nullbuf;

static char * CUR = 0;          // shared: [0] = length, [1..] = bytes of the current string, [40] = sub-case
static char curLocal[64];

static void die( const std::string & m ) {
    dprintf( 2, "attr_enum: %s\n", m.c_str() );
    _exit( 3 );
}

static std::string hexOf( const char * s, size_t n ) {
    static const char * H = "0123456789abcdef";
    std::string o;
    for( size_t i = 0; i < n; i++ ) {
        o += H[( ( unsigned char ) s[i] ) >> 4];
        o += H[( ( unsigned char ) s[i] ) & 15];
    }
    return o;
}

static void onDeath() {
    if( CUR ) {
        dprintf( 2, "\nC05-ENUM-CURRENT hex=%s sub=%d\n", hexOf( CUR + 1, ( size_t )( unsigned char ) CUR[0] ).c_str(), ( int ) CUR[40] );
    }
}

struct Fix {
    Registry * reg;
    InstMgr * im;
    SDAI_Application_instance * obj;
    STEPattribute * attr;
};

static SDAI_Application_instance * mk( Registry * reg, const char * ent, int id ) {
    SDAI_Application_instance * o;
    if( !strcmp( ent, "+" ) ) {
        const char * names[] = { "base", "leaf1", "leaf3", 0 };
        o = new STEPcomplex( reg, names, id );
        if( o->Error().severity() <= SEVERITY_WARNING ) {
            die( "cannot create the complex fixture" );
        }
    } else {
        o = reg->ObjCreate( ent );
        if( !o || o == ENTITY_NULL ) {
            die( std::string( "cannot create " ) + ent );
        }
        o->StepFileId( id );
    }
    return o;
}

static void setup( const KindDef & k, Fix & f ) {
    f.reg = new Registry( SchemaInit );
    f.im = new InstMgr( 0 );
    // reference targets reachable with the digits 0 1 9: right type, wrong type, complex
    static const struct {
        int id;
        const char * ent;
    } T[] = { { 1, "LEAF1" }, { 9, "HOLDER" }, { 10, "BASE" }, { 11, "LEAF3" }, { 19, "TGT" }, { 90, "+" }, { 91, "OWN" }, { 99, "SEL" },
        { 100, "AGGS" }, { 101, "LEAF2" }, { 111, "DER" }
    };
    for( size_t i = 0; i < sizeof( T ) / sizeof( T[0] ); i++ ) {
        f.im->Append( mk( f.reg, T[i].ent, T[i].id ), completeSE );
    }
    f.obj = mk( f.reg, k.entity, 500 );
    f.attr = 0;
    if( k.level == 'A' ) {
        if( k.attr >= f.obj->attributes.list_length() ) {
            die( std::string( "fixture " ) + k.entity + " has too few attributes" );
        }
        f.attr = &f.obj->attributes[k.attr];
    }
}

struct Stats {
    unsigned long cases, calls, accepted, advanced, nontrivial;
    unsigned long sev[9];
};

static inline void bad( const char * what, const std::string & s, int sub ) {
    dprintf( 2, "\nC05-ENUM-FAIL %s hex=%s sub=%d\n", what, hexOf( s.data(), s.size() ).c_str(), sub );
    abort();
}

// one string through the reader(s) of kind k; sub-case numbers: A: 0 = strict; I: 0 = "(" + s lenient, 1 = "(" + s strict, 2 = s alone
static void runOne( const KindDef & k, Fix & f, const std::string & s, Stats & st ) {
    st.cases++;
    CUR[0] = ( char ) s.size();
    memcpy( CUR + 1, s.data(), s.size() );
    int nsub = ( k.level == 'A' ) ? 1 : 3;
    bool nt = false;
    for( int sub = 0; sub < nsub; sub++ ) {
        CUR[40] = ( char ) sub;
        std::string text = ( k.level == 'I' && sub < 2 ) ? "(" + s : s;
        std::istringstream in( text );
        int sev;
        try {
            if( k.level == 'A' ) {
                sev = ( int ) f.attr->STEPread( in, f.im, 0, 0, true );
            } else {
                sev = ( int ) f.obj->STEPread( 500, 0, f.im, in, 0, true, sub == 1 );
            }
        } catch( std::exception & e ) {
            bad( ( std::string( "uncaught-exception " ) + e.what() ).c_str(), s, sub );
            return;
        } catch( ... ) {
            bad( "uncaught-exception", s, sub );
            return;
        }
        st.calls++;
        if( sev < ( int ) SEVERITY_MAX || sev > ( int ) SEVERITY_NULL ) {
            bad( "abnormal-severity", s, sub );
        }
        st.sev[sev - ( int ) SEVERITY_MAX]++;
        // how far did the reader get?
        long pos;
        if( in.eof() || in.fail() ) {
            in.clear();
        }
        pos = ( long ) in.tellg();
        if( pos < 0 ) {
            pos = ( long ) text.size();
        }
        long own = pos - ( long )( text.size() - s.size() );
        if( sev == ( int ) SEVERITY_NULL && !s.empty() ) {
            st.accepted++;
            nt = true;
        }
        if( own >= 2 ) {
            st.advanced++;
            nt = true;
        }
    }
    if( nt ) {
        st.nontrivial++;
    }
}

// The object that is read into is replaced every 512 strings: some readers (SDAI_Select) append to their error text on
// every read and never clear it, which would make a long sweep over one object quadratic - an artefact of the sweep.
static void refresh( const KindDef & k, Fix & f ) {
    f.obj = mk( f.reg, k.entity, 500 );     // (the old one is left alone: its destructor is not under test)
    if( k.level == 'A' ) {
        f.attr = &f.obj->attributes[k.attr];
    }
}

static void enumerate( const KindDef & k, Fix & f, std::string & s, int L, Stats & st ) {
    if( ( st.cases & 511 ) == 511 ) {
        refresh( k, f );
    }
    runOne( k, f, s, st );
    if( ( int ) s.size() >= L ) {
        return;
    }
    for( int i = 0; i < NALPHA; i++ ) {
        s.push_back( ALPHABET[i] );
        enumerate( k, f, s, L, st );
        s.erase( s.size() - 1 );
    }
}

static const KindDef * findKind( const char * n ) {
    for( int i = 0; i < NKINDS; i++ ) {
        if( !strcmp( KINDS[i].name, n ) ) {
            return &KINDS[i];
        }
    }
    die( std::string( "unknown kind " ) + n );
    return 0;
}

static std::string statsJson( const KindDef & k, int L, int first, const Stats & st ) {
    std::ostringstream o;
    o << "{\"kind\":\"" << k.name << "\",\"level\":\"" << k.level << "\",\"L\":" << L << ",\"first\":" << first << ",\"cases\":" << st.cases
      << ",\"calls\":" << st.calls << ",\"accepted\":" << st.accepted << ",\"advanced\":" << st.advanced << ",\"nontrivial\":" << st.nontrivial
      << ",\"alphabet_size\":" << NALPHA << ",\"severity\":{";
    bool fst = true;
    for( int i = 0; i < 9; i++ ) {
        if( st.sev[i] ) {
            o << ( fst ? "" : "," ) << "\"" << ( i + ( int ) SEVERITY_MAX ) << "\":" << st.sev[i];
            fst = false;
        }
    }
    o << "}}";
    return o.str();
}

int main( int argc, char ** argv ) {
    if( argc >= 2 && !strcmp( argv[1], "list" ) ) {
        printf( "{\"alphabet_size\":%d,\"kinds\":[", NALPHA );
        for( int i = 0; i < NKINDS; i++ ) {
            printf( "%s{\"name\":\"%s\",\"level\":\"%c\"}", i ? "," : "", KINDS[i].name, KINDS[i].level );
        }
        printf( "]}\n" );
        return 0;
    }
    std::cout.rdbuf( &nullbuf );
    std::cerr.rdbuf( &nullbuf );
    std::clog.rdbuf( &nullbuf );
    CUR = curLocal;
    __sanitizer_set_death_callback( onDeath );
    if( argc == 6 && !strcmp( argv[1], "run" ) ) {
        const KindDef * k = findKind( argv[3] );
        int L = atoi( argv[4] ), first = atoi( argv[5] );
        if( L < 0 || L > 30 || first < 0 || first >= NALPHA ) {
            die( "bad L / FIRST" );
        }
        std::string curPath = std::string( argv[2] ) + ".cur";
        int fd = open( curPath.c_str(), O_RDWR | O_CREAT | O_TRUNC, 0600 );
        if( fd < 0 || ftruncate( fd, 64 ) != 0 ) {
            die( "cannot create " + curPath );
        }
        void * m = mmap( 0, 64, PROT_READ | PROT_WRITE, MAP_SHARED, fd, 0 );
        if( m == MAP_FAILED ) {
            die( "mmap failed" );
        }
        CUR = ( char * ) m;
        Fix f;
        setup( *k, f );
        Stats st;
        memset( &st, 0, sizeof st );
        std::string s;
        if( first == 0 ) {
            runOne( *k, f, s, st );     // the empty string
        }
        if( L >= 1 ) {
            s.push_back( ALPHABET[first] );
            enumerate( *k, f, s, L, st );
        }
        FILE * out = fopen( argv[2], "w" );
        if( !out ) {
            die( "cannot write result" );
        }
        fprintf( out, "%s\n", statsJson( *k, L, first, st ).c_str() );
        fclose( out );
        _exit( 0 );    // no destructors: tearing the fixtures down is not what is under test here
    }
    if( argc == 4 && !strcmp( argv[1], "one" ) ) {
        const KindDef * k = findKind( argv[2] );
        std::string hex = argv[3], s;
        for( size_t i = 0; i + 1 < hex.size(); i += 2 ) {
            s += ( char ) strtol( hex.substr( i, 2 ).c_str(), 0, 16 );
        }
        if( s.size() > 39 ) {
            die( "string too long" );
        }
        Fix f;
        setup( *k, f );
        Stats st;
        memset( &st, 0, sizeof st );
        runOne( *k, f, s, st );
        printf( "@@JSON %s\n", statsJson( *k, ( int ) s.size(), 0, st ).c_str() );
        fflush( stdout );
        _exit( 0 );
    }
    fprintf( stderr, "usage: attr_enum list | run OUT KIND L FIRST | one KIND HEX\n" );
    return 2;
}
