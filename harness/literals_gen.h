// Random part (rapidcheck as the generator) and writer part of check C09.  Included only by literals.cc.
#ifndef LITERALS_GEN_H
#define LITERALS_GEN_H
#include <rapidcheck.h>

static inline int RR( int lo, int hi ) {      // uniform in [lo, hi)
    return *rc::gen::inRange<int>( lo, hi );
}

static std::string rDigits( int n, bool nonzeroFirst = false ) {
    std::string s;
    for( int i = 0; i < n; i++ ) {
        s += ( char )( '0' + RR( ( i == 0 && nonzeroFirst ) ? 1 : 0, 10 ) );
    }
    return s;
}

static std::string dec128( __int128 v ) {
    if( v == 0 ) {
        return "0";
    }
    bool neg = v < 0;
    unsigned __int128 u = neg ? ( unsigned __int128 )( -( v + 1 ) ) + 1 : ( unsigned __int128 ) v;
    std::string s;
    while( u ) {
        s += ( char )( '0' + ( int )( u % 10 ) );
        u /= 10;
    }
    if( neg ) {
        s += '-';
    }
    std::reverse( s.begin(), s.end() );
    return s;
}

static std::string mutate( std::string s, const std::string & alphabet ) {
    int n = RR( 1, 3 );
    for( int i = 0; i < n; i++ ) {
        char c = alphabet[RR( 0, ( int ) alphabet.size() )];
        int how = RR( 0, 3 );
        size_t p = s.empty() ? 0 : ( size_t ) RR( 0, ( int ) s.size() + ( how == 0 ) );
        if( how == 0 || s.empty() ) {
            s.insert( p, 1, c );
        } else if( how == 1 ) {
            s[p] = c;
        } else {
            s.erase( p, 1 );
        }
    }
    return s;
}

static std::string genInt() {
    switch( RR( 0, 5 ) ) {
        case 0: {
            static const int ks[] = { 31, 32, 53, 62, 63, 64, 65 };
            __int128 v = ( ( __int128 ) 1 ) << ks[RR( 0, 7 )];
            v += RR( -3, 4 );
            if( RR( 0, 2 ) ) {
                v = -v;
            }
            std::string s = dec128( v );
            if( v > 0 && RR( 0, 4 ) == 0 ) {
                s = "+" + s;
            }
            return s;
        }
        case 1: {
            std::string s = RR( 0, 3 ) == 0 ? ( RR( 0, 2 ) ? "+" : "-" ) : "";
            if( RR( 0, 3 ) == 0 ) {
                s += std::string( RR( 1, 30 ), '0' );
            }
            return s + rDigits( RR( 1, RR( 0, 4 ) == 0 ? 380 : 25 ) );
        }
        case 2: {
            __int128 v = 1;
            int k = RR( 15, 22 );
            for( int i = 0; i < k; i++ ) {
                v *= 10;
            }
            v += RR( -3, 4 );
            return dec128( RR( 0, 2 ) ? v : -v );
        }
        case 3:
            return ( RR( 0, 2 ) ? "-" : "" ) + std::string( "922337203685477580" ) + rDigits( RR( 1, 3 ) );
        default:
            return mutate( genInt(), "019+-.Ee $*a" );
    }
}

static std::string genReal( bool lenientForms ) {
    static const char * const SPECIAL[] = {
        "1.7976931348623157E308", "1.7976931348623158E308", "1.7976931348623159E308", "1.797693134862315807E308",
        "1.797693134862315808E308", "179769313486231570000.0E288", "-1.7976931348623157E+308", "-1.7976931348623159E308",
        "2.2250738585072014E-308", "2.2250738585072011E-308", "2.2250738585072009E-308", "4.9406564584124654E-324",
        "2.4703282292062328E-324", "2.4703282292062327E-324", "1.0E400", "1.0E-400", "-1.0E400", "1.0E309", "9.9E308", "0.0E999",
        "0.30000000000000004", "9007199254740993.0", "9007199254740992.5", "1.17549435E-38", "1.1754943508222875E-38",
        "0.1", "123456789012345678.0", "5.0E-324", "1.0E+0", "1.E5", "1.", "+0.", "-0.0", "1.5E", "1.5E+", "1.5E-", "1.5e5", "1.5e", "1E5",
        "1e5", ".5", "+.5", "5", "1.0E99999999999999999999", "1.0E-99999999999999999999", 0
    };
    switch( RR( 0, 6 ) ) {
        case 0: {
            int n = 0;
            while( SPECIAL[n] ) {
                n++;
            }
            return SPECIAL[RR( 0, n )];
        }
        case 1: {
            std::string s = RR( 0, 3 ) == 0 ? ( RR( 0, 2 ) ? "+" : "-" ) : "";
            s += rDigits( RR( 1, 20 ) ) + "." + rDigits( RR( 0, 20 ) );
            if( RR( 0, 3 ) ) {
                static const int ex[] = { 0, 1, 15, 16, 22, 23, 290, 300, 305, 306, 307, 308, 309, 310, 320, 323, 324, 325, 330 };
                int e = RR( 0, 2 ) ? ex[RR( 0, 19 )] : RR( 0, 340 );
                s += std::string( "E" ) + ( RR( 0, 2 ) ? "-" : ( RR( 0, 2 ) ? "+" : "" ) ) + ( RR( 0, 5 ) == 0 ? "00" : "" );
                char b[16];
                snprintf( b, sizeof b, "%d", e );
                s += b;
            }
            return s;
        }
        case 2:     // 17 significant digits
            return rDigits( 1, true ) + "." + rDigits( 16 ) + ( RR( 0, 2 ) ? "" : std::string( "E" ) + ( RR( 0, 2 ) ? "-" : "" ) + rDigits( RR( 1, 4 ) ) );
        case 3:     // long tokens (<= 400 characters)
            return rDigits( RR( 1, 200 ) ) + "." + rDigits( RR( 0, 190 ) ) + ( RR( 0, 2 ) ? "" : "E-" + rDigits( RR( 1, 3 ) ) );
        case 4:
            if( lenientForms ) {
                switch( RR( 0, 4 ) ) {
                    case 0: return "." + rDigits( RR( 1, 10 ) );
                    case 1: return rDigits( RR( 1, 10 ) ) + "e" + rDigits( RR( 1, 3 ) );
                    case 2: return rDigits( RR( 1, 10 ) ) + "E" + ( RR( 0, 2 ) ? "+" : "-" ) + rDigits( RR( 1, 3 ) );
                    default: return genInt();
                }
            }
            return genReal( false );
        default:
            return mutate( genReal( lenientForms ), "019+-.Ee $*a" );
    }
}

static std::string genString() {
    static const char * const GOODF[] = { "a", "Z", " ", "0", "~", "!", "\"", ",", ")", "(", ";", "#", "$", "*", "/", "/*", "*/", "''", "\\\\", "\\S\\a",
                                          "\\S\\'", "\\S\\\\", "\\PA\\", "\\PI\\", "\\X\\00", "\\X\\E9", "\\X2\\00E9\\X0\\", "\\X2\\00E903A9\\X0\\",
                                          "\\X4\\0001F600\\X0\\", "\\X4\\0001F6000000263A\\X0\\", "\\\\S\\\\", "S", "X", "P", 0
                                        };
    static const char * const BADF[] = { "'", "\\", "\\S", "\\Q\\", "\\X\\0", "\\X\\GG", "\\X2\\00\\X0\\", "\\X2\\00E9", "\\X4\\0001\\X0\\", "\\X0\\", "\\Pa\\",
                                         "\n", "\t", "\x80", "\\N\\", "\\X\\e9", 0
                                       };
    int ng = 0, nb = 0;
    while( GOODF[ng] ) {
        ng++;
    }
    while( BADF[nb] ) {
        nb++;
    }
    std::string s = RR( 0, 30 ) == 0 ? "" : "'";
    int n = RR( 0, RR( 0, 4 ) == 0 ? 90 : 12 );
    int badp = RR( 0, 3 ) == 0 ? 6 : 0;     // a third of the strings contain invalid fragments
    for( int i = 0; i < n && s.size() < 380; i++ ) {
        if( badp && RR( 0, badp ) == 0 ) {
            s += BADF[RR( 0, nb )];
        } else {
            s += GOODF[RR( 0, ng )];
        }
    }
    if( RR( 0, 30 ) ) {
        s += "'";
    }
    return s;
}

static std::string genBinary() {
    static const char * H = "0123456789ABCDEF";
    std::string s = "\"";
    s += ( char )( '0' + RR( 0, RR( 0, 8 ) == 0 ? 10 : 4 ) );
    int n = RR( 0, RR( 0, 4 ) == 0 ? 396 : 20 );
    for( int i = 0; i < n; i++ ) {
        s += H[RR( 0, 16 )];
    }
    s += "\"";
    return RR( 0, 4 ) == 0 ? mutate( s, "\"0123ABCDEFabcdefgG $" ) : s;
}

static std::string genEnum( Kind k ) {
    static const char * const OTHER[] = { "UNSET", "UNKNOWN", "TRUE", "FALSE", "BLUE", "BLUE_", "RED1", "X", "NULL", "E", 0 };
    const char * const * items = itemsOf( k );
    int ni = 0, no = 0;
    while( items[ni] ) {
        ni++;
    }
    while( OTHER[no] ) {
        no++;
    }
    std::string nm = RR( 0, 4 ) ? items[RR( 0, ni )] : OTHER[RR( 0, no )];
    if( RR( 0, 3 ) == 0 ) {
        for( size_t i = 0; i < nm.size(); i++ ) {
            if( RR( 0, 2 ) && nm[i] >= 'A' && nm[i] <= 'Z' ) {
                nm[i] = ( char )( nm[i] - 'A' + 'a' );
            }
        }
    }
    if( RR( 0, 12 ) == 0 ) {
        nm += std::string( RR( 1, 380 ), 'A' );     // long identifiers
    }
    std::string s = ( RR( 0, 12 ) ? "." : "" ) + nm + ( RR( 0, 12 ) ? "." : "" );
    return RR( 0, 6 ) == 0 ? mutate( s, ".ATFU_1 $*a" ) : s;
}

static std::string genRef() {
    static const char * const IDS[] = { "1", "9", "10", "19", "90", "100", "2147483647", "11", "91", "12", "0", "2147483648", "4294967297",
                                        "99999999999999999999", "010", "0000000001", 0
                                      };
    int n = 0;
    while( IDS[n] ) {
        n++;
    }
    std::string s = "#";
    s += RR( 0, 4 ) ? std::string( IDS[RR( 0, n )] ) : rDigits( RR( 1, RR( 0, 6 ) == 0 ? 390 : 8 ) );
    return RR( 0, 4 ) == 0 ? mutate( s, "#@019-+ $*a." ) : s;
}

static std::string genToken( Kind k ) {
    switch( k ) {
        case K_INT: return genInt();
        case K_REAL: return genReal( false );
        case K_NUM: return RR( 0, 3 ) == 0 ? genInt() : genReal( true );
        case K_STR: return genString();
        case K_BIN: return genBinary();
        case K_BOOL: case K_LOG: case K_ENUM: return genEnum( k );
        case K_REF: return genRef();
        default: return "";
    }
}

static int cmdRandom( int argc, char ** argv ) {
    if( argc < 5 ) {
        die( "random: arguments" );
    }
    std::string out = argv[2];
    Kind k = ( Kind ) atoi( argv[3] );
    long want = atol( argv[4] );
    silenceLibrary();
    setupFixtures();
    openCur( out );
    Tally T;
    std::unordered_set<std::string> seen;
    long maxlen = 0, longTokens = 0;
    // rapidcheck is used as the (seeded, sized) generator; the property itself never fails here: failures are tallied by
    // root-cause signature like in the enumerated part, so that one run reports all of them.
    long rounds = 0;
    while( T.tokens < want && rounds < 50 ) {
        rounds++;
        rc::check( [&]() {
            if( T.tokens >= want ) {
                return;
            }
            std::string tok = genToken( k );
            if( tok.size() > 400 ) {
                tok.resize( 400 );
            }
            int opt = RR( 0, 2 );
            maxlen = std::max( maxlen, ( long ) tok.size() );
            // distinct non-trivial: only tokens longer than anything the enumeration reaches (64) are counted
            bool countable = tok.size() > 64 && seen.insert( std::string( 1, ( char )( '0' + opt ) ) + tok ).second;
            long nt0 = T.nontrivial;
            runToken( T, k, opt, tok, 3, countable );
            if( T.nontrivial > nt0 ) {
                longTokens++;
                for( long i = nt0; i < T.nontrivial; i++ ) {
                    char b[40];
                    snprintf( b, sizeof b, "%016llx", ( unsigned long long )( fnv( tok ) ^ ( ( uint64_t ) k << 60 ) ^ ( ( uint64_t ) opt << 59 ) ^ ( uint64_t )( i - nt0 ) ) );
                    T.ntHashes.push_back( b );
                }
            }
        } );
    }
    std::ostringstream x;
    x << ",\"max_token_len\":" << maxlen << ",\"long_distinct_tokens\":" << longTokens;
    CUR[0] = 0;
    writeTally( out, T, x.str() );
    return 0;
}

#include "literals_writer.h"
#endif
