// C13 - instance manager consistent under any operation sequence.
//
// One binary, four modes:
//   instmgr_sm random                     rapidcheck state machine (rc::state); configured by RC_PARAMS
//   instmgr_sm exhaustive <len> [k n]     every sequence of length 1..len over a 16 symbol alphabet,
//                                         x {non-owning, owning}; shard k of n
//   instmgr_sm long <nseq> <len> <seed>   long append-biased sequences (crosses the 1024 entry growth
//                                         boundary of GenNodeArray), own PRNG
//   instmgr_sm replay <file>              re-executes a textual trace, exit 1 when it fails
//
// Soundness architecture: a trace is a list of *symbolic* commands ("delete_node 3" = delete the
// node of the (3 mod n)-th live instance).  All arguments are resolved at run time against the
// ORACLE, which is observational: it never predicts file ids, it reads them back from the
// instances (harness owned objects) and checks what the property demands of them.  A command whose
// precondition does not hold at run time is skipped (and counted), never executed.  The rapidcheck
// model (struct Model) only steers generation towards applicable commands; no verdict depends on it.
//
// Preconditions (what real callers respect and the API does not check); the generator/runner never
// issues a command outside them:
//   P1  Delete(node)/ChangeState(node,..)/GetIndex(node): node is a node of a live instance of THIS
//       manager (STEPfile only ever uses nodes it just got from FindFileId/Append).
//   P2  Delete(instance): the instance is live in this manager (InstMgr::Delete(se) dereferences
//       FindFileId(se->StepFileId()) unchecked).
//   P3  GetApplication_instance(i), GetMgrNode(i): 0 <= i < InstanceCount() (VerifyInstances, the
//       by-name loops and STEPfile's writers all iterate i < InstanceCount(); beyond the count the
//       array holds stale pointers after DeleteInstances()).
//   P4  GetApplication_instance(name, start): start >= 0 (callers pass 0 or GetIndex(node)+1).
//   P5  file ids are in [0, 100000]: 0 means "not assigned" (Append treats it so); negative ids and
//       ids near INT_MAX (NextFileId() overflow) never come out of STEPfile.
//   P6  states are completeSE/incompleteSE/deleteSE/newSE (noStateSE is documented as an error).
//   P7  the file id of an instance is not changed behind the manager's back while it is live, and an
//       instance the manager destroyed is never passed in again (the harness observes destruction
//       through a destructor hook, it does not assume it).
//   P8  an instance is in at most one manager (single manager per sequence).
//
// What is asserted (after every command unless "sweep" says otherwise, and by the look-up commands):
//   count = number of live instances; i-th entry is the i-th survivor in insertion order
//   (GetApplication_instance(i), GetMgrNode(i)), GetIndex(node_i) = i, CurrState = last state set;
//   FindFileId(id of a live instance) = a node of a live instance carrying that id (= THE node when
//   ids are unique among the live ones), FindFileId(any other id) = null; an Append of an instance
//   that is not in the manager adds exactly one entry at the end; an explicit id (non-zero, not
//   live) is kept; an automatic id (instance came with id 0, or with an id that is live on another
//   instance) is not live before and above every id seen since the manager was last empty;
//   NextFileId() likewise; MaxFileId() >= every live id; by-name look-up = first match at or after
//   start; EntityKeywordCount = number of live instances of that type; an Append of an instance that
//   is already in the manager does not add an entry; the manager never destroys a live instance and
//   never destroys anything twice.
#include "clstepcore/sdai.h"
#include "clstepcore/instmgr.h"
#include "clstepcore/Registry.h"
#include "cleditor/SdaiHeaderSchema.h"
#include "cleditor/SdaiSchemaInit.h"

#include <rapidcheck.h>
#include <rapidcheck/state.h>

#include <algorithm>
#include <cctype>
#include <csignal>
#include <cstdint>
#include <cstdio>
#include <cstdlib>
#include <cstring>
#include <fstream>
#include <map>
#include <memory>
#include <set>
#include <sstream>
#include <string>
#include <vector>
#include <fcntl.h>
#include <unistd.h>

#if defined(__has_feature)
#if __has_feature(address_sanitizer)
#define C13_ASAN 1
extern "C" void __sanitizer_set_death_callback( void ( *cb )( void ) );
#endif
#endif

// ---------------------------------------------------------------------------------------------
// commands

enum Kind {
    APPEND_NEW, APPEND_ID, APPEND_DUP, APPEND_SAME, APPEND_DETACHED,
    DELETE_NODE, DELETE_INST, CHANGE_STATE, CLEAR, DELETE_ALL,
    FIND_LIVE, FIND_DEAD, FIND_UNUSED, GET_INST, GET_INDEX, BY_NAME, KW_COUNT, MAX_ID, NEXT_ID,
    NKINDS
};
static const char * const KIND_NAME[NKINDS] = {
    "append_new", "append_id", "append_dup", "append_same", "append_detached",
    "delete_node", "delete_inst", "change_state", "clear", "delete_all",
    "find_live", "find_dead", "find_unused", "get_inst", "get_index", "by_name", "kw_count", "max_id", "next_id"
};
static const int KIND_NARGS[NKINDS] = { 2, 3, 3, 2, 2, 1, 1, 2, 0, 0, 1, 1, 1, 1, 1, 2, 1, 0, 0 };

struct Cmd {
    Kind k;
    int a, b, c;
    Cmd(): k( MAX_ID ), a( 0 ), b( 0 ), c( 0 ) {}
    Cmd( Kind kk, int aa = 0, int bb = 0, int cc = 0 ): k( kk ), a( aa ), b( bb ), c( cc ) {}
};

static const stateEnum STATES[4] = { completeSE, incompleteSE, deleteSE, newSE };
static const char * const STATE_NAME[4] = { "complete", "incomplete", "delete", "new" };
static int stateIdx( stateEnum s ) {
    for( int i = 0; i < 4; i++ ) if( STATES[i] == s ) {
            return i;
        }
    return -1;
}

static std::string cmdText( const Cmd & c ) {
    std::ostringstream o;
    o << KIND_NAME[c.k];
    switch( c.k ) {
        case APPEND_NEW:
            o << " " << c.a << " " << STATE_NAME[c.b & 3];
            break;
        case APPEND_ID:
        case APPEND_DUP:
            o << " " << c.a << " " << STATE_NAME[c.b & 3] << " " << c.c;
            break;
        case APPEND_SAME:
        case APPEND_DETACHED:
        case CHANGE_STATE:
            o << " " << c.a << " " << STATE_NAME[c.b & 3];
            break;
        case BY_NAME:
            o << " " << c.a << " " << c.b;
            break;
        default:
            if( KIND_NARGS[c.k] == 1 ) {
                o << " " << c.a;
            }
    }
    return o.str();
}

static bool parseState( const std::string & s, int & out ) {
    for( int i = 0; i < 4; i++ ) if( s == STATE_NAME[i] ) {
            out = i;
            return true;
        }
    return false;
}

// ---------------------------------------------------------------------------------------------
// instances: header-schema entities with a destructor hook (destruction is observed, not assumed)

struct Hook {
    int destroyed;
    Hook(): destroyed( 0 ) {}
};
template<class Base> struct Hooked : public Base {
    Hook * h;
    explicit Hooked( Hook * hh ): Base(), h( hh ) {}
    virtual ~Hooked() {
        h->destroyed++;
    }
};

static const int NTYPES = 4;
static SDAI_Application_instance * makeInstance( int type, Hook * h ) {
    switch( type & 3 ) {
        case 0:
            return new Hooked<SdaiFile_name>( h );
        case 1:
            return new Hooked<SdaiFile_description>( h );
        case 2:
            return new Hooked<SdaiFile_schema>( h );
        default:
            return new Hooked<SdaiSection_language>( h );
    }
}
// names used for by-name look-ups: spelling -> instance type (or -1: never instantiated / unknown)
struct NameEnt {
    const char * name;
    int type;
};
static const NameEnt NAMES[] = {
    { "File_Name", 0 }, { "FILE_DESCRIPTION", 1 }, { "file_schema", 2 }, { "Section_Language", 3 },
    { "File_Population", -1 }, { "No_Such_Entity", -1 },
    { "FILE_NAME", 0 }, { "File_Description", 1 }, { "File_Schema", 2 }, { "section_language", 3 }
};
static const int NNAMES = sizeof( NAMES ) / sizeof( NAMES[0] );

// ---------------------------------------------------------------------------------------------
// options / globals

struct Options {
    bool exclReappendId0;   // known finding shape excluded by construction
    Options(): exclReappendId0( false ) {}
};
static Options g_opt;

static uint64_t fnv( const std::string & s, uint64_t h = 1469598103934665603ULL ) {
    for( size_t i = 0; i < s.size(); i++ ) {
        h ^= ( unsigned char )s[i];
        h *= 1099511628211ULL;
    }
    return h;
}

// current trace kept in a plain buffer so that a crash handler can dump it
static std::string g_curTrace;       // trace of the sequence being executed (textual, replayable)
static const char * g_crashFile = 0;
static void dumpCrash() {
    if( !g_crashFile ) {
        return;
    }
    int fd = open( g_crashFile, O_WRONLY | O_CREAT | O_TRUNC, 0644 );
    if( fd >= 0 ) {
        ssize_t r = write( fd, g_curTrace.data(), g_curTrace.size() );
        ( void )r;
        close( fd );
    }
}
static void onSignal( int sig ) {
    dumpCrash();
    signal( sig, SIG_DFL );
    raise( sig );
}

// ---------------------------------------------------------------------------------------------
// the runner: SUT + observational oracle

struct Obj {
    SDAI_Application_instance * p;
    Hook hook;
    int type;
    int slot;
    bool freedByHarness;
    Obj(): p( 0 ), type( 0 ), slot( 0 ), freedByHarness( false ) {}
};
struct LiveEnt {
    Obj * o;
    MgrNode * node;
    stateEnum st;
};

struct SeqStats {
    int executed, skipped, excluded;
    int kinds[NKINDS];
    std::map<std::string, int> classes;
    bool sawDelete, deleteThenUse, dupAppend;
    SeqStats(): executed( 0 ), skipped( 0 ), excluded( 0 ), sawDelete( false ), deleteThenUse( false ), dupAppend( false ) {
        memset( kinds, 0, sizeof kinds );
    }
    bool nontrivial() const {
        return deleteThenUse || dupAppend;
    }
};

class Runner {
    public:
        InstMgr * mgr;
        bool owning;
        int sweepEvery;     // 1: after every command, 0: only at the end, k: after every k-th command
        std::vector<std::unique_ptr<Obj> > objs;
        std::vector<LiveEnt> live;
        std::vector<Obj *> detached;
        std::set<int> seenEver;         // every id observed in this sequence
        std::set<int> seenSinceEmpty;   // ids observed since the manager last held no instance
        std::string failure;            // first failure, empty = none
        std::string failSig;
        bool finished;
        SeqStats st;
        std::string resolved;           // canonical resolved trace (for the distinctness hash)
        std::vector<std::string> lines; // textual trace, executed commands annotated
        long nsteps;
        bool lastSkipExcluded;

        Runner( bool own, int sweep ): mgr( new InstMgr( own ? 1 : 0 ) ), owning( own ), sweepEvery( sweep ),
            finished( false ), nsteps( 0 ), lastSkipExcluded( false ) {
            std::ostringstream h;
            h << "owner " << ( own ? 1 : 0 ) << "\n" << "sweep " << sweep << "\n";
            if( g_opt.exclReappendId0 ) {
                h << "exclude reappend_id0\n";
            }
            header = h.str();
            resolved = header;
            g_curTrace = header;
        }
        ~Runner() {
            if( !finished && failure.empty() ) {
                teardown( false );
            }
            // after a failure the manager may be corrupt: leak everything rather than touch it
        }

        std::string header;
        std::string traceText() const {
            std::string t = header;
            for( size_t i = 0; i < lines.size(); i++ ) {
                t += lines[i];
                t += "\n";
            }
            return t;
        }

        bool fail( const std::string & sig, const std::string & msg ) {
            if( failure.empty() ) {
                failure = msg;
                failSig = sig;
            }
            return false;
        }

        static int idx( int k, int n ) {
            return ( ( k % n ) + n ) % n;
        }
        int liveIndexOf( const Obj * o ) const {
            for( size_t i = 0; i < live.size(); i++ ) if( live[i].o == o ) {
                    return ( int )i;
                }
            return -1;
        }
        bool idLive( int id, const Obj * except = 0 ) const {
            for( size_t i = 0; i < live.size(); i++ ) if( live[i].o != except && live[i].o->p->StepFileId() == id ) {
                    return true;
                }
            return false;
        }
        void noteEmptied() {
            if( live.empty() ) {
                seenSinceEmpty.clear();
            }
        }
        void sawId( int id ) {
            seenEver.insert( id );
            seenSinceEmpty.insert( id );
        }
        std::vector<int> deadIds() const {
            std::vector<int> d;
            for( std::set<int>::const_iterator it = seenEver.begin(); it != seenEver.end(); ++it ) if( !idLive( *it ) ) {
                    d.push_back( *it );
                }
            return d;
        }
        Obj * newObj( int type ) {
            std::unique_ptr<Obj> o( new Obj );
            o->type = type & 3;
            o->slot = ( int )objs.size();
            o->p = makeInstance( type, &o->hook );
            objs.push_back( std::move( o ) );
            return objs.back().get();
        }

        // ---- direct checks -------------------------------------------------------------------
        bool checkCount( const char * where ) {
            int c = mgr->InstanceCount();
            if( c != ( int )live.size() ) {
                std::ostringstream m;
                m << where << ": InstanceCount()=" << c << " but " << live.size() << " live instances";
                return fail( "count", m.str() );
            }
            return true;
        }
        bool checkNoLiveDestroyed( const char * where ) {
            for( size_t i = 0; i < live.size(); i++ ) if( live[i].o->hook.destroyed ) {
                    std::ostringstream m;
                    m << where << ": live instance obj" << live[i].o->slot << " (position " << i << ") was destroyed by the manager";
                    return fail( "live-destroyed", m.str() );
                }
            for( size_t i = 0; i < objs.size(); i++ ) if( objs[i]->hook.destroyed > 1 ) {
                    std::ostringstream m;
                    m << where << ": obj" << i << " destroyed " << objs[i]->hook.destroyed << " times";
                    return fail( "double-destroy", m.str() );
                }
            return true;
        }
        bool checkFind( int id, const char * where ) {
            MgrNode * r = mgr->FindFileId( id );
            int holders = 0, pos = -1;
            for( size_t i = 0; i < live.size(); i++ ) if( live[i].o->p->StepFileId() == id ) {
                    holders++;
                    if( pos < 0 || live[i].node == r ) {
                        pos = ( int )i;
                    }
                }
            std::ostringstream m;
            if( holders == 0 ) {
                if( r ) {
                    m << where << ": FindFileId(" << id << ") returned a node but no live instance carries id " << id;
                    return fail( "find-dead", m.str() );
                }
                return true;
            }
            if( !r ) {
                m << where << ": FindFileId(" << id << ") returned null but live instance at position " << pos << " carries that id";
                return fail( "find-live-null", m.str() );
            }
            // r must be the node of a live holder (pointer comparison only; never dereference an unknown node)
            bool ok = false;
            for( size_t i = 0; i < live.size(); i++ ) if( live[i].node == r && live[i].o->p->StepFileId() == id ) {
                    ok = true;
                }
            if( !ok ) {
                m << where << ": FindFileId(" << id << ") returned a node that is not the node of a live instance carrying id " << id;
                return fail( "find-live-wrong", m.str() );
            }
            if( mgr->GetApplication_instance( r )->StepFileId() != id ) {
                m << where << ": FindFileId(" << id << ") node's instance carries id " << mgr->GetApplication_instance( r )->StepFileId();
                return fail( "find-live-wrong", m.str() );
            }
            return true;
        }
        int modelFirst( int type, int start ) const {
            for( int j = start < 0 ? 0 : start; j < ( int )live.size(); j++ ) if( live[j].o->type == type ) {
                    return j;
                }
            return -1;
        }
        bool checkByName( int ni, int start, const char * where ) {
            const NameEnt & ne = NAMES[idx( ni, NNAMES )];
            SDAI_Application_instance * r = mgr->GetApplication_instance( ne.name, start );
            int j = ne.type < 0 ? -1 : modelFirst( ne.type, start );
            SDAI_Application_instance * want = j < 0 ? ( SDAI_Application_instance * )ENTITY_NULL : live[j].o->p;
            if( r != want ) {
                std::ostringstream m;
                m << where << ": GetApplication_instance(\"" << ne.name << "\", " << start << ") returned ";
                int rp = -1;
                for( size_t i = 0; i < live.size(); i++ ) if( live[i].o->p == r ) {
                        rp = ( int )i;
                    }
                if( !r || r == ENTITY_NULL ) {
                    m << "nothing";
                } else if( rp >= 0 ) {
                    m << "the instance at position " << rp;
                } else {
                    m << "a pointer that is not a live instance";
                }
                m << ", expected ";
                if( j < 0 ) {
                    m << "nothing";
                } else {
                    m << "position " << j;
                }
                return fail( "by-name", m.str() );
            }
            return true;
        }
        bool checkKw( int ni, const char * where ) {
            const NameEnt & ne = NAMES[idx( ni, NNAMES )];
            int want = 0;
            for( size_t i = 0; i < live.size(); i++ ) if( live[i].o->type == ne.type ) {
                    want++;
                }
            int got = mgr->EntityKeywordCount( ne.name );
            if( got != want ) {
                std::ostringstream m;
                m << where << ": EntityKeywordCount(\"" << ne.name << "\")=" << got << ", model has " << want;
                return fail( "kw-count", m.str() );
            }
            return true;
        }
        bool checkMax( const char * where ) {
            int mx = mgr->MaxFileId();
            for( size_t i = 0; i < live.size(); i++ ) if( live[i].o->p->StepFileId() > mx ) {
                    std::ostringstream m;
                    m << where << ": MaxFileId()=" << mx << " is below live id " << live[i].o->p->StepFileId() << " (position " << i << ")";
                    return fail( "max-below-live", m.str() );
                }
            return true;
        }
        bool checkPos( int i, const char * where ) {
            std::ostringstream m;
            MgrNode * n = mgr->GetMgrNode( i );
            if( n != live[i].node ) {
                m << where << ": GetMgrNode(" << i << ") is not the node Append returned for the " << i << "-th surviving instance";
                return fail( "order-node", m.str() );
            }
            SDAI_Application_instance * p = mgr->GetApplication_instance( i );
            if( p != live[i].o->p ) {
                m << where << ": GetApplication_instance(" << i << ") is not the " << i << "-th surviving instance (obj" << live[i].o->slot << ")";
                return fail( "order-inst", m.str() );
            }
            int gi = mgr->GetIndex( live[i].node );
            if( gi != i ) {
                m << where << ": GetIndex(node of position " << i << ")=" << gi;
                return fail( "index", m.str() );
            }
            if( live[i].node->GetApplication_instance() != live[i].o->p ) {
                m << where << ": node at position " << i << " no longer refers to its instance";
                return fail( "order-inst", m.str() );
            }
            if( live[i].node->CurrState() != live[i].st || !live[i].node->MgrNodeListMember( live[i].st ) ) {
                m << where << ": state of position " << i << " is " << ( int )live[i].node->CurrState() << ", last state set was " << ( int )live[i].st;
                return fail( "state", m.str() );
            }
            return true;
        }

        // full look-up sweep
        bool sweep( const char * where ) {
            if( !checkCount( where ) || !checkNoLiveDestroyed( where ) ) {
                return false;
            }
            int n = ( int )live.size();
            for( int i = 0; i < n; i++ ) if( mgr->GetMgrNode( i ) != live[i].node ) {
                    std::ostringstream m;
                    m << where << ": GetMgrNode(" << i << ") is not the node Append returned for the " << i << "-th surviving instance";
                    return fail( "order-node", m.str() );
                }
            // look-up by id: every live id, dead ids (sampled when many), a few never used ids
            for( int i = 0; i < n; i++ ) if( !checkFind( live[i].o->p->StepFileId(), where ) ) {
                    return false;
                }
            std::vector<int> dead = deadIds();
            size_t stepd = dead.size() > 64 ? dead.size() / 64 : 1;
            for( size_t i = ( size_t )( nsteps % ( long )stepd ); i < dead.size(); i += stepd ) if( !checkFind( dead[i], where ) ) {
                    return false;
                }
            int top = seenEver.empty() ? 0 : *seenEver.rbegin();
            int unused[] = { -1, 0, top + 1, top + 2, top + 1000, 2147483647 };
            for( size_t i = 0; i < sizeof unused / sizeof unused[0]; i++ ) if( !checkFind( unused[i], where ) ) {
                    return false;
                }
            if( !checkMax( where ) ) {
                return false;
            }
            for( int i = 0; i < n; i++ ) if( !checkPos( i, where ) ) {
                    return false;
                }
            // by name
            int rot = ( int )( nsteps % NNAMES );
            int nn = n <= 24 ? NNAMES : 4;
            for( int q = 0; q < nn; q++ ) {
                int ni = ( rot + q ) % NNAMES;
                if( !checkKw( ni, where ) ) {
                    return false;
                }
                if( n <= 8 ) {
                    for( int s = 0; s <= n + 1; s++ ) if( !checkByName( ni, s, where ) ) {
                            return false;
                        }
                } else {
                    int starts[8] = { 0, 1, n - 1, n, n + 1, ( int )( ( nsteps * 7 ) % n ), ( int )( ( nsteps * 13 + 5 ) % n ), n / 2 };
                    for( int s = 0; s < 8; s++ ) if( !checkByName( ni, starts[s], where ) ) {
                            return false;
                        }
                }
            }
            return true;
        }

        // ---- commands ------------------------------------------------------------------------
        // generic Append of an instance that may or may not be in the manager already
        bool doAppend( Obj * o, stateEnum s, std::string & note, const char *& cls ) {
            int wasLiveAt = liveIndexOf( o );
            int idBefore = o->p->StepFileId();
            bool idLiveElsewhere = idBefore != 0 && idLive( idBefore, o );
            std::set<int> liveBefore;
            for( size_t i = 0; i < live.size(); i++ ) {
                liveBefore.insert( live[i].o->p->StepFileId() );
            }
            int cnt0 = mgr->InstanceCount();
            MgrNode * ret = mgr->Append( o->p, s );
            std::ostringstream nt, m;
            if( o->hook.destroyed ) {
                m << "Append(obj" << o->slot << "): the manager destroyed the instance";
                return fail( "live-destroyed", m.str() );
            }
            int idAfter = o->p->StepFileId();
            int cnt1 = mgr->InstanceCount();
            if( wasLiveAt >= 0 ) {
                cls = idBefore == 0 ? "append:same-instance(id 0)" : "append:same-instance";
                nt << "obj" << o->slot << " again (id " << idBefore << ") -> " << ( ret ? "node" : "null" ) << ", id " << idAfter;
                note = nt.str();
                if( cnt1 != cnt0 ) {
                    m << "Append of obj" << o->slot << " (id " << idBefore << "), which is already in the manager at position " << wasLiveAt
                      << ": InstanceCount() went from " << cnt0 << " to " << cnt1 << " for " << live.size() << " live instances"
                      << " (instance now carries id " << idAfter << ")";
                    return fail( idBefore == 0 ? "reappend-id0" : "reappend-count", m.str() );
                }
                // whether the state argument of a refused re-append counts as "state set" is not
                // specified: take whatever the node reports now as the reference
                live[wasLiveAt].st = live[wasLiveAt].node->CurrState();
                return true;
            }
            if( !ret ) {
                m << "Append(obj" << o->slot << ", id " << idBefore << ") of an instance that is not in the manager returned null";
                return fail( "append-refused", m.str() );
            }
            if( cnt1 != cnt0 + 1 ) {
                m << "Append(obj" << o->slot << ", id " << idBefore << "): InstanceCount() went from " << cnt0 << " to " << cnt1;
                return fail( "count", m.str() );
            }
            for( size_t i = 0; i < detached.size(); i++ ) if( detached[i] == o ) {
                    detached.erase( detached.begin() + i );
                    break;
                }
            LiveEnt le;
            le.o = o;
            le.node = ret;
            le.st = s;
            live.push_back( le );
            if( idBefore != 0 && !idLiveElsewhere ) {
                cls = seenEver.count( idBefore ) ? "append:explicit-id(seen before, not live)" : "append:explicit-id(never seen)";
                nt << "obj" << o->slot << " id " << idBefore << " -> id " << idAfter;
                note = nt.str();
                if( idAfter != idBefore ) {
                    m << "Append(obj" << o->slot << ") with explicit id " << idBefore << " (not live): instance now carries id " << idAfter;
                    return fail( "explicit-id-changed", m.str() );
                }
            } else {
                cls = idBefore == 0 ? "append:auto-id" : "append:duplicate-id";
                if( idBefore != 0 ) {
                    st.dupAppend = true;
                }
                nt << "obj" << o->slot << " id " << idBefore << ( idBefore ? " (live on another instance)" : "" ) << " -> auto id " << idAfter;
                note = nt.str();
                if( liveBefore.count( idAfter ) ) {
                    m << "Append(obj" << o->slot << ", id " << idBefore << "): automatic id " << idAfter << " is carried by a live instance";
                    return fail( "auto-id-not-fresh", m.str() );
                }
                if( !seenSinceEmpty.empty() && idAfter <= *seenSinceEmpty.rbegin() ) {
                    m << "Append(obj" << o->slot << ", id " << idBefore << "): automatic id " << idAfter << " is not above id "
                      << *seenSinceEmpty.rbegin() << " seen since the manager was last empty";
                    return fail( "auto-id-not-above", m.str() );
                }
            }
            sawId( idAfter );
            return true;
        }

        // returns false when the property failed.  `executed` tells whether the command ran.
        bool step( const Cmd & c, bool * executedOut = 0 ) {
            if( !failure.empty() ) {
                return false;
            }
            nsteps++;
            std::string text = cmdText( c );
            g_curTrace += text;
            g_curTrace += "\n";
            int n = ( int )live.size();
            bool needLive = c.k == APPEND_DUP || c.k == APPEND_SAME || c.k == DELETE_NODE || c.k == DELETE_INST ||
                            c.k == CHANGE_STATE || c.k == FIND_LIVE || c.k == GET_INST || c.k == GET_INDEX;
            std::string skipWhy;
            if( needLive && n == 0 ) {
                skipWhy = "no live instance";
            }
            if( c.k == APPEND_DETACHED && detached.empty() ) {
                skipWhy = "no detached instance";
            }
            if( c.k == APPEND_ID && ( c.c < 1 || c.c > 100000 ) ) {
                skipWhy = "id out of range";
            }
            std::vector<int> dead;
            if( c.k == FIND_DEAD ) {
                dead = deadIds();
                if( dead.empty() ) {
                    skipWhy = "no dead id";
                }
            }
            if( c.k == DELETE_INST && skipWhy.empty() ) {
                Obj * o = live[idx( c.a, n )].o;
                if( idLive( o->p->StepFileId(), o ) ) {
                    skipWhy = "id not unique";    // cannot happen with the current implementation
                }
            }
            bool excluded = false;
            if( c.k == APPEND_SAME && skipWhy.empty() && g_opt.exclReappendId0 &&
                    live[idx( c.a, n )].o->p->StepFileId() == 0 ) {
                skipWhy = "excluded: re-append of an instance carrying id 0";
                excluded = true;
            }
            lastSkipExcluded = excluded;
            if( !skipWhy.empty() ) {
                st.skipped++;
                if( excluded ) {
                    st.excluded++;
                }
                lines.push_back( "# skipped (" + skipWhy + "): " + text );
                if( executedOut ) {
                    *executedOut = false;
                }
                return true;
            }
            if( executedOut ) {
                *executedOut = true;
            }
            st.executed++;
            st.kinds[c.k]++;
            {
                // canonical spelling of the command: positional arguments resolved (idempotent under replay)
                Cmd cc = c;
                switch( c.k ) {
                    case APPEND_DUP:
                        cc.c = idx( c.c, n );
                        break;
                    case APPEND_DETACHED:
                        cc.a = idx( c.a, ( int )detached.size() );
                        break;
                    case FIND_DEAD:
                        cc.a = idx( c.a, ( int )dead.size() );
                        break;
                    case BY_NAME:
                        cc.a = idx( c.a, NNAMES );
                        cc.b = idx( c.b, n + 3 );
                        break;
                    case KW_COUNT:
                        cc.a = idx( c.a, NNAMES );
                        break;
                    case FIND_UNUSED:
                        break;
                    default:
                        if( needLive ) {
                            cc.a = idx( c.a, n );
                        }
                }
                text = cmdText( cc );
            }
            bool isAppend = c.k <= APPEND_DETACHED;
            bool isLookup = c.k >= FIND_LIVE && c.k <= MAX_ID;
            if( st.sawDelete && ( isAppend || isLookup ) ) {
                st.deleteThenUse = true;
            }
            std::string note;
            const char * cls = KIND_NAME[c.k];
            std::ostringstream res;     // resolved canonical form
            bool ok = true;
            std::string where = text;
            switch( c.k ) {
                case APPEND_NEW: {
                    Obj * o = newObj( c.a );
                    res << "append t" << o->type << " s" << ( c.b & 3 ) << " id0";
                    ok = doAppend( o, STATES[c.b & 3], note, cls );
                    break;
                }
                case APPEND_ID: {
                    Obj * o = newObj( c.a );
                    o->p->StepFileId( c.c );
                    res << "append t" << o->type << " s" << ( c.b & 3 ) << " id" << c.c;
                    ok = doAppend( o, STATES[c.b & 3], note, cls );
                    break;
                }
                case APPEND_DUP: {
                    int i = idx( c.c, n );
                    int id = live[i].o->p->StepFileId();
                    Obj * o = newObj( c.a );
                    o->p->StepFileId( id );
                    res << "append t" << o->type << " s" << ( c.b & 3 ) << " id" << id << " dup@" << i;
                    ok = doAppend( o, STATES[c.b & 3], note, cls );
                    break;
                }
                case APPEND_SAME: {
                    int i = idx( c.a, n );
                    res << "reappend @" << i << " s" << ( c.b & 3 );
                    ok = doAppend( live[i].o, STATES[c.b & 3], note, cls );
                    break;
                }
                case APPEND_DETACHED: {
                    int i = idx( c.a, ( int )detached.size() );
                    Obj * o = detached[i];
                    res << "append detached obj" << o->slot << " s" << ( c.b & 3 );
                    ok = doAppend( o, STATES[c.b & 3], note, cls );
                    break;
                }
                case DELETE_NODE:
                case DELETE_INST: {
                    int i = idx( c.a, n );
                    LiveEnt le = live[i];
                    int id = le.o->p->StepFileId();
                    res << ( c.k == DELETE_NODE ? "delnode @" : "delinst @" ) << i;
                    if( c.k == DELETE_NODE ) {
                        mgr->Delete( le.node );
                    } else {
                        mgr->Delete( le.o->p );
                    }
                    live.erase( live.begin() + i );
                    st.sawDelete = true;
                    std::ostringstream nt;
                    nt << "position " << i << " obj" << le.o->slot << " id " << id << ( le.o->hook.destroyed ? " (instance destroyed)" : " (instance kept)" );
                    note = nt.str();
                    if( !le.o->hook.destroyed ) {
                        detached.push_back( le.o );
                    }
                    noteEmptied();
                    ok = checkCount( where.c_str() ) && checkNoLiveDestroyed( where.c_str() );
                    break;
                }
                case CHANGE_STATE: {
                    int i = idx( c.a, n );
                    res << "state @" << i << " s" << ( c.b & 3 );
                    mgr->ChangeState( live[i].node, STATES[c.b & 3] );
                    live[i].st = STATES[c.b & 3];
                    std::ostringstream nt;
                    nt << "position " << i;
                    note = nt.str();
                    ok = checkPos( i, where.c_str() );
                    break;
                }
                case CLEAR:
                case DELETE_ALL: {
                    res << KIND_NAME[c.k];
                    if( c.k == CLEAR ) {
                        mgr->ClearInstances();
                    } else {
                        mgr->DeleteInstances();
                    }
                    int kept = 0;
                    for( size_t i = 0; i < live.size(); i++ ) if( !live[i].o->hook.destroyed ) {
                            detached.push_back( live[i].o );
                            kept++;
                        }
                    std::ostringstream nt;
                    nt << n << " instances, " << kept << " kept alive";
                    note = nt.str();
                    live.clear();
                    noteEmptied();
                    ok = checkCount( where.c_str() ) && checkNoLiveDestroyed( where.c_str() );
                    break;
                }
                case FIND_LIVE: {
                    int i = idx( c.a, n );
                    int id = live[i].o->p->StepFileId();
                    res << "find live@" << i;
                    std::ostringstream nt;
                    nt << "id " << id;
                    note = nt.str();
                    ok = checkFind( id, where.c_str() );
                    break;
                }
                case FIND_DEAD: {
                    int id = dead[idx( c.a, ( int )dead.size() )];
                    res << "find dead " << id;
                    std::ostringstream nt;
                    nt << "id " << id;
                    note = nt.str();
                    ok = checkFind( id, where.c_str() );
                    break;
                }
                case FIND_UNUSED: {
                    int top = seenEver.empty() ? 0 : *seenEver.rbegin();
                    int d = c.a < 0 ? -c.a : c.a;
                    int id = ( d % 5 == 4 ) ? -1 - d : top + 1 + d;
                    if( idLive( id ) || seenEver.count( id ) ) {
                        id = top + 1 + d;
                    }
                    res << "find unused " << id;
                    std::ostringstream nt;
                    nt << "id " << id;
                    note = nt.str();
                    ok = checkFind( id, where.c_str() );
                    break;
                }
                case GET_INST:
                case GET_INDEX: {
                    int i = idx( c.a, n );
                    res << ( c.k == GET_INST ? "inst @" : "index @" ) << i;
                    ok = checkPos( i, where.c_str() );
                    break;
                }
                case BY_NAME: {
                    int s = idx( c.b, n + 3 );
                    res << "byname " << idx( c.a, NNAMES ) << " from " << s;
                    std::ostringstream nt;
                    nt << "\"" << NAMES[idx( c.a, NNAMES )].name << "\" from " << s;
                    note = nt.str();
                    ok = checkByName( c.a, s, where.c_str() );
                    break;
                }
                case KW_COUNT: {
                    res << "kw " << idx( c.a, NNAMES );
                    ok = checkKw( c.a, where.c_str() );
                    break;
                }
                case MAX_ID: {
                    res << "max";
                    ok = checkMax( where.c_str() );
                    break;
                }
                case NEXT_ID: {
                    res << "next";
                    int r = mgr->NextFileId();
                    std::ostringstream nt, m;
                    nt << "-> " << r;
                    note = nt.str();
                    if( idLive( r ) ) {
                        m << "NextFileId() handed out " << r << ", which a live instance carries";
                        ok = fail( "auto-id-not-fresh", m.str() );
                    } else if( !seenSinceEmpty.empty() && r <= *seenSinceEmpty.rbegin() ) {
                        m << "NextFileId() handed out " << r << ", not above id " << *seenSinceEmpty.rbegin() << " seen since the manager was last empty";
                        ok = fail( "auto-id-not-above", m.str() );
                    } else {
                        sawId( r );
                    }
                    break;
                }
                default:
                    break;
            }
            st.classes[cls]++;
            lines.push_back( text + ( note.empty() ? "" : "    # " + note ) );
            resolved += res.str();
            resolved += "\n";
            if( ok && ( sweepEvery == 1 || ( sweepEvery > 1 && nsteps % sweepEvery == 0 ) ) ) {
                ok = sweep( ( "after " + text ).c_str() );
            }
            return ok;
        }

        // final sweep + destruction of the manager
        bool finish() {
            if( !failure.empty() ) {
                return false;
            }
            g_curTrace += "# end of sequence: final sweep, destroy manager\n";
            if( !sweep( "at end of sequence" ) ) {
                return false;
            }
            return teardown( true );
        }
        bool teardown( bool check ) {
            finished = true;
            std::vector<Obj *> wasLive;
            for( size_t i = 0; i < live.size(); i++ ) {
                wasLive.push_back( live[i].o );
            }
            delete mgr;
            mgr = 0;
            live.clear();
            bool ok = true;
            if( check ) {
                for( size_t i = 0; i < objs.size(); i++ ) if( objs[i]->hook.destroyed > 1 ) {
                        std::ostringstream m;
                        m << "destroying the manager: obj" << i << " destroyed " << objs[i]->hook.destroyed << " times";
                        ok = fail( "double-destroy", m.str() );
                    }
                // instances that were never in, or no longer in, the manager must not be touched by its destructor
                for( size_t i = 0; ok && i < detached.size(); i++ ) if( detached[i]->hook.destroyed ) {
                        std::ostringstream m;
                        m << "destroying the manager destroyed obj" << detached[i]->slot << ", which is not in the manager";
                        ok = fail( "detached-destroyed", m.str() );
                    }
            }
            if( !ok ) {
                return false;
            }
            for( size_t i = 0; i < objs.size(); i++ ) if( !objs[i]->hook.destroyed && !objs[i]->freedByHarness ) {
                    objs[i]->freedByHarness = true;
                    delete objs[i]->p;
                }
            return true;
        }
};

// ---------------------------------------------------------------------------------------------
// statistics over a whole run

struct RunStats {
    long sequences, nontrivial, commands, skipped, excluded, failingRuns;
    long kinds[NKINDS];
    std::map<std::string, long> classes;
    std::map<std::string, long> lenHist;
    std::set<uint64_t> hashes;
    std::vector<std::string> samples;
    long owningSeqs, sweepEndSeqs, maxLive;
    RunStats(): sequences( 0 ), nontrivial( 0 ), commands( 0 ), skipped( 0 ), excluded( 0 ), failingRuns( 0 ),
        owningSeqs( 0 ), sweepEndSeqs( 0 ), maxLive( 0 ) {
        memset( kinds, 0, sizeof kinds );
    }
    void record( const Runner & r ) {
        sequences++;
        commands += r.st.executed;
        skipped += r.st.skipped;
        excluded += r.st.excluded;
        for( int i = 0; i < NKINDS; i++ ) {
            kinds[i] += r.st.kinds[i];
        }
        for( std::map<std::string, int>::const_iterator it = r.st.classes.begin(); it != r.st.classes.end(); ++it ) {
            classes[it->first] += it->second;
        }
        int L = r.st.executed;
        const char * b = L <= 4 ? "len<=4" : L <= 16 ? "len5-16" : L <= 64 ? "len17-64" : L <= 128 ? "len65-128" : L <= 256 ? "len129-256" : "len>256";
        lenHist[b]++;
        if( r.owning ) {
            owningSeqs++;
        }
        if( r.sweepEvery == 0 ) {
            sweepEndSeqs++;
        }
        if( r.st.nontrivial() ) {
            nontrivial++;
            bool fresh = hashes.insert( fnv( r.resolved ) ).second;
            // samples: a short one, a medium one, a longer one ...
            if( fresh && samples.size() < 5 ) {
                size_t want = samples.size() == 0 ? 6 : samples.size() == 1 ? 12 : samples.size() == 2 ? 25 : 60;
                if( r.lines.size() <= want && r.lines.size() >= want / 3 ) {
                    samples.push_back( r.traceText() );
                }
            }
        }
    }
};
static RunStats g_stats;
static std::string g_lastFailTrace, g_lastFailMsg, g_lastFailSig;

static std::string jesc( const std::string & s ) {
    std::string o = "\"";
    char b[8];
    for( size_t i = 0; i < s.size(); i++ ) {
        unsigned char c = ( unsigned char )s[i];
        if( c == '"' ) {
            o += "\\\"";
        } else if( c == '\\' ) {
            o += "\\\\";
        } else if( c == '\n' ) {
            o += "\\n";
        } else if( c < 0x20 || c >= 0x7f ) {
            snprintf( b, sizeof b, "\\u%04x", c );
            o += b;
        } else {
            o += ( char )c;
        }
    }
    return o + "\"";
}

static void printStats( const char * mode, bool failed, const std::string & extra ) {
    const char * hf = getenv( "C13_HASH_FILE" );
    if( hf ) {
        FILE * f = fopen( hf, "w" );
        if( f ) {
            for( std::set<uint64_t>::const_iterator it = g_stats.hashes.begin(); it != g_stats.hashes.end(); ++it ) {
                fprintf( f, "%016llx\n", ( unsigned long long )*it );
            }
            fclose( f );
        }
    }
    std::ostringstream o;
    o << "{\"mode\":" << jesc( mode ) << ",\"failed\":" << ( failed ? "true" : "false" )
      << ",\"sequences\":" << g_stats.sequences << ",\"nontrivial\":" << g_stats.nontrivial
      << ",\"distinct_nontrivial\":" << g_stats.hashes.size()
      << ",\"commands\":" << g_stats.commands << ",\"skipped\":" << g_stats.skipped << ",\"excluded\":" << g_stats.excluded
      << ",\"owning\":" << g_stats.owningSeqs << ",\"sweep_end_only\":" << g_stats.sweepEndSeqs << ",\"max_live\":" << g_stats.maxLive
      << ",\"failing_runs\":" << g_stats.failingRuns;
    o << ",\"kinds\":{";
    for( int i = 0; i < NKINDS; i++ ) {
        o << ( i ? "," : "" ) << jesc( KIND_NAME[i] ) << ":" << g_stats.kinds[i];
    }
    o << "},\"classes\":{";
    bool first = true;
    for( std::map<std::string, long>::const_iterator it = g_stats.classes.begin(); it != g_stats.classes.end(); ++it ) {
        o << ( first ? "" : "," ) << jesc( it->first ) << ":" << it->second;
        first = false;
    }
    o << "},\"lengths\":{";
    first = true;
    for( std::map<std::string, long>::const_iterator it = g_stats.lenHist.begin(); it != g_stats.lenHist.end(); ++it ) {
        o << ( first ? "" : "," ) << jesc( it->first ) << ":" << it->second;
        first = false;
    }
    o << "},\"samples\":[";
    for( size_t i = 0; i < g_stats.samples.size(); i++ ) {
        o << ( i ? "," : "" ) << jesc( g_stats.samples[i] );
    }
    o << "]";
    if( failed ) {
        o << ",\"fail_msg\":" << jesc( g_lastFailMsg ) << ",\"fail_sig\":" << jesc( g_lastFailSig );
    }
    o << extra << "}";
    printf( "@@JSON %s\n", o.str().c_str() );
    fflush( stdout );
}

static void noteFailure( const Runner & r ) {
    g_stats.failingRuns++;
    g_lastFailTrace = r.traceText() + "# FAILS: " + r.failure + "\n";
    g_lastFailMsg = r.failure;
    g_lastFailSig = r.failSig;
}
static void writeFailFile() {
    const char * ff = getenv( "C13_FAIL_FILE" );
    if( ff && !g_lastFailTrace.empty() ) {
        std::ofstream f( ff );
        f << g_lastFailTrace;
    }
}

// ---------------------------------------------------------------------------------------------
// rapidcheck state machine

struct Model {
    int nlive, ndet;
    Model(): nlive( 0 ), ndet( 0 ) {}
};

struct Op : public rc::state::Command<Model, Runner> {
    Cmd c;
    explicit Op( const Cmd & cc ): c( cc ) {}
    void checkPreconditions( const Model & m ) const override {
        switch( c.k ) {
            case APPEND_DUP:
            case APPEND_SAME:
            case DELETE_NODE:
            case DELETE_INST:
            case CHANGE_STATE:
            case FIND_LIVE:
            case GET_INST:
            case GET_INDEX:
                RC_PRE( m.nlive > 0 );
                break;
            case APPEND_DETACHED:
                RC_PRE( m.ndet > 0 );
                break;
            default:
                break;
        }
    }
    void apply( Model & m ) const override {
        switch( c.k ) {
            case APPEND_NEW:
            case APPEND_ID:
            case APPEND_DUP:
                m.nlive++;
                break;
            case APPEND_DETACHED:
                m.nlive++;
                m.ndet--;
                break;
            case DELETE_NODE:
            case DELETE_INST:
                m.nlive--;      // InstMgr::Delete destroys the instance (steering only)
                break;
            case CLEAR:
                m.ndet += m.nlive;
                m.nlive = 0;
                break;
            case DELETE_ALL:
                m.nlive = 0;
                break;
            default:
                break;
        }
    }
    void run( const Model &, Runner & sut ) const override {
        if( !sut.step( c ) ) {
            noteFailure( sut );
            RC_FAIL( sut.failure );
        }
        if( ( long )sut.live.size() > g_stats.maxLive ) {
            g_stats.maxLive = ( long )sut.live.size();
        }
    }
    void show( std::ostream & os ) const override {
        os << cmdText( c );
    }
};

typedef std::shared_ptr<const rc::state::Command<Model, Runner> > OpSP;

static rc::Gen<OpSP> genOp( const Model & m ) {
    bool haveLive = m.nlive > 0, haveDet = m.ndet > 0;
    return rc::gen::resize( 200, rc::gen::exec( [haveLive, haveDet]() -> OpSP {
        std::vector<std::pair<std::size_t, Kind> > w;
        w.push_back( std::make_pair( 14, APPEND_NEW ) );
        w.push_back( std::make_pair( 10, APPEND_ID ) );
        w.push_back( std::make_pair( 2, NEXT_ID ) );
        w.push_back( std::make_pair( 2, MAX_ID ) );
        w.push_back( std::make_pair( 6, BY_NAME ) );
        w.push_back( std::make_pair( 3, KW_COUNT ) );
        w.push_back( std::make_pair( 4, FIND_DEAD ) );
        w.push_back( std::make_pair( 2, FIND_UNUSED ) );
        w.push_back( std::make_pair( 1, CLEAR ) );
        w.push_back( std::make_pair( 1, DELETE_ALL ) );
        if( haveLive ) {
            w.push_back( std::make_pair( 6, APPEND_DUP ) );
            w.push_back( std::make_pair( 5, APPEND_SAME ) );
            w.push_back( std::make_pair( 8, DELETE_NODE ) );
            w.push_back( std::make_pair( 8, DELETE_INST ) );
            w.push_back( std::make_pair( 5, CHANGE_STATE ) );
            w.push_back( std::make_pair( 4, FIND_LIVE ) );
            w.push_back( std::make_pair( 3, GET_INST ) );
            w.push_back( std::make_pair( 3, GET_INDEX ) );
        }
        if( haveDet ) {
            w.push_back( std::make_pair( 4, APPEND_DETACHED ) );
        }
        std::size_t total = 0;
        for( size_t i = 0; i < w.size(); i++ ) {
            total += w[i].first;
        }
        std::size_t pick = *rc::gen::inRange<std::size_t>( 0, total );
        Kind k = w[0].second;
        for( size_t i = 0; i < w.size(); i++ ) {
            if( pick < w[i].first ) {
                k = w[i].second;
                break;
            }
            pick -= w[i].first;
        }
        Cmd c( k );
        switch( k ) {
            case APPEND_NEW:
                c.a = *rc::gen::inRange( 0, NTYPES );
                c.b = *rc::gen::inRange( 0, 4 );
                break;
            case APPEND_ID: {
                c.a = *rc::gen::inRange( 0, NTYPES );
                c.b = *rc::gen::inRange( 0, 4 );
                int r = *rc::gen::inRange( 0, 10 );
                c.c = r < 6 ? *rc::gen::inRange( 1, 13 ) : r < 9 ? *rc::gen::inRange( 1, 61 ) : *rc::gen::inRange( 1, 100001 );
                break;
            }
            case APPEND_DUP:
                c.a = *rc::gen::inRange( 0, NTYPES );
                c.b = *rc::gen::inRange( 0, 4 );
                c.c = *rc::gen::inRange( -3, 40 );
                break;
            case APPEND_SAME:
            case APPEND_DETACHED:
            case CHANGE_STATE:
                c.a = *rc::gen::inRange( -3, 40 );
                c.b = *rc::gen::inRange( 0, 4 );
                break;
            case BY_NAME:
                c.a = *rc::gen::inRange( 0, NNAMES );
                c.b = *rc::gen::inRange( 0, 60 );
                break;
            case KW_COUNT:
                c.a = *rc::gen::inRange( 0, NNAMES );
                break;
            case CLEAR:
            case DELETE_ALL:
            case MAX_ID:
            case NEXT_ID:
                break;
            default:
                c.a = *rc::gen::inRange( -3, 40 );
        }
        return std::make_shared<const Op>( c );
    } ) );
}

static int runRandom() {
    bool ok = rc::check( "C13: InstMgr stays consistent under any legal operation sequence", [] {
        bool owning = *rc::gen::arbitrary<bool>();
        int sweepMode = *rc::gen::resize( 200, rc::gen::inRange( 0, 4 ) ) == 3 ? 0 : 1;
        Runner sut( owning, sweepMode );
        Model m0;
        rc::state::check( m0, sut, &genOp );
        if( !sut.finish() ) {
            noteFailure( sut );
            RC_FAIL( sut.failure );
        }
        g_stats.record( sut );
    } );
    if( !ok ) {
        writeFailFile();
    }
    printStats( "random", !ok, "" );
    return ok ? 0 : 1;
}

// ---------------------------------------------------------------------------------------------
// exhaustive enumeration over a reduced alphabet

static const Cmd ALPHABET[] = {
    Cmd( APPEND_NEW, 0, 0 ),            // File_name, complete, automatic id
    Cmd( APPEND_NEW, 1, 3 ),            // File_description, new, automatic id
    Cmd( APPEND_ID, 2, 1, 1 ),          // File_schema, explicit id 1 (collides with automatic ids)
    Cmd( APPEND_ID, 0, 0, 5 ),          // File_name, explicit id 5
    Cmd( APPEND_DUP, 1, 0, 0 ),         // new instance carrying the id of the first live instance
    Cmd( APPEND_SAME, 0, 0 ),           // first live instance again
    Cmd( APPEND_SAME, -1, 3 ),          // last live instance again
    Cmd( APPEND_DETACHED, 0, 0 ),       // oldest instance released by ClearInstances, with the id it carries
    Cmd( DELETE_NODE, 0 ),
    Cmd( DELETE_NODE, -1 ),
    Cmd( DELETE_INST, 0 ),
    Cmd( DELETE_INST, 1 ),
    Cmd( CHANGE_STATE, 0, 2 ),
    Cmd( CLEAR ),
    Cmd( DELETE_ALL ),
    Cmd( NEXT_ID )
};
static const int NALPHA = sizeof( ALPHABET ) / sizeof( ALPHABET[0] );

static int runExhaustive( int maxLen, int shard, int nshards ) {
    long pruned = 0, prunedExcluded = 0, total = 0;
    bool failed = false;
    for( int L = 1; L <= maxLen && !failed; L++ ) {
        std::vector<int> seq( L, 0 );
        while( !failed ) {
            int prefix = seq[0] * NALPHA + ( L > 1 ? seq[1] : 0 );
            int skipFrom = -1;      // position after which every extension is illegal too (for both owners)
            for( int own = 0; own < 2 && !failed; own++ ) {
                if( ( prefix % nshards ) != shard ) {
                    continue;
                }
                total++;
                Runner r( own != 0, 1 );
                int prunedAt = -1;
                for( int i = 0; i < L; i++ ) {
                    bool executed = true;
                    if( !r.step( ALPHABET[seq[i]], &executed ) ) {
                        break;
                    }
                    if( !executed ) {
                        prunedAt = i;   // precondition not met: this word is not a legal sequence
                        break;
                    }
                }
                if( r.failure.empty() && prunedAt < 0 ) {
                    r.finish();
                }
                if( !r.failure.empty() ) {
                    noteFailure( r );
                    failed = true;
                    break;
                }
                if( prunedAt >= 0 ) {
                    pruned++;
                    if( r.lastSkipExcluded ) {
                        prunedExcluded++;
                    }
                    // applicability of a command does not depend on the ownership flag
                    skipFrom = prunedAt;
                    continue;       // Runner destructor tears down
                }
                g_stats.record( r );
            }
            if( skipFrom >= 0 ) {
                for( int q = skipFrom + 1; q < L; q++ ) {
                    seq[q] = NALPHA - 1;
                }
            }
            int p = L - 1;
            while( p >= 0 && ++seq[p] == NALPHA ) {
                seq[p--] = 0;
            }
            if( p < 0 ) {
                break;
            }
        }
    }
    if( failed ) {
        writeFailFile();
    }
    std::ostringstream x;
    x << ",\"max_len\":" << maxLen << ",\"alphabet\":" << NALPHA << ",\"words_tried\":" << total << ",\"pruned_prefixes\":" << pruned
      << ",\"pruned_by_exclusion\":" << prunedExcluded << ",\"shard\":" << shard << ",\"nshards\":" << nshards;
    printStats( "exhaustive", failed, x.str() );
    return failed ? 1 : 0;
}

// ---------------------------------------------------------------------------------------------
// long sequences (own PRNG): grow the manager beyond the initial array capacity

static uint64_t g_rng;
static uint32_t rnd() {
    g_rng ^= g_rng << 13;
    g_rng ^= g_rng >> 7;
    g_rng ^= g_rng << 17;
    return ( uint32_t )( g_rng >> 11 );
}
static int runLong( int nseq, int len, uint64_t seed ) {
    g_rng = seed * 0x9E3779B97F4A7C15ULL + 0x1234567ULL;
    if( !g_rng ) {
        g_rng = 1;
    }
    bool failed = false;
    for( int s = 0; s < nseq && !failed; s++ ) {
        Runner r( ( rnd() & 1 ) != 0, 97 );
        int clearAt = ( rnd() % 4 == 0 ) ? ( int )( rnd() % len ) : -1;
        for( int i = 0; i < len; i++ ) {
            uint32_t p = rnd() % 100;
            Cmd c;
            if( i == clearAt ) {
                c = Cmd( ( rnd() & 1 ) ? CLEAR : DELETE_ALL );
            } else if( p < 45 ) {
                c = Cmd( APPEND_NEW, rnd() % 4, rnd() % 4 );
            } else if( p < 58 ) {
                c = Cmd( APPEND_ID, rnd() % 4, rnd() % 4, 1 + ( int )( rnd() % 6000 ) );
            } else if( p < 62 ) {
                c = Cmd( APPEND_DUP, rnd() % 4, rnd() % 4, ( int )( rnd() % 5000 ) );
            } else if( p < 64 ) {
                c = Cmd( APPEND_SAME, ( int )( rnd() % 5000 ), rnd() % 4 );
            } else if( p < 66 ) {
                c = Cmd( APPEND_DETACHED, ( int )( rnd() % 5000 ), rnd() % 4 );
            } else if( p < 76 ) {
                c = Cmd( DELETE_NODE, ( int )( rnd() % 5000 ) );
            } else if( p < 84 ) {
                c = Cmd( DELETE_INST, ( int )( rnd() % 5000 ) );
            } else if( p < 87 ) {
                c = Cmd( CHANGE_STATE, ( int )( rnd() % 5000 ), rnd() % 4 );
            } else if( p < 90 ) {
                c = Cmd( FIND_LIVE, ( int )( rnd() % 5000 ) );
            } else if( p < 92 ) {
                c = Cmd( FIND_DEAD, ( int )( rnd() % 5000 ) );
            } else if( p < 94 ) {
                c = Cmd( GET_INST, ( int )( rnd() % 5000 ) );
            } else if( p < 96 ) {
                c = Cmd( GET_INDEX, ( int )( rnd() % 5000 ) );
            } else if( p < 98 ) {
                c = Cmd( BY_NAME, rnd() % NNAMES, ( int )( rnd() % 5000 ) );
            } else if( p < 99 ) {
                c = Cmd( KW_COUNT, rnd() % NNAMES );
            } else {
                c = Cmd( NEXT_ID );
            }
            if( !r.step( c ) ) {
                break;
            }
            if( ( long )r.live.size() > g_stats.maxLive ) {
                g_stats.maxLive = ( long )r.live.size();
            }
        }
        if( r.failure.empty() ) {
            r.finish();
        }
        if( !r.failure.empty() ) {
            noteFailure( r );
            failed = true;
            break;
        }
        g_stats.record( r );
    }
    if( failed ) {
        writeFailFile();
    }
    printStats( "long", failed, "" );
    return failed ? 1 : 0;
}

// ---------------------------------------------------------------------------------------------
// replay

static int runReplay( const char * path ) {
    std::ifstream f( path );
    if( !f ) {
        fprintf( stderr, "cannot read %s\n", path );
        return 2;
    }
    std::string line;
    int own = 0, sweep = 1;
    std::vector<Cmd> cmds;
    int lineno = 0;
    while( std::getline( f, line ) ) {
        lineno++;
        size_t h = line.find( '#' );
        if( h != std::string::npos ) {
            line = line.substr( 0, h );
        }
        std::istringstream is( line );
        std::string w;
        if( !( is >> w ) ) {
            continue;
        }
        if( w == "owner" ) {
            is >> own;
            continue;
        }
        if( w == "sweep" ) {
            is >> sweep;
            continue;
        }
        if( w == "exclude" ) {
            std::string what;
            is >> what;
            if( what == "reappend_id0" ) {
                g_opt.exclReappendId0 = true;
            }
            continue;
        }
        int k = -1;
        for( int i = 0; i < NKINDS; i++ ) if( w == KIND_NAME[i] ) {
                k = i;
            }
        if( k < 0 ) {
            fprintf( stderr, "%s:%d: unknown command '%s'\n", path, lineno, w.c_str() );
            return 2;
        }
        Cmd c( ( Kind )k );
        bool bad = false;
        std::string s;
        switch( k ) {
            case APPEND_NEW:
                bad = !( is >> c.a >> s ) || !parseState( s, c.b );
                break;
            case APPEND_ID:
            case APPEND_DUP:
                bad = !( is >> c.a >> s >> c.c ) || !parseState( s, c.b );
                break;
            case APPEND_SAME:
            case APPEND_DETACHED:
            case CHANGE_STATE:
                bad = !( is >> c.a >> s ) || !parseState( s, c.b );
                break;
            case BY_NAME:
                bad = !( is >> c.a >> c.b );
                break;
            default:
                if( KIND_NARGS[k] == 1 ) {
                    bad = !( is >> c.a );
                }
        }
        if( bad ) {
            fprintf( stderr, "%s:%d: bad arguments\n", path, lineno );
            return 2;
        }
        cmds.push_back( c );
    }
    Runner r( own != 0, sweep );
    for( size_t i = 0; i < cmds.size(); i++ ) if( !r.step( cmds[i] ) ) {
            break;
        }
    if( r.failure.empty() ) {
        r.finish();
    }
    bool failed = !r.failure.empty();
    const char * emit = getenv( "C13_EMIT_FILE" );     // annotated canonical form of the trace
    if( emit ) {
        std::ofstream e( emit );
        e << r.traceText();
        if( failed ) {
            e << "# FAILS: " << r.failure << "\n";
        }
    }
    if( failed ) {
        noteFailure( r );
        printf( "%s", g_lastFailTrace.c_str() );
        printf( "REPLAY-FAIL sig=%s: %s\n", r.failSig.c_str(), r.failure.c_str() );
    } else {
        g_stats.record( r );
        printf( "%s", r.traceText().c_str() );
        printf( "REPLAY-OK executed=%d skipped=%d\n", r.st.executed, r.st.skipped );
    }
    printStats( "replay", failed, "" );
    return failed ? 1 : 0;
}

// ---------------------------------------------------------------------------------------------

int main( int argc, char ** argv ) {
    if( argc < 2 ) {
        fprintf( stderr, "usage: instmgr_sm random | exhaustive <len> [k n] | long <nseq> <len> <seed> | replay <file>\n" );
        return 2;
    }
    const char * ex = getenv( "C13_EXCLUDE" );
    if( ex && strstr( ex, "reappend_id0" ) ) {
        g_opt.exclReappendId0 = true;
    }
    g_crashFile = getenv( "C13_CRASH_FILE" );
    g_curTrace.reserve( 1 << 16 );
    signal( SIGSEGV, onSignal );
    signal( SIGBUS, onSignal );
    signal( SIGABRT, onSignal );
    signal( SIGFPE, onSignal );
#ifdef C13_ASAN
    __sanitizer_set_death_callback( dumpCrash );
#endif
    Registry reg( HeaderSchemaInit );
    std::string mode = argv[1];
    int rc = 2;
    if( mode == "random" ) {
        rc = runRandom();
    } else if( mode == "exhaustive" && argc >= 3 ) {
        int shard = argc >= 5 ? atoi( argv[3] ) : 0, n = argc >= 5 ? atoi( argv[4] ) : 1;
        rc = runExhaustive( atoi( argv[2] ), shard, n < 1 ? 1 : n );
    } else if( mode == "long" && argc >= 5 ) {
        rc = runLong( atoi( argv[2] ), atoi( argv[3] ), strtoull( argv[4], 0, 10 ) );
    } else if( mode == "replay" && argc >= 3 ) {
        rc = runReplay( argv[2] );
    } else {
        fprintf( stderr, "bad arguments\n" );
    }
    fflush( stdout );
    // the Registry destructor and the library's static destructors are of no interest here
    _exit( rc );
}
