// Library side of check C09: fixtures, one-case execution at attribute level (A) and instance level (B),
// verdict.  Included only by literals.cc.
#ifndef LITERALS_CORE_H
#define LITERALS_CORE_H
extern void SchemaInit( class Registry & );
#include "clstepcore/sdai.h"
#include "clstepcore/STEPattribute.h"
#include "clstepcore/ExpDict.h"
#include "clstepcore/Registry.h"
#include "clstepcore/instmgr.h"
#include "clstepcore/read_func.h"
#include "clutils/errordesc.h"
#include "literals_ref.h"
#include <string>
#include <sstream>
#include <vector>
#include <map>
#include <set>
#include <iostream>
#include <unistd.h>

static const char * const GOODTOK[NKIND] = { "7", "2.5", "2.5", "'x'", "\"1F\"", ".T.", ".U.", ".GREEN.", "#10" };
static std::string GOODVAL[NKIND];

struct Fix {
    Registry * reg;
    InstMgr * im;
    SDAI_Application_instance * holder[NKIND][2];
    STEPattribute * attr[NKIND][2][2];
};
static Fix FX;

static void die( const std::string & m ) {
    fprintf( stderr, "literals harness: %s\n", m.c_str() );
    fflush( stderr );
    _exit( 3 );
}

static void setupFixtures() {
    FX.reg = new Registry( SchemaInit );
    FX.im = new InstMgr( 0 );
    for( const int * p = TARGET_IDS; *p; p++ ) {
        SDAI_Application_instance * t = FX.reg->ObjCreate( "TARGET" );
        if( !t || t == ENTITY_NULL ) {
            die( "cannot create TARGET" );
        }
        t->StepFileId( *p );
        FX.im->Append( t, completeSE );
    }
    for( const int * p = STRANGER_IDS; *p; p++ ) {
        SDAI_Application_instance * t = FX.reg->ObjCreate( "STRANGER" );
        if( !t || t == ENTITY_NULL ) {
            die( "cannot create STRANGER" );
        }
        t->StepFileId( *p );
        FX.im->Append( t, completeSE );
    }
    for( int k = 0; k < NKIND; k++ ) {
        for( int o = 0; o < 2; o++ ) {
            std::string nm = std::string( o ? "O_" : "X_" ) + KENT[k];
            SDAI_Application_instance * h = FX.reg->ObjCreate( nm.c_str() );
            if( !h || h == ENTITY_NULL ) {
                die( "cannot create " + nm );
            }
            if( h->attributes.list_length() != 2 ) {
                die( "fixture entity " + nm + " does not have 2 attributes" );
            }
            FX.holder[k][o] = h;
            FX.attr[k][o][0] = &h->attributes[0];
            FX.attr[k][o][1] = &h->attributes[1];
            if( ( FX.attr[k][o][0]->Nullable() ? 1 : 0 ) != o ) {
                die( "fixture entity " + nm + ": optionality mismatch" );
            }
        }
    }
    GOODVAL[K_INT] = "7";
    GOODVAL[K_REAL] = bitsOf( 2.5 );
    GOODVAL[K_NUM] = bitsOf( 2.5 );
    GOODVAL[K_STR] = "'x'";
    GOODVAL[K_BIN] = "1F";
    GOODVAL[K_BOOL] = "T";
    GOODVAL[K_LOG] = "U";
    GOODVAL[K_ENUM] = "GREEN";
    GOODVAL[K_REF] = "10";
}

struct Obs {
    int sev;
    bool isnull;
    std::string val;
};

static void observe( Kind k, STEPattribute * a, Obs & o ) {
    o.sev = ( int ) a->Error().severity();
    o.isnull = a->is_null();
    o.val.clear();
    char b[48];
    switch( k ) {
        case K_INT:
            snprintf( b, sizeof b, "%ld", ( long ) * a->Integer() );
            o.val = b;
            break;
        case K_REAL:
            o.val = bitsOf( * a->Real() );
            break;
        case K_NUM:
            o.val = bitsOf( * a->Number() );
            break;
        case K_STR:
            o.val = a->String()->c_str();
            break;
        case K_BIN:
            o.val = a->Binary()->c_str();
            break;
        case K_BOOL:
        case K_LOG:
        case K_ENUM: {
            SDAI_Enum * e = a->ptr.e;
            if( e->is_null() ) {
                o.val = "";
            } else {
                std::string tmp;
                e->asStr( tmp );
                o.val = tmp;
            }
            break;
        }
        case K_REF: {
            SDAI_Application_instance * e = a->Entity();
            if( !e || e == S_ENTITY_NULL ) {
                o.val = "";
                o.isnull = true;
            } else {
                snprintf( b, sizeof b, "%d", e->StepFileId() );
                o.val = b;
            }
            break;
        }
        default:
            break;
    }
}

static inline bool okSev( int s ) {
    return s >= ( int ) SEVERITY_USERMSG;
}

// everything about a token that does not depend on the context
struct TokInfo {
    std::string t;          // token with surrounding white space removed
    bool empty, topDelim, oddQuote, dollar, sepInside, diedInside;
    Scan sc;
    bool ingr;
    RefStatus st;           // for grammatical tokens (and lenient ones)
    std::string expect;     // denoted value
    int lenRule;            // 0: none
    std::string cause;
    bool near;
};

static void analyse( Kind k, const std::string & tok, TokInfo & ti ) {
    size_t a = 0, b = tok.size();
    while( a < b && rSpace( tok[a] ) ) {
        a++;
    }
    while( b > a && rSpace( tok[b - 1] ) ) {
        b--;
    }
    ti.t = tok.substr( a, b - a );
    const std::string & t = ti.t;
    ti.empty = t.empty();
    ti.dollar = ( t == "$" );
    ti.topDelim = false;
    ti.sepInside = false;
    ti.diedInside = false;
    // A ',' or ')' belongs to the token only while a STRING body is open (DFA states 1 and 5 take it as a character);
    // anywhere else it would be the delimiter itself, i.e. the "token" is really two tokens: such inputs are excluded.
    // Likewise a comment opener or a print control directive outside a string body is a token separator, not part of a
    // token.  Once the STRING DFA has died inside a string, where the string ends is a matter of error recovery: any
    // of these characters after that point makes the input ambiguous and it is excluded as well.
    // oddQuote: the string is still open at the end of the token (so it legitimately swallows what follows).
    {
        int st = 0;
        bool dead = false, inside = false;
        for( size_t i = 0; i < t.size(); i++ ) {
            unsigned char c = t[i];
            bool body = ( k == K_STR ) && !dead && ( st == 1 || st == 5 );
            if( ( c == ',' || c == ')' ) && !body ) {
                ti.topDelim = true;
            }
            if( !body && ( t.compare( i, 2, "/*" ) == 0 || t.compare( i, 3, "\\N\\" ) == 0 || t.compare( i, 3, "\\F\\" ) == 0 ) ) {
                ti.sepInside = true;
            }
            if( k != K_STR ) {
                continue;
            }
            if( !dead ) {
                int n = rStep( K_STR, st, c );
                if( n < 0 ) {
                    dead = true;
                    inside = ( st != 0 && st != 2 );
                    ti.diedInside = inside;
                    if( inside && c == '\'' ) {
                        inside = false;
                    }
                } else {
                    st = n;
                }
            } else if( c == '\'' ) {
                inside = !inside;
            }
        }
        ti.oddQuote = ( k == K_STR ) && ( dead ? inside : ( st != 0 && st != 2 ) );
    }
    ti.sc = rScan( k, t );
    ti.ingr = ti.sc.ingr;
    ti.st = RS_OK;
    ti.expect.clear();
    ti.lenRule = 0;
    if( ti.ingr ) {
        ti.st = rDenote( k, t, ti.expect );
    } else if( !ti.empty && !ti.dollar ) {
        ti.lenRule = rLenient( k, t, ti.expect, ti.st );
    }
    ti.cause = ( ti.empty || ti.dollar ) ? "" : rCause( k, t, ti.sc, ti.ingr, ti.st );
    if( ti.lenRule && ti.st == RS_OVERFLOW ) {
        ti.cause = "overflow";
    }
    ti.near = rNear( ti.sc, t );
}

enum Cls { C_ACCEPTED, C_REJECTED, C_LENIENT_NUM, C_LENIENT_CASE, C_VERBATIM, C_PREFIX_STOPPED, C_UNDERFLOW,
           C_DOLLAR_OPT, C_DOLLAR_REQ, C_EXCL_EMPTY, C_EXCL_DELIM, C_EXCL_SEP, C_EXCL_SENTINEL, C_FAIL, NCLS
         };
static const char * const CLSNAME[NCLS] = { "accepted-exact-value", "rejected-with-error", "lenient-number-syntax",
                                            "lenient-letter-case", "accepted-verbatim-unvalidated(unasserted)",
                                            "prefix-stopped-enclosing-reader-flags", "underflow(unasserted)",
                                            "dollar-on-optional-unset", "dollar-on-required(unasserted,C15)",
                                            "excluded:empty-token(C15)", "excluded:delimiter-inside-token",
                                            "excluded:comment-or-print-directive-inside-token",
                                            "excluded:in-band-null-sentinel", "FAILURE"
                                          };

enum Pos { P_AT_DELIM, P_AT_FILLER, P_EARLY, P_CONSUMED };

struct RunA {
    Obs o;
    Pos pos;
    std::string rest;
};
struct RunB {
    int instSev;
    Obs o, sib;
    std::string rest;
};

static std::string restOf( std::istream & in ) {
    in.clear();
    std::string r;
    std::streambuf * sb = in.rdbuf();
    for( int c = sb->sgetc(); c != EOF; c = sb->snextc() ) {
        r += ( char ) c;
    }
    return r;
}

static Pos classifyPos( const std::string & rest, const std::string & need, const std::string & filler ) {
    if( rest.size() < need.size() ) {
        return P_CONSUMED;
    }
    size_t extra = rest.size() - need.size();
    if( rest.compare( extra, need.size(), need ) != 0 ) {
        return P_CONSUMED;    // cannot happen for a suffix; be safe
    }
    size_t i = 0;
    while( i < extra && rSpace( rest[i] ) ) {
        i++;
    }
    if( i == extra ) {
        return P_AT_DELIM;
    }
    // positioned inside the filler (white space / comment in front of the delimiter)?
    if( extra <= filler.size() && filler.compare( filler.size() - extra, extra, rest, 0, extra ) == 0 ) {
        return P_AT_FILLER;
    }
    return P_EARLY;
}

static void textsFor( Kind k, int slot, const std::string & filler, const std::string & tok,
                      std::string & textA, std::string & need, std::string & textB ) {
    if( slot == 0 ) {
        need = std::string( "," ) + GOODTOK[k] + ");";
        textA = tok + filler + need;
        textB = "(" + textA;
    } else {
        need = ");";
        textA = tok + filler + need;
        textB = std::string( "(" ) + GOODTOK[k] + "," + textA;
    }
}

static void doRunA( Kind k, int opt, int slot, const std::string & filler, const std::string & textA,
                    const std::string & need, RunA & r ) {
    STEPattribute * a = FX.attr[k][opt][slot];
    std::istringstream in( textA );
    a->STEPread( in, FX.im, 0, 0, true );
    observe( k, a, r.o );
    r.rest = restOf( in );
    r.pos = classifyPos( r.rest, need, filler );
}

static void doRunB( Kind k, int opt, int slot, const std::string & textB, RunB & r ) {
    SDAI_Application_instance * h = FX.holder[k][opt];
    std::istringstream in( textB );
    r.instSev = ( int ) h->STEPread( 500, 0, FX.im, in, 0, true, true );
    observe( k, FX.attr[k][opt][slot], r.o );
    observe( k, FX.attr[k][opt][1 - slot], r.sib );
    r.rest = restOf( in );
}

static std::string showVal( Kind k, const Obs & o ) {
    std::string s = o.isnull ? "<unset>" : "";
    if( k == K_REAL || k == K_NUM ) {
        s += showReal( o.val ) + " [" + o.val + "]";
    } else {
        s += "`" + o.val + "`";
    }
    return s;
}

static const char * sevName( int s ) {
    switch( s ) {
        case 3: return "NULL";
        case 2: return "USERMSG";
        case 1: return "INCOMPLETE";
        case 0: return "WARNING";
        case -1: return "INPUT_ERROR";
        case -2: return "BUG";
        default: return "OTHER";
    }
}

struct CaseResult {
    Cls cls;
    std::vector<std::string> sigs;   // failure signatures (empty: no failure)
    std::string detail;
};

static const char * fillerName( const std::string & f ) {
    return f.find( "/*" ) != std::string::npos ? "comment" : "whitespace";
}

// One case: token `tok` of kind k (required/optional), in slot 0 (before ',') or 1 (before ')'), with `filler`
// between the token and the delimiter.
static void runCase( Kind k, int opt, int slot, const std::string & filler, const std::string & tok,
                     const TokInfo & ti, CaseResult & res ) {
    res.sigs.clear();
    res.detail.clear();
    if( ti.empty ) {
        res.cls = C_EXCL_EMPTY;
        return;
    }
    if( ti.topDelim ) {
        res.cls = C_EXCL_DELIM;
        return;
    }
    if( ti.sepInside ) {
        res.cls = C_EXCL_SEP;
        return;
    }
    if( ti.ingr && ti.st == RS_SENTINEL ) {
        res.cls = C_EXCL_SENTINEL;
        return;
    }
    std::string textA, need, textB;
    textsFor( k, slot, filler, tok, textA, need, textB );
    RunA A;
    doRunA( k, opt, slot, filler, textA, need, A );
    RunB B;
    doRunB( k, opt, slot, textB, B );

    const std::string K = KNAME[k];
    bool acc = okSev( A.o.sev );
    bool wantInstOk = false, wantInstErr = false;
    Cls cls = C_FAIL;

    if( ti.dollar ) {
        if( opt ) {
            if( acc && A.o.isnull ) {
                cls = C_DOLLAR_OPT;
                wantInstOk = true;
            } else {
                res.sigs.push_back( K + "-dollar-on-optional-" + ( acc ? "not-unset" : "rejected" ) );
            }
        } else {
            cls = C_DOLLAR_REQ;
        }
    } else if( ti.ingr && ti.st == RS_OK ) {
        if( acc && !A.o.isnull && A.o.val == ti.expect ) {
            cls = C_ACCEPTED;
            wantInstOk = true;
        } else {
            std::string what = !acc ? "rejected" : A.o.isnull ? "silently-unset" : "wrong-value";
            std::string sig = K + "-valid-token-" + what;
            if( !filler.empty() ) {
                // is the context to blame?  run the same token without filler
                std::string tA, nd, tB;
                textsFor( k, slot, "", tok, tA, nd, tB );
                RunA A0;
                doRunA( k, opt, slot, "", tA, nd, A0 );
                if( okSev( A0.o.sev ) && !A0.o.isnull && A0.o.val == ti.expect ) {
                    sig = std::string( fillerName( filler ) ) + "-before-delimiter-valid-token-" + what;
                }
            }
            res.sigs.push_back( sig );
        }
    } else if( ti.ingr && ti.st == RS_UNDERFLOW ) {
        cls = C_UNDERFLOW;
    } else {
        // out of grammar, or grammatical but without a representable / existing value
        if( !acc ) {
            cls = C_REJECTED;
            wantInstErr = true;
        } else if( ti.lenRule && ti.st == RS_UNDERFLOW ) {
            cls = C_UNDERFLOW;
        } else if( ti.lenRule && ti.st == RS_OK && !A.o.isnull && A.o.val == ti.expect ) {
            cls = ti.lenRule == 1 ? C_LENIENT_NUM : C_LENIENT_CASE;
            wantInstOk = true;
        } else if( A.pos == P_EARLY ) {
            cls = C_PREFIX_STOPPED;
            wantInstErr = true;
        } else if( ( k == K_STR && !A.o.isnull && A.o.val == ti.t ) ||
                   ( k == K_BIN && !A.o.isnull && ti.t.size() >= 2 && ti.t[0] == '"' && ti.t[ti.t.size() - 1] == '"'
                     && A.o.val == ti.t.substr( 1, ti.t.size() - 2 ) ) ) {
            cls = C_VERBATIM;
        } else {
            // `$` followed by text is handled before the kind's own reader is reached: one root cause for all kinds
            res.sigs.push_back( ( ti.cause == "dollar-followed-by-text" ? std::string() : K + "-" ) + ti.cause
                                + ( A.o.isnull ? "-silently-unset" : "-silently-accepted" ) );
        }
    }
    // the delimiter that follows is never consumed (an unterminated string legitimately swallows it)
    // (nor is it defined where a string ends whose body is broken by an invalid escape)
    if( A.pos == P_CONSUMED && !( k == K_STR && ( ti.oddQuote || ti.diedInside ) ) ) {
        res.sigs.push_back( K + "-delimiter-consumed" );
        cls = C_FAIL;
    }
    // the enclosing (instance) reader
    if( res.sigs.empty() ) {
        if( wantInstOk ) {
            bool same = B.o.sev == A.o.sev && B.o.isnull == A.o.isnull && B.o.val == A.o.val;
            bool sibOk = okSev( B.sib.sev ) && !B.sib.isnull && B.sib.val == GOODVAL[k];
            if( !okSev( B.instSev ) || !same || !sibOk || B.rest != ";" ) {
                std::string what = !okSev( B.instSev ) ? "rejected" : !same ? "differs-from-attribute-reader" : !sibOk ? "sibling-attribute-corrupted" : "stream-not-at-end-of-record";
                std::string sig = K + "-instance-reader-" + what;
                if( !filler.empty() ) {
                    std::string tA, nd, tB;
                    textsFor( k, slot, "", tok, tA, nd, tB );
                    RunB B0;
                    doRunB( k, opt, slot, tB, B0 );
                    if( okSev( B0.instSev ) && okSev( B0.sib.sev ) && B0.sib.val == GOODVAL[k] && B0.rest == ";" ) {
                        sig = std::string( fillerName( filler ) ) + "-before-delimiter-instance-reader-" + what;
                    }
                }
                res.sigs.push_back( sig );
            }
        } else if( wantInstErr ) {
            if( okSev( B.instSev ) && ( ti.t[0] == '/' || ti.t[0] == '\\' ) ) {
                // ReadTokenSeparator in front of the value ate the character(s) without a word
                res.sigs.push_back( std::string( "instance-reader-token-separator-swallows-stray-" ) + ( ti.t[0] == '/' ? "slash" : "backslash" ) );
            } else if( okSev( B.instSev ) ) {
                res.sigs.push_back( K + "-" + ti.cause + ( cls == C_PREFIX_STOPPED ? "-prefix-silently-accepted-by-instance-reader" : "-error-lost-by-instance-reader" ) );
            }
        }
    }
    if( !res.sigs.empty() ) {
        cls = C_FAIL;
    }
    res.cls = cls;
    if( cls == C_FAIL || cls == C_VERBATIM ) {
        std::string d;
        d += "attribute reader on `" + textA + "`: severity " + sevName( A.o.sev ) + ", value " + showVal( k, A.o )
             + ", unread `" + A.rest + "`";
        d += "; instance reader on `" + textB + "`: severity " + sevName( B.instSev ) + ", attribute severity "
             + sevName( B.o.sev ) + ", value " + showVal( k, B.o ) + ", sibling " + showVal( k, B.sib ) + ", unread `" + B.rest + "`";
        d += "; reference: token `" + ti.t + "` " + ( ti.ingr ? "is in" : "is NOT in" ) + " the " + K + " grammar";
        if( ti.ingr || ti.lenRule ) {
            Obs e;
            e.isnull = false;
            e.val = ti.expect;
            d += std::string( ", denotes " ) + showVal( k, e ) + " (" + RSTATUS[ti.st] + ")";
        }
        res.detail = d;
    }
}

#endif
