// libFuzzer target of check C05: bytes -> Part 21 file -> ReadExchangeFile / ReadWorkingFile -> Write*File.
// Linked with ONE generated schema library (schemas/probe.exp) built with the "fuzz" variant.
//
//  * the reader is two-pass and wants a file name: the input is written to a per-process file $C05_TMPDIR/c05-fuzz-in-<pid>
//  * a fresh Registry / InstMgr / STEPfile per input (the library's only other mutable global on this path is the static
//    string of GetKeyword(), which is assigned before each use)
//  * cout / cerr / clog of the library go to a null streambuf (throughput); sanitizer reports use fd 2 directly
//  * oracle inside the target: a C++ exception leaving the library, or a severity outside the Severity enumeration,
//    is turned into a trap (libFuzzer then writes the crash-* artifact); everything else is the sanitizers' business
//  * LLVMFuzzerCustomMutator: token-level mutations (the same families as lib/mutate_p21.py) with a fall-back to the
//    byte-level LLVMFuzzerMutate; LLVMFuzzerCustomCrossOver splices an instance of the other input.
//
// Stand-alone use (reproduce one artifact):   fuzz_p21 FILE...      (libFuzzer runs the files once each)
//   environment C05_STATS=path : file path.<pid> holds one JSON line {execs, with_instances, working} (rewritten every 128 inputs)
extern void SchemaInit( class Registry & );
#include "cleditor/STEPfile.h"
#include "clstepcore/sdai.h"
#include "clstepcore/STEPcomplex.h"
#include "clstepcore/Registry.h"
#include "clutils/errordesc.h"
#include <cstdint>
#include <cstdio>
#include <cstdlib>
#include <cstring>
#include <iostream>
#include <sstream>
#include <streambuf>
#include <string>
#include <vector>
#include <exception>
#include <unistd.h>
#include <fcntl.h>
#include <sys/mman.h>
#include <sys/syscall.h>

extern "C" size_t LLVMFuzzerMutate( uint8_t * Data, size_t Size, size_t MaxSize );

namespace {

class NullBuf : public std::streambuf {
    protected:
        int overflow( int c ) {
            return c;
        }
        std::streamsize xsputn( const char *, std::streamsize n ) {
            return n;
        }
};

// counts what is written, keeps nothing
class CountBuf : public std::streambuf {
    public:
        unsigned long n;
        CountBuf() : n( 0 ) {}
    protected:
        int overflow( int c ) {
            ++n;
            return c;
        }
        std::streamsize xsputn( const char *, std::streamsize k ) {
            n += ( unsigned long ) k;
            return k;
        }
};

NullBuf nullbuf;
int memfd = -1;   // descriptor of the per-process input file
char mempath[512];
unsigned long nExec = 0, nWithInst = 0, nWorking = 0;
const char * statsPath = 0;

void writeStatsFile() {
    if( !statsPath ) {
        return;
    }
    // one file per process, rewritten now and then (a crashing process does not reach atexit)
    char path[600];
    snprintf( path, sizeof path, "%s.%d", statsPath, ( int ) getpid() );
    FILE * f = fopen( path, "w" );
    if( f ) {
        fprintf( f, "{\"execs\":%lu,\"with_instances\":%lu,\"working\":%lu}\n", nExec, nWithInst, nWorking );
        fclose( f );
    }
}

void writeStats() {
    unlink( mempath );
    writeStatsFile();
}

void fail( const char * what, const uint8_t * data, size_t size ) {
    dprintf( 2, "\nC05-ORACLE: %s\n", what );
    ( void ) data;
    ( void ) size;
    __builtin_trap();
}

bool ordinary( int sev ) {
    return sev >= ( int ) SEVERITY_MAX && sev <= ( int ) SEVERITY_NULL;
}

} // namespace

extern "C" int LLVMFuzzerInitialize( int *, char *** ) {
    std::cout.rdbuf( &nullbuf );
    std::cerr.rdbuf( &nullbuf );
    std::clog.rdbuf( &nullbuf );
    // (a memfd does not work: the library passes the name through realpath(), which resolves /proc/self/fd/N of a memfd
    // to a name that does not exist) -> one real file per process, on tmpfs if possible, removed by the driver script
    const char * dir = getenv( "C05_TMPDIR" );
    snprintf( mempath, sizeof mempath, "%s/c05-fuzz-in-%d", dir ? dir : "/dev/shm", ( int ) getpid() );
    memfd = open( mempath, O_RDWR | O_CREAT | O_TRUNC, 0600 );
    if( memfd < 0 ) {
        snprintf( mempath, sizeof mempath, "/tmp/c05-fuzz-in-%d", ( int ) getpid() );
        memfd = open( mempath, O_RDWR | O_CREAT | O_TRUNC, 0600 );
    }
    if( memfd < 0 ) {
        dprintf( 2, "fuzz_p21: cannot create an input file\n" );
        _exit( 3 );
    }
    statsPath = getenv( "C05_STATS" );
    atexit( writeStats );
    return 0;
}

extern "C" int LLVMFuzzerTestOneInput( const uint8_t * data, size_t size ) {
    if( memfd < 0 ) {
        LLVMFuzzerInitialize( 0, 0 );
    }
    if( ftruncate( memfd, 0 ) != 0 || ( size && pwrite( memfd, data, size, 0 ) != ( ssize_t ) size ) ) {
        dprintf( 2, "fuzz_p21: cannot write the input file\n" );
        _exit( 3 );
    }
    // the first non-blank character decides which reader is used: 'S' (STEP_WORKING_SESSION) -> working session
    bool working = false;
    for( size_t i = 0; i < size; i++ ) {
        if( data[i] != ' ' && data[i] != '\n' && data[i] != '\t' && data[i] != '\r' ) {
            working = ( data[i] == 'S' );
            break;
        }
    }
    ++nExec;
    if( ( nExec & 127 ) == 0 ) {
        writeStatsFile();
    }
    if( working ) {
        ++nWorking;
    }
    try {
        Registry registry( SchemaInit );
        InstMgr im;
        STEPfile sf( registry, im, "", false );
        Severity r = working ? sf.ReadWorkingFile( mempath ) : sf.ReadExchangeFile( mempath );
        if( !ordinary( ( int ) r ) || !ordinary( ( int ) sf.Error().severity() ) ) {
            fail( "read returned a severity outside the Severity enumeration", data, size );
        }
        if( im.InstanceCount() > 0 ) {
            ++nWithInst;
        }
        CountBuf cb;
        std::ostream out( &cb );
        Severity w = working ? sf.WriteWorkingFile( out ) : sf.WriteExchangeFile( out );
        if( !ordinary( ( int ) w ) || !ordinary( ( int ) sf.Error().severity() ) ) {
            fail( "write returned a severity outside the Severity enumeration", data, size );
        }
    } catch( std::exception & e ) {
        std::string m = std::string( "uncaught C++ exception: " ) + e.what();
        fail( m.c_str(), data, size );
    } catch( ... ) {
        fail( "uncaught C++ exception (not a std::exception)", data, size );
    }
    return 0;
}

// ------------------------------------------------------------------------------------------------ token-level mutator

namespace {

struct Rng {
    uint64_t s;
    explicit Rng( unsigned seed ) : s( seed * 0x9E3779B97F4A7C15ULL + 0x1234567 ) {}
    uint32_t next() {
        s ^= s << 13;
        s ^= s >> 7;
        s ^= s << 17;
        return ( uint32_t )( s >> 16 );
    }
    size_t below( size_t n ) {
        return n ? next() % n : 0;
    }
};

enum TK { T_WS, T_COMMENT, T_STRING, T_BINARY, T_INST, T_NUMBER, T_ENUM, T_KW, T_PUNCT };

struct Tok {
    TK k;
    std::string s;
};

bool isws( unsigned char c ) {
    return c == ' ' || c == '\t' || c == '\r' || c == '\n' || c == '\f' || c == '\v';
}
bool isdig( unsigned char c ) {
    return c >= '0' && c <= '9';
}
bool isal( unsigned char c ) {
    return ( c >= 'A' && c <= 'Z' ) || ( c >= 'a' && c <= 'z' ) || c == '_';
}

// same lexer as lib/mutate_p21.py (total: every byte string is a token sequence)
void tokenize( const uint8_t * d, size_t n, std::vector<Tok> & out ) {
    size_t i = 0;
    while( i < n ) {
        size_t j = i;
        Tok t;
        unsigned char c = d[i];
        if( isws( c ) ) {
            while( j < n && isws( d[j] ) ) {
                j++;
            }
            t.k = T_WS;
        } else if( c == '/' && i + 1 < n && d[i + 1] == '*' ) {
            j = i + 2;
            while( j < n && !( d[j] == '*' && j + 1 < n && d[j + 1] == '/' ) ) {
                j++;
            }
            j = ( j < n ) ? j + 2 : n;
            t.k = T_COMMENT;
        } else if( c == '\'' ) {
            j = i + 1;
            while( j < n ) {
                if( d[j] == '\'' ) {
                    if( j + 1 < n && d[j + 1] == '\'' ) {
                        j += 2;
                        continue;
                    }
                    j++;
                    break;
                }
                j++;
            }
            t.k = T_STRING;
        } else if( c == '"' ) {
            j = i + 1;
            while( j < n && d[j] != '"' ) {
                j++;
            }
            if( j < n ) {
                j++;
            }
            t.k = T_BINARY;
        } else if( c == '#' && i + 1 < n && isdig( d[i + 1] ) ) {
            j = i + 1;
            while( j < n && isdig( d[j] ) ) {
                j++;
            }
            t.k = T_INST;
        } else if( isdig( c ) || ( ( c == '+' || c == '-' ) && i + 1 < n && isdig( d[i + 1] ) ) ) {
            j = i + 1;
            while( j < n && isdig( d[j] ) ) {
                j++;
            }
            if( j < n && d[j] == '.' ) {
                j++;
                while( j < n && isdig( d[j] ) ) {
                    j++;
                }
            }
            if( j < n && ( d[j] == 'E' || d[j] == 'e' ) ) {
                size_t k = j + 1;
                if( k < n && ( d[k] == '+' || d[k] == '-' ) ) {
                    k++;
                }
                if( k < n && isdig( d[k] ) ) {
                    while( k < n && isdig( d[k] ) ) {
                        k++;
                    }
                    j = k;
                }
            }
            t.k = T_NUMBER;
        } else if( c == '.' && i + 1 < n && isal( d[i + 1] ) ) {
            j = i + 1;
            while( j < n && ( isal( d[j] ) || isdig( d[j] ) ) ) {
                j++;
            }
            if( j < n && d[j] == '.' ) {
                j++;
                t.k = T_ENUM;
            } else {
                j = i + 1;
                t.k = T_PUNCT;
            }
        } else if( isal( c ) || ( ( c == '!' || c == '&' ) && i + 1 < n && isal( d[i + 1] ) ) ) {
            j = i + 1;
            while( j < n && ( isal( d[j] ) || isdig( d[j] ) || d[j] == '-' ) ) {
                j++;
            }
            t.k = T_KW;
        } else {
            j = i + 1;
            t.k = T_PUNCT;
        }
        t.s.assign( ( const char * ) d + i, j - i );
        out.push_back( t );
        i = j;
    }
}

const char * const DICT[] = {
    "$", "*", "()", "(", ")", ",", ";", "'", "\"", "#", "=", "/", "\\", ".", ".T.", ".F.", ".U.", "#0", "#1", "#-1", "-", "+", "E", "1E", "1.E5",
    "0", "1", "-1", "0.", "''", "\"\"", "\"0\"", "\"1F\"", "/*", "*/", "/**/", "!", "&SCOPE", "ENDSCOPE", "ENDSEC", "DATA", "HEADER", "\\N\\", "\\F\\",
    "ISO-10303-21", "END-ISO-10303-21", "STEP_WORKING_SESSION", "END-STEP_WORKING_SESSION", "FILE_DESCRIPTION", "FILE_NAME", "FILE_SCHEMA",
    "FILE_POPULATION", "SECTION_LANGUAGE", "SECTION_CONTEXT", "'PROBE'", "C", "I", "N", "D",
    // the probe schema
    "BASE", "LEAF1", "LEAF2", "LEAF3", "HOLDER", "AGGS", "SEL", "DER", "OWN", "TGT", "LEN", "PLEN", "CNT", "LBL", "COLOUR", "ILIST", "VAL", "VAL2",
    ".RED.", ".GREEN.", ".BLUE_ISH.", "'\\X2\\00E9\\X0\\'", "'\\X\\41'", "'\\S\\a'", "''''", "2147483648", "99999999999999999999", "1.7976931348623157E309",
    "4.9E-324", "#2147483647", "#4294967297"
};
const size_t NDICT = sizeof( DICT ) / sizeof( DICT[0] );
const char * const ENTS[] = { "BASE", "LEAF1", "LEAF2", "LEAF3", "HOLDER", "AGGS", "SEL", "DER", "OWN", "TGT", "NOPE" };
const size_t NENTS = sizeof( ENTS ) / sizeof( ENTS[0] );

size_t stretchLen( Rng & r, size_t room ) {
    static const size_t sz[] = { 10, 65, 100, 257, 513, 1000, 8193, 10000, 70000, 100000 };
    size_t n = sz[r.below( sizeof( sz ) / sizeof( sz[0] ) )];
    return n < room ? n : room;
}

std::vector<size_t> solid( const std::vector<Tok> & t ) {
    std::vector<size_t> v;
    for( size_t i = 0; i < t.size(); i++ ) {
        if( t[i].k != T_WS ) {
            v.push_back( i );
        }
    }
    return v;
}

std::string join( const std::vector<Tok> & t ) {
    std::string s;
    for( size_t i = 0; i < t.size(); i++ ) {
        s += t[i].s;
    }
    return s;
}

// returns false when the mutation is not applicable
bool mutateTokens( std::vector<Tok> & t, Rng & r, size_t room, std::string & out ) {
    std::vector<size_t> s = solid( t );
    unsigned op = r.below( 16 );
    if( s.empty() ) {
        op = 15;
    }
    Tok nt;
    nt.k = T_PUNCT;
    switch( op ) {
        case 0: { // delete 1..3 tokens
            size_t k = 1 + r.below( 3 );
            for( size_t q = 0; q < k && !t.empty(); q++ ) {
                std::vector<size_t> s2 = solid( t );
                if( s2.empty() ) {
                    break;
                }
                t.erase( t.begin() + s2[r.below( s2.size() )] );
            }
            break;
        }
        case 1: { // duplicate a run of tokens
            size_t i = s[r.below( s.size() )];
            size_t ln = 1 + r.below( 4 );
            if( i + ln > t.size() ) {
                ln = t.size() - i;
            }
            static const size_t times[] = { 1, 2, 10, 64, 65, 100, 1000 };
            size_t k = times[r.below( 7 )];
            std::vector<Tok> run( t.begin() + i, t.begin() + i + ln );
            size_t bytes = 0;
            for( size_t q = 0; q < run.size(); q++ ) {
                bytes += run[q].s.size();
            }
            if( bytes == 0 ) {
                return false;
            }
            if( k * bytes > room ) {
                k = room / bytes;
            }
            std::vector<Tok> ins;
            for( size_t q = 0; q < k; q++ ) {
                ins.insert( ins.end(), run.begin(), run.end() );
            }
            t.insert( t.begin() + i, ins.begin(), ins.end() );
            break;
        }
        case 2: { // swap
            if( s.size() < 2 ) {
                return false;
            }
            size_t a = s[r.below( s.size() )], b = s[r.below( s.size() )];
            std::swap( t[a], t[b] );
            break;
        }
        case 3: { // replace by a dictionary token
            t[s[r.below( s.size() )]].s = DICT[r.below( NDICT )];
            break;
        }
        case 4: { // insert a dictionary token
            nt.s = DICT[r.below( NDICT )];
            t.insert( t.begin() + r.below( t.size() + 1 ), nt );
            break;
        }
        case 5: { // stretch a token according to its kind
            size_t i = s[r.below( s.size() )];
            size_t n = stretchLen( r, room );
            Tok & x = t[i];
            switch( x.k ) {
                case T_NUMBER:
                case T_INST:
                    x.s.insert( x.s.size() > 1 ? 1 + r.below( x.s.size() - 1 ) : x.s.size(), std::string( n, r.below( 2 ) ? '9' : '0' ) );
                    break;
                case T_STRING: {
                    std::string body;
                    unsigned m = r.below( 4 );
                    if( m == 0 ) {
                        body.assign( n, 'a' );
                    } else if( m == 1 ) {
                        for( size_t q = 0; q < n / 2; q++ ) {
                            body += "''";
                        }
                    } else if( m == 2 ) {
                        body = "\\X2\\";
                        for( size_t q = 0; q < n / 4; q++ ) {
                            body += "00E9";
                        }
                        body += "\\X0\\";
                    } else {
                        for( size_t q = 0; q < n / 2; q++ ) {
                            body += "\\\\";
                        }
                    }
                    x.s = "'" + body + ( r.below( 8 ) ? "'" : "" );
                    break;
                }
                case T_BINARY:
                    x.s = "\"" + std::string( 1, ( char )( '0' + r.below( 4 ) ) ) + std::string( n, 'A' ) + "\"";
                    break;
                case T_ENUM:
                    x.s = "." + x.s.substr( 1, x.s.size() - 2 ) + std::string( n, 'A' ) + ".";
                    break;
                case T_KW:
                    x.s += std::string( n, 'A' );
                    break;
                case T_COMMENT:
                    x.s = "/*" + std::string( n, 'c' ) + ( r.below( 6 ) ? "*/" : "" );
                    break;
                default:
                    x.s = std::string( n, x.s.empty() ? ' ' : x.s[0] );
                    break;
            }
            break;
        }
        case 6: { // insert a long comment / white space / binary / list
            size_t n = stretchLen( r, room );
            unsigned m = r.below( 4 );
            if( m == 0 ) {
                nt.s = "/*" + std::string( n, '*' ) + "*/";
            } else if( m == 1 ) {
                nt.s = std::string( n, ' ' );
            } else if( m == 2 ) {
                nt.s = "\"0" + std::string( n, 'F' ) + "\"";
            } else {
                for( size_t q = 0; q < n / 2; q++ ) {
                    nt.s += "1,";
                }
            }
            t.insert( t.begin() + r.below( t.size() + 1 ), nt );
            break;
        }
        case 7: { // nest: wrap a token in d pairs of parentheses (plain or typed)
            static const size_t ds[] = { 2, 10, 100, 1000, 10000, 50000 };
            size_t d = ds[r.below( 6 )];
            const char * kw = r.below( 3 ) ? "" : ENTS[r.below( NENTS )];
            size_t unit = strlen( kw ) + 2;
            if( d * unit > room ) {
                d = room / unit;
            }
            size_t i = s[r.below( s.size() )];
            std::string open, close;
            for( size_t q = 0; q < d; q++ ) {
                open += kw;
                open += "(";
            }
            close.assign( d, ')' );
            unsigned m = r.below( 4 );
            t[i].s = open + t[i].s + ( m == 0 ? "" : close );      // m == 0: opens only
            break;
        }
        case 8: { // unbalance
            unsigned m = r.below( 3 );
            if( m == 0 ) {
                std::vector<size_t> par;
                for( size_t i = 0; i < t.size(); i++ ) {
                    if( t[i].s == "(" || t[i].s == ")" ) {
                        par.push_back( i );
                    }
                }
                if( par.empty() ) {
                    return false;
                }
                t.erase( t.begin() + par[r.below( par.size() )] );
            } else {
                nt.s = ( m == 1 ) ? "(" : ")";
                t.insert( t.begin() + r.below( t.size() + 1 ), nt );
            }
            break;
        }
        case 9: { // truncate
            std::string all = join( t );
            if( all.size() < 2 ) {
                return false;
            }
            out = all.substr( 0, r.below( all.size() ) );
            return true;
        }
        case 10: { // complex instance from an arbitrary part list
            static const size_t np[] = { 0, 1, 2, 3, 5, 63, 64, 65, 100, 500 };
            size_t n = np[r.below( 10 )];
            std::string body;
            for( size_t q = 0; q < n; q++ ) {
                body += ENTS[r.below( NENTS )];
                static const char * const pl[] = { "()", "($)", "(1,$)", "('x')", "(.T.)", "(1.5)", "(#1)", "(*)", "((1,2))", "" };
                body += pl[r.below( 10 )];
                if( body.size() > room ) {
                    break;
                }
            }
            char id[32];
            snprintf( id, sizeof id, "#%u=(", ( unsigned )( r.below( 3 ) ? 1 + r.below( 12 ) : 800000 + r.below( 100 ) ) );
            nt.s = std::string( id ) + body + ");\n";
            // in front of an instance, if any
            std::vector<size_t> inst;
            for( size_t i = 0; i < t.size(); i++ ) {
                if( t[i].k == T_INST ) {
                    inst.push_back( i );
                }
            }
            t.insert( t.begin() + ( inst.empty() ? t.size() : inst[r.below( inst.size() )] ), nt );
            break;
        }
        case 11: { // simple instance of some entity with a parameter list copied from the input
            std::vector<size_t> op;
            for( size_t i = 0; i < t.size(); i++ ) {
                if( t[i].s == "(" ) {
                    op.push_back( i );
                }
            }
            std::string pl = "()";
            if( !op.empty() ) {
                size_t a = op[r.below( op.size() )], b = a;
                int depth = 0;
                for( ; b < t.size(); b++ ) {
                    if( t[b].s == "(" ) {
                        depth++;
                    } else if( t[b].s == ")" && --depth == 0 ) {
                        break;
                    }
                }
                if( b < t.size() ) {
                    pl.clear();
                    for( size_t q = a; q <= b; q++ ) {
                        pl += t[q].s;
                    }
                }
            }
            char id[32];
            snprintf( id, sizeof id, "#%u=", ( unsigned )( 1 + r.below( 20 ) ) );
            nt.s = std::string( id ) + ENTS[r.below( NENTS )] + pl + ";\n";
            std::vector<size_t> inst;
            for( size_t i = 0; i < t.size(); i++ ) {
                if( t[i].k == T_INST ) {
                    inst.push_back( i );
                }
            }
            t.insert( t.begin() + ( inst.empty() ? t.size() : inst[r.below( inst.size() )] ), nt );
            break;
        }
        case 12: { // working session: file keyword + state letters (or garbage) in front of instances
            for( size_t i = 0; i < t.size(); i++ ) {
                if( t[i].s == "ISO-10303-21" ) {
                    t[i].s = "STEP_WORKING_SESSION";
                } else if( t[i].s == "END-ISO-10303-21" ) {
                    t[i].s = "END-STEP_WORKING_SESSION";
                }
            }
            static const char * const pre[] = { "C", "I", "N", "D", "C", "I", "N", "D", "X", "CC", "", "1", "c", "D " };
            for( size_t i = t.size(); i-- > 0; ) {
                if( t[i].k == T_INST && i + 1 < t.size() && ( t[i + 1].s == "=" || ( t[i + 1].k == T_WS && i + 2 < t.size() && t[i + 2].s == "=" ) ) ) {
                    nt.s = pre[r.below( 14 )];
                    nt.k = T_KW;
                    t.insert( t.begin() + i, nt );
                }
            }
            break;
        }
        case 13: { // &SCOPE construct after an '='
            std::vector<size_t> eq;
            for( size_t i = 0; i < t.size(); i++ ) {
                if( t[i].s == "=" ) {
                    eq.push_back( i );
                }
            }
            if( eq.empty() ) {
                return false;
            }
            size_t n = r.below( 4 );
            std::string sc = "&SCOPE ";
            for( size_t q = 0; q < n; q++ ) {
                char id[48];
                snprintf( id, sizeof id, "#%u=%s();\n", ( unsigned )( 700 + q ), ENTS[r.below( NENTS )] );
                sc += id;
            }
            static const char * const ex[] = { "", "/#1/", "/#1,#2/", "/#1", "/,/", "/#/" };
            sc += r.below( 5 ) ? "ENDSCOPE " : "ENDSCOP ";
            sc += ex[r.below( 6 )];
            nt.s = sc;
            t.insert( t.begin() + eq[r.below( eq.size() )] + 1, nt );
            break;
        }
        case 14: { // user defined / keyword of another entity
            std::vector<size_t> kw;
            for( size_t i = 0; i < t.size(); i++ ) {
                if( t[i].k == T_KW ) {
                    kw.push_back( i );
                }
            }
            if( kw.empty() ) {
                return false;
            }
            size_t i = kw[r.below( kw.size() )];
            t[i].s = r.below( 4 ) ? std::string( ENTS[r.below( NENTS )] ) : "!" + t[i].s;
            break;
        }
        default: { // a skeleton file around whatever there is
            std::string body = join( t );
            out = "ISO-10303-21;\nHEADER;\nFILE_DESCRIPTION((''),'2;1');\nFILE_NAME('','',(''),(''),'','','');\nFILE_SCHEMA(('PROBE'));\nENDSEC;\nDATA;\n";
            out += "#1=LEAF1(1,$,'s');\n";
            if( body.find( "DATA" ) == std::string::npos ) {
                out += body;
            }
            out += "\nENDSEC;\nEND-ISO-10303-21;\n";
            return true;
        }
    }
    out = join( t );
    return true;
}

} // namespace

extern "C" size_t LLVMFuzzerCustomMutator( uint8_t * Data, size_t Size, size_t MaxSize, unsigned int Seed ) {
    Rng r( Seed );
    if( r.below( 4 ) == 0 ) {
        return LLVMFuzzerMutate( Data, Size, MaxSize );
    }
    std::vector<Tok> t;
    tokenize( Data, Size, t );
    std::string out;
    size_t room = MaxSize > Size ? MaxSize - Size : 0;
    if( !mutateTokens( t, r, room, out ) || out.empty() ) {
        return LLVMFuzzerMutate( Data, Size, MaxSize );
    }
    if( r.below( 5 ) == 0 ) {   // a second mutation on top
        std::vector<Tok> t2;
        tokenize( ( const uint8_t * ) out.data(), out.size(), t2 );
        std::string out2;
        size_t room2 = MaxSize > out.size() ? MaxSize - out.size() : 0;
        if( mutateTokens( t2, r, room2, out2 ) && !out2.empty() ) {
            out.swap( out2 );
        }
    }
    size_t n = out.size() < MaxSize ? out.size() : MaxSize;
    memcpy( Data, out.data(), n );
    return n;
}

// splice: put one instance (#id = ... ;) of the other input in front of an instance of this one
extern "C" size_t LLVMFuzzerCustomCrossOver( const uint8_t * Data1, size_t Size1, const uint8_t * Data2, size_t Size2,
        uint8_t * Out, size_t MaxOutSize, unsigned int Seed ) {
    Rng r( Seed );
    std::vector<Tok> a, b;
    tokenize( Data1, Size1, a );
    tokenize( Data2, Size2, b );
    std::vector<size_t> ia, ib;
    for( size_t i = 0; i < a.size(); i++ ) {
        if( a[i].k == T_INST ) {
            ia.push_back( i );
        }
    }
    for( size_t i = 0; i < b.size(); i++ ) {
        if( b[i].k == T_INST ) {
            ib.push_back( i );
        }
    }
    std::string out;
    if( ib.empty() ) {
        out.assign( ( const char * ) Data1, Size1 );
    } else {
        size_t s = ib[r.below( ib.size() )], e = s;
        while( e < b.size() && b[e].s != ";" ) {
            e++;
        }
        std::string piece;
        for( size_t q = s; q < b.size() && q <= e; q++ ) {
            piece += b[q].s;
        }
        piece += "\n";
        size_t pos = ia.empty() ? a.size() : ia[r.below( ia.size() )];
        for( size_t q = 0; q < pos; q++ ) {
            out += a[q].s;
        }
        out += piece;
        for( size_t q = pos; q < a.size(); q++ ) {
            out += a[q].s;
        }
    }
    size_t n = out.size() < MaxOutSize ? out.size() : MaxOutSize;
    memcpy( Out, out.data(), n );
    return n;
}
