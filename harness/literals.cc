// Harness of check C09 (Part 21 literals).  In-process: exhaustive enumeration of short token strings per
// attribute kind x delimiter context, a rapidcheck driven random part, and the writer grid.
//
//   literals plan <tier>                                   -> JSON list of enumeration units
//   literals sweep <out.json> <tier> <kind> <opt> <sweep> <shard> <nshards> [maxtokens]
//   literals random <out.json> <kind> <ncases>            (RC_PARAMS gives the seed)
//   literals writer <out.json> <tier> <ncases>            (RC_PARAMS gives the seed)
//   literals one <kind> <opt> <slot> <filler-hex> <token-hex>   -> JSON verdict of a single reader case
//   literals wone <kind> <value-hex>                       -> JSON verdict of a single writer case
//   literals selftest                                      -> DFA vs std::regex, reference value functions
//
// While a case runs, its description is kept in the file <out.json>.cur (shared mapping), so that the driver can
// name the input if the process dies.
#include "literals_core.h"
#include <regex>
#include <fcntl.h>
#include <unistd.h>
#include <sys/mman.h>
#include <unordered_set>
#include <algorithm>

// ------------------------------------------------------------------------------------------------ utilities
static std::string hexOf( const std::string & s ) {
    static const char * H = "0123456789abcdef";
    std::string o;
    for( size_t i = 0; i < s.size(); i++ ) {
        o += H[( ( unsigned char ) s[i] ) >> 4];
        o += H[( ( unsigned char ) s[i] ) & 15];
    }
    return o;
}

static std::string unhex( const std::string & h ) {
    std::string o;
    for( size_t i = 0; i + 1 < h.size(); i += 2 ) {
        o += ( char ) strtol( h.substr( i, 2 ).c_str(), 0, 16 );
    }
    return o;
}

static std::string jesc( const std::string & s ) {
    std::string o = "\"";
    char b[8];
    for( size_t i = 0; i < s.size(); i++ ) {
        unsigned char c = ( unsigned char ) s[i];
        if( c == '"' ) {
            o += "\\\"";
        } else if( c == '\\' ) {
            o += "\\\\";
        } else if( c < 0x20 || c >= 0x7f ) {
            snprintf( b, sizeof b, "\\u%04x", c );
            o += b;
        } else {
            o += ( char ) c;
        }
    }
    return o + "\"";
}

class NullBuf : public std::streambuf {
    protected:
        virtual int overflow( int c ) {
            return c == EOF ? 0 : c;
        }
        virtual std::streamsize xsputn( const char *, std::streamsize n ) {
            return n;
        }
};
static NullBuf nullBuf;

static void silenceLibrary() {
    std::cout.rdbuf( &nullBuf );
    std::cerr.rdbuf( &nullBuf );
}

static char * CUR = 0;
static void openCur( const std::string & out ) {
    std::string p = out + ".cur";
    int fd = open( p.c_str(), O_RDWR | O_CREAT | O_TRUNC, 0644 );
    if( fd < 0 || ftruncate( fd, 4096 ) != 0 ) {
        die( "cannot create " + p );
    }
    void * m = mmap( 0, 4096, PROT_READ | PROT_WRITE, MAP_SHARED, fd, 0 );
    if( m == MAP_FAILED ) {
        die( "mmap failed" );
    }
    CUR = ( char * ) m;
    CUR[0] = 0;
    close( fd );
}

static inline void noteCur( const char * mode, int k, int opt, int slot, const std::string & filler, const std::string & tok ) {
    if( !CUR ) {
        return;
    }
    std::string th = hexOf( tok.size() > 1800 ? tok.substr( 0, 1800 ) : tok );
    snprintf( CUR, 4096, "%s %d %d %d %s. %s", mode, k, opt, slot, hexOf( filler ).c_str(), th.c_str() );
}

// ------------------------------------------------------------------------------------------------ tally
struct Example {
    int k, opt, slot;
    std::string filler, tok, detail;
};
struct FailRec {
    long count;
    std::vector<Example> ex;
    FailRec(): count( 0 ) {}
};
struct Tally {
    long cases, tokens, nontrivial;
    long cls[NKIND][2][NCLS];
    std::map<std::string, FailRec> fails;
    std::map<std::string, std::vector<Example> > samples;   // per "KIND:class"
    std::vector<std::string> ntHashes;                      // random part only
    Tally(): cases( 0 ), tokens( 0 ), nontrivial( 0 ) {
        memset( cls, 0, sizeof cls );
    }
};

static void addExample( std::vector<Example> & v, const Example & e, size_t cap ) {
    // keep the `cap` shortest
    if( v.size() < cap ) {
        v.push_back( e );
        return;
    }
    size_t worst = 0;
    for( size_t i = 1; i < v.size(); i++ ) {
        if( v[i].tok.size() + v[i].filler.size() > v[worst].tok.size() + v[worst].filler.size() ) {
            worst = i;
        }
    }
    if( e.tok.size() + e.filler.size() < v[worst].tok.size() + v[worst].filler.size() ) {
        v[worst] = e;
    }
}

static std::string exampleJson( const Example & e ) {
    std::ostringstream o;
    o << "{\"kind\":" << jesc( KNAME[e.k] ) << ",\"k\":" << e.k << ",\"optional\":" << e.opt << ",\"slot\":" << e.slot
      << ",\"delimiter\":" << jesc( e.slot == 0 ? "," : ")" ) << ",\"filler\":" << jesc( e.filler )
      << ",\"filler_hex\":" << jesc( hexOf( e.filler ) ) << ",\"token\":" << jesc( e.tok.size() > 300 ? e.tok.substr( 0, 300 ) + "..." : e.tok )
      << ",\"token_len\":" << e.tok.size() << ",\"token_hex\":" << jesc( hexOf( e.tok ) ) << ",\"detail\":" << jesc( e.detail.size() > 3000 ? e.detail.substr( 0, 3000 ) + "..." : e.detail ) << "}";
    return o.str();
}

static void writeTally( const std::string & out, const Tally & T, const std::string & extra ) {
    std::ostringstream o;
    o << "{\"cases\":" << T.cases << ",\"tokens\":" << T.tokens << ",\"nontrivial\":" << T.nontrivial << ",\"classes\":{";
    bool first = true;
    for( int k = 0; k < NKIND; k++ ) {
        for( int op = 0; op < 2; op++ ) {
            for( int c = 0; c < NCLS; c++ ) {
                if( T.cls[k][op][c] ) {
                    o << ( first ? "" : "," ) << jesc( std::string( KNAME[k] ) + ( op ? "(optional)" : "" ) + ":" + CLSNAME[c] ) << ":" << T.cls[k][op][c];
                    first = false;
                }
            }
        }
    }
    o << "},\"failures\":{";
    first = true;
    for( std::map<std::string, FailRec>::const_iterator it = T.fails.begin(); it != T.fails.end(); ++it ) {
        o << ( first ? "" : "," ) << jesc( it->first ) << ":{\"count\":" << it->second.count << ",\"examples\":[";
        for( size_t i = 0; i < it->second.ex.size(); i++ ) {
            o << ( i ? "," : "" ) << exampleJson( it->second.ex[i] );
        }
        o << "]}";
        first = false;
    }
    o << "},\"samples\":{";
    first = true;
    for( std::map<std::string, std::vector<Example> >::const_iterator it = T.samples.begin(); it != T.samples.end(); ++it ) {
        o << ( first ? "" : "," ) << jesc( it->first ) << ":[";
        for( size_t i = 0; i < it->second.size(); i++ ) {
            o << ( i ? "," : "" ) << exampleJson( it->second[i] );
        }
        o << "]";
        first = false;
    }
    o << "},\"nt_hashes\":[";
    for( size_t i = 0; i < T.ntHashes.size(); i++ ) {
        o << ( i ? "," : "" ) << "\"" << T.ntHashes[i] << "\"";
    }
    o << "]" << extra << "}\n";
    std::string tmp = out + ".tmp";
    FILE * f = fopen( tmp.c_str(), "w" );
    if( !f ) {
        die( "cannot write " + tmp );
    }
    fputs( o.str().c_str(), f );
    fclose( f );
    rename( tmp.c_str(), out.c_str() );
}

static const char * const FILLERS[] = { "", " ", "/**/", 0 };

// run one token in the given contexts and tally; returns number of cases
static void runToken( Tally & T, Kind k, int opt, const std::string & tok, int nfillers, bool countNear ) {
    TokInfo ti;
    analyse( k, tok, ti );
    T.tokens++;
    CaseResult r;
    for( int fi = 0; fi < nfillers; fi++ ) {
        for( int slot = 0; slot < 2; slot++ ) {
            std::string filler = FILLERS[fi];
            noteCur( "R", k, opt, slot, filler, tok );
            runCase( k, opt, slot, filler, tok, ti, r );
            T.cases++;
            T.cls[k][opt][r.cls]++;
            bool nt = ti.near && r.cls != C_EXCL_EMPTY && r.cls != C_EXCL_DELIM && r.cls != C_EXCL_SEP;
            if( nt && countNear ) {
                T.nontrivial++;
            }
            if( r.cls == C_FAIL ) {
                for( size_t i = 0; i < r.sigs.size(); i++ ) {
                    FailRec & fr = T.fails[r.sigs[i]];
                    fr.count++;
                    Example e = { ( int ) k, opt, slot, filler, tok, r.detail };
                    addExample( fr.ex, e, 4 );
                }
            } else if( nt || r.cls == C_REJECTED ) {
                std::string key = std::string( KNAME[k] ) + ":" + CLSNAME[r.cls];
                std::vector<Example> & v = T.samples[key];
                if( v.size() < 2 || ( r.cls == C_VERBATIM && v.size() < 6 ) ) {
                    Example e = { ( int ) k, opt, slot, filler, tok, r.detail };
                    v.push_back( e );
                }
            }
        }
    }
}

// ------------------------------------------------------------------------------------------------ sweeps
struct Sweep {
    std::string name;
    std::vector<std::string> frags;
    int maxFrags, maxLen, fillerMaxLen;
    bool charLevel;
};

static std::vector<std::string> chars( const std::string & s ) {
    std::vector<std::string> v;
    for( size_t i = 0; i < s.size(); i++ ) {
        v.push_back( std::string( 1, s[i] ) );
    }
    return v;
}

static std::vector<std::string> words( const char * const * w ) {
    std::vector<std::string> v;
    for( ; *w; w++ ) {
        v.push_back( *w );
    }
    return v;
}

static Sweep mk( const std::string & name, const std::vector<std::string> & fr, int maxFrags, int maxLen, int fillerMaxLen, bool charLevel ) {
    Sweep s;
    s.name = name;
    s.frags = fr;
    s.maxFrags = maxFrags;
    s.maxLen = maxLen;
    s.fillerMaxLen = fillerMaxLen;
    s.charLevel = charLevel;
    return s;
}

// tier: 0 quick, 1 thorough, -1 reduced (sanitizer pass)
static std::vector<Sweep> sweepsFor( Kind k, int tier ) {
    std::vector<Sweep> v;
    int d = tier;    // length bonus
    int dc = tier >= 1 ? tier + 1 : tier;   // the non-numeric kinds are cheap: thorough goes two beyond quick
    static const char * const W_INT[] = { "-", "+", "0", "1", "9", ".", " ", "9223372036854775806", "9223372036854775807", "9223372036854775808",
                                          "9223372036854775809", "99999999999999999999", "2147483647", "2147483648", "4294967296",
                                          "18446744073709551616", "18446744073709551617", 0
                                        };
    static const char * const W_REAL[] = { "1", "0", "9", "+", "-", ".", "E", "e", "1.5", "308", "309", "400", "324", "325",
                                           "17976931348623157", "17976931348623159", "99999999999999999999", "9223372036854775808",
                                           "inf", "nan", "INF", "NAN", "x", " ", 0
                                         };
    static const char * const W_STR[] = { "'", "''", "\\\\", "\\", "\\S\\", "\\P", "A\\", "\\X\\", "\\X2\\", "\\X4\\", "\\X0\\", "00", "E9",
                                          "0041", "0001F600", "a", " ", ",", ")", "S", "X", "G", "\\N\\", 0
                                        };
    static const char * const W_BIN[] = { "\"", "0", "1", "3", "4", "A", "F", "a", "G", "0123456789ABCDEF", "\"\"", " ", "$", 0 };
    static const char * const W_ENUM[] = { ".", "RED", "GREEN", "BLUE_2", "A", "T", "E1", "red", "Red", "bLUE_2", "UNSET", "unset", "X", "_",
                                           "1", " ", "$", 0
                                         };
    static const char * const W_LOG[] = { ".", "T", "F", "U", "t", "f", "u", "TRUE", "FALSE", "UNKNOWN", "UNSET", "true", "unset", "Unset",
                                          "1", "_", " ", "$", 0
                                        };
    static const char * const W_REF[] = { "#", "@", "1", "0", "9", "10", "11", "19", "100", "2147483647", "2147483648", "4294967297",
                                          "99999999999", " ", "-", "+", "$", 0
                                        };
    switch( k ) {
        case K_INT:
        case K_REAL:
        case K_NUM:
            v.push_back( mk( "chars", chars( "019+-.Ee" ), 7 + d, 7 + d, 5 + d, true ) );
            v.push_back( mk( "chars+", chars( "019+-.Ee $*a#'/" ), 4 + d, 4 + d, 4 + d, true ) );
            v.push_back( mk( "words", words( k == K_INT ? W_INT : W_REAL ), k == K_INT ? 3 + ( d > 0 ) : 3 + ( d > 0 ), 64, 64, false ) );
            break;
        case K_STR:
            v.push_back( mk( "chars", chars( "'\\SXP024Aa" ), 6 + dc, 6 + dc, 4 + d, true ) );
            v.push_back( mk( "chars+", chars( std::string( "'\\SXA0a,) \"\n$" ) + "\x80" ), 4 + d, 4 + d, 4 + d, true ) );
            v.push_back( mk( "words", words( W_STR ), 4 + ( d > 0 ), 64, 64, false ) );
            break;
        case K_BIN:
            v.push_back( mk( "chars", chars( "\"0134AFag" ), 6 + dc, 6 + dc, 4 + d, true ) );
            v.push_back( mk( "chars+", chars( "\"0134AFag $*'." ), 4 + d, 4 + d, 4 + d, true ) );
            v.push_back( mk( "words", words( W_BIN ), 4 + ( d > 0 ), 64, 64, false ) );
            break;
        case K_ENUM:
            v.push_back( mk( "chars", chars( ".ATE1_at" ), 6 + dc, 6 + dc, 4 + d, true ) );
            v.push_back( mk( "chars+", chars( ".ATE1_at $*'-" ), 4 + d, 4 + d, 4 + d, true ) );
            v.push_back( mk( "words", words( W_ENUM ), 4 + ( d > 0 ), 64, 64, false ) );
            break;
        case K_BOOL:
        case K_LOG:
            v.push_back( mk( "chars", chars( ".TFUtfu1" ), 6 + dc, 6 + dc, 4 + d, true ) );
            v.push_back( mk( "chars+", chars( ".TFUtfu1 $*_x" ), 4 + d, 4 + d, 4 + d, true ) );
            v.push_back( mk( "words", words( W_LOG ), 4 + ( d > 0 ), 64, 64, false ) );
            break;
        case K_REF:
            v.push_back( mk( "chars", chars( "#019@-+a" ), 6 + dc, 6 + dc, 4 + d, true ) );
            v.push_back( mk( "chars+", chars( "#019@-+a $*.'" ), 4 + d, 4 + d, 4 + d, true ) );
            v.push_back( mk( "words", words( W_REF ), 4 + ( d > 0 ), 64, 64, false ) );
            break;
        default:
            break;
    }
    return v;
}

static bool inCharSweep( const Sweep & s, const std::string & t ) {
    if( !s.charLevel || ( int ) t.size() > s.maxLen ) {
        return false;
    }
    for( size_t i = 0; i < t.size(); i++ ) {
        bool f = false;
        for( size_t j = 0; j < s.frags.size(); j++ ) {
            if( s.frags[j][0] == t[i] ) {
                f = true;
                break;
            }
        }
        if( !f ) {
            return false;
        }
    }
    return true;
}

static uint64_t fnv( const std::string & s ) {
    uint64_t h = 1469598103934665603ULL;
    for( size_t i = 0; i < s.size(); i++ ) {
        h ^= ( unsigned char ) s[i];
        h *= 1099511628211ULL;
    }
    return h;
}

static double sweepSize( const Sweep & s ) {
    // upper bound of the number of fragment sequences
    double n = 0, p = 1;
    for( int i = 1; i <= s.maxFrags; i++ ) {
        p *= s.frags.size();
        n += p;
    }
    return n;
}

struct SweepRun {
    Tally * T;
    Kind k;
    int opt;
    const std::vector<Sweep> * all;
    int idx;
    int shard, nshards;
    long maxTokens;
    std::unordered_set<std::string> seen;
    long skippedEarlier;
};

static void visit( SweepRun & R, const std::string & tok ) {
    const Sweep & s = ( *R.all )[R.idx];
    for( int i = 0; i < R.idx; i++ ) {
        if( inCharSweep( ( *R.all )[i], tok ) ) {
            R.skippedEarlier++;
            return;
        }
    }
    if( !s.charLevel ) {
        if( ( int )( fnv( tok ) % ( uint64_t ) R.nshards ) != R.shard ) {
            return;
        }
        if( !R.seen.insert( tok ).second ) {
            return;
        }
    }
    if( R.maxTokens > 0 && R.T->tokens >= R.maxTokens ) {
        return;
    }
    int nf = ( int ) tok.size() <= s.fillerMaxLen ? 3 : 1;
    runToken( *R.T, R.k, R.opt, tok, nf, true );
}

static void rec( SweepRun & R, std::string & cur, int depth, int i0 ) {
    const Sweep & s = ( *R.all )[R.idx];
    if( depth > 0 ) {
        bool mine = true;
        if( s.charLevel && depth == 1 ) {
            mine = ( R.shard == 0 );
        }
        if( mine ) {
            visit( R, cur );
        }
    }
    if( depth == s.maxFrags ) {
        return;
    }
    int n = ( int ) s.frags.size();
    for( int i = 0; i < n; i++ ) {
        if( ( int )( cur.size() + s.frags[i].size() ) > s.maxLen ) {
            continue;
        }
        if( s.charLevel && depth == 1 && ( ( i0 * n + i ) % R.nshards ) != R.shard ) {
            continue;
        }
        size_t l = cur.size();
        cur += s.frags[i];
        rec( R, cur, depth + 1, depth == 0 ? i : i0 );
        cur.resize( l );
    }
}

static int cmdPlan( int tier ) {
    std::ostringstream o;
    o << "[";
    bool first = true;
    for( int k = 0; k < NKIND; k++ ) {
        std::vector<Sweep> v = sweepsFor( ( Kind ) k, tier );
        for( size_t i = 0; i < v.size(); i++ ) {
            std::string alpha;
            for( size_t j = 0; j < v[i].frags.size(); j++ ) {
                alpha += ( j ? " " : "" ) + v[i].frags[j];
            }
            o << ( first ? "" : "," ) << "{\"kind\":" << jesc( KNAME[k] ) << ",\"k\":" << k << ",\"sweep\":" << i << ",\"name\":" << jesc( v[i].name )
              << ",\"alphabet\":" << jesc( alpha ) << ",\"char_level\":" << ( v[i].charLevel ? "true" : "false" ) << ",\"max_fragments\":" << v[i].maxFrags
              << ",\"L\":" << v[i].maxLen << ",\"filler_contexts_up_to_len\":" << v[i].fillerMaxLen << ",\"size_bound\":" << ( long long ) sweepSize( v[i] ) << "}";
            first = false;
        }
    }
    o << "]";
    printf( "%s\n", o.str().c_str() );
    return 0;
}

static int cmdSweep( int argc, char ** argv ) {
    if( argc < 9 ) {
        die( "sweep: arguments" );
    }
    std::string out = argv[2];
    int tier = atoi( argv[3] );
    Kind k = ( Kind ) atoi( argv[4] );
    int opt = atoi( argv[5] );
    int idx = atoi( argv[6] );
    int shard = atoi( argv[7] ), nshards = atoi( argv[8] );
    long maxTokens = argc > 9 ? atol( argv[9] ) : 0;
    silenceLibrary();
    setupFixtures();
    openCur( out );
    std::vector<Sweep> v = sweepsFor( k, tier );
    if( idx < 0 || idx >= ( int ) v.size() ) {
        die( "sweep index" );
    }
    Tally T;
    SweepRun R;
    R.T = &T;
    R.k = k;
    R.opt = opt;
    R.all = &v;
    R.idx = idx;
    R.shard = shard;
    R.nshards = nshards;
    R.maxTokens = maxTokens;
    R.skippedEarlier = 0;
    std::string cur;
    rec( R, cur, 0, 0 );
    std::ostringstream x;
    x << ",\"skipped_in_earlier_sweep\":" << R.skippedEarlier;
    CUR[0] = 0;
    writeTally( out, T, x.str() );
    return 0;
}

static int cmdOne( int argc, char ** argv ) {
    if( argc < 7 ) {
        die( "one: arguments" );
    }
    Kind k = ( Kind ) atoi( argv[2] );
    int opt = atoi( argv[3] ), slot = atoi( argv[4] );
    std::string filler = unhex( argv[5] ), tok = unhex( argv[6] );
    silenceLibrary();
    setupFixtures();
    TokInfo ti;
    analyse( k, tok, ti );
    CaseResult r;
    runCase( k, opt, slot, filler, tok, ti, r );
    std::ostringstream o;
    o << "{\"class\":" << jesc( CLSNAME[r.cls] ) << ",\"fail\":" << ( r.cls == C_FAIL ? "true" : "false" ) << ",\"sigs\":[";
    for( size_t i = 0; i < r.sigs.size(); i++ ) {
        o << ( i ? "," : "" ) << jesc( r.sigs[i] );
    }
    o << "],\"detail\":" << jesc( r.detail ) << "}";
    printf( "@@JSON %s\n", o.str().c_str() );
    fflush( stdout );
    return 0;
}

// ------------------------------------------------------------------------------------------------ self test
static const char * regexFor( Kind k ) {
    switch( k ) {
        case K_INT: return "[+-]?[0-9]+";
        case K_REAL: return "[+-]?[0-9]+\\.[0-9]*(E[+-]?[0-9]+)?";
        case K_NUM: return "[+-]?[0-9]+(\\.[0-9]*(E[+-]?[0-9]+)?)?";
        case K_STR:
            return "'([ -&(-\\[\\]-~]|''|\\\\\\\\|\\\\S\\\\[ -~]|\\\\P[A-Z_]\\\\|\\\\X\\\\[0-9A-F]{2}|\\\\X2\\\\([0-9A-F]{4})+\\\\X0\\\\|\\\\X4\\\\([0-9A-F]{8})+\\\\X0\\\\)*'";
        case K_BIN: return "\"[0-3][0-9A-F]*\"";
        case K_BOOL: case K_LOG: case K_ENUM: return "\\.[A-Z_][A-Z_0-9]*\\.";
        case K_REF: return "#[0-9]+";
        default: return "";
    }
}

static void stRec( Kind k, const std::regex & re, const std::vector<std::string> & fr, int maxFrags, std::string & cur, int depth, long & n, long & bad, long & ingr, std::string & firstBad ) {
    if( depth > 0 ) {
        n++;
        bool a = rScan( k, cur ).ingr;
        bool b = std::regex_match( cur, re );
        ingr += a;
        if( a != b ) {
            if( !bad ) {
                firstBad = cur;
            }
            bad++;
        }
    }
    if( depth == maxFrags ) {
        return;
    }
    for( size_t i = 0; i < fr.size(); i++ ) {
        size_t l = cur.size();
        cur += fr[i];
        stRec( k, re, fr, maxFrags, cur, depth + 1, n, bad, ingr, firstBad );
        cur.resize( l );
    }
}

static int cmdSelftest() {
    long total = 0, bad = 0, ingr = 0;
    std::string firstBad;
    for( int k = 0; k < NKIND; k++ ) {
        std::regex re( regexFor( ( Kind ) k ), std::regex::ECMAScript );
        std::vector<Sweep> v = sweepsFor( ( Kind ) k, 0 );
        for( size_t i = 0; i < v.size(); i++ ) {
            std::string cur;
            int depth = v[i].charLevel ? std::min( v[i].maxFrags, 5 ) : std::min( v[i].maxFrags, 3 );
            stRec( ( Kind ) k, re, v[i].frags, depth, cur, 0, total, bad, ingr, firstBad );
        }
    }
    // reference value functions on known points
    long vbad = 0;
    std::string val;
    struct { Kind k; const char * t; RefStatus st; const char * val; } pts[] = {
        { K_INT, "9223372036854775806", RS_OK, "9223372036854775806" }, { K_INT, "9223372036854775807", RS_SENTINEL, "9223372036854775807" },
        { K_INT, "9223372036854775808", RS_OVERFLOW, 0 }, { K_INT, "-9223372036854775808", RS_OK, "-9223372036854775808" },
        { K_INT, "-9223372036854775809", RS_OVERFLOW, 0 }, { K_INT, "+007", RS_OK, "7" }, { K_INT, "-0", RS_OK, "0" },
        { K_REAL, "1.7976931348623157E308", RS_OK, 0 }, { K_REAL, "1.7976931348623159E308", RS_OVERFLOW, 0 }, { K_REAL, "1.0E400", RS_OVERFLOW, 0 },
        { K_REAL, "1.0E-400", RS_UNDERFLOW, 0 }, { K_REAL, "4.9406564584124654E-324", RS_UNDERFLOW, 0 }, { K_REAL, "0.0E-400", RS_OK, 0 },
        { K_REAL, "2.2250738585072014E-308", RS_OK, 0 }, { K_REAL, "1.1754943508222875E-38", RS_SENTINEL, 0 },
        { K_ENUM, ".BLUE_2.", RS_OK, "BLUE_2" }, { K_ENUM, ".U.", RS_NOITEM, 0 }, { K_LOG, ".U.", RS_OK, "U" }, { K_BOOL, ".U.", RS_NOITEM, 0 },
        { K_REF, "#10", RS_OK, "10" }, { K_REF, "#010", RS_OK, "10" }, { K_REF, "#11", RS_WRONGTYPE, 0 }, { K_REF, "#12", RS_DANGLING, 0 },
        { K_REF, "#2147483648", RS_OVERFLOW, 0 }, { K_BIN, "\"1F\"", RS_OK, "1F" }, { K_STR, "'a''b'", RS_OK, "'a''b'" },
    };
    for( size_t i = 0; i < sizeof pts / sizeof pts[0]; i++ ) {
        if( !rScan( pts[i].k, pts[i].t ).ingr ) {
            vbad++;
            continue;
        }
        RefStatus st = rDenote( pts[i].k, pts[i].t, val );
        if( st != pts[i].st || ( pts[i].val && val != pts[i].val ) ) {
            vbad++;
            if( firstBad.empty() ) {
                firstBad = pts[i].t;
            }
        }
    }
    printf( "@@JSON {\"strings\":%ld,\"in_grammar\":%ld,\"dfa_vs_regex_disagreements\":%ld,\"value_points_bad\":%ld,\"first_bad\":%s}\n",
            total, ingr, bad, vbad, jesc( firstBad ).c_str() );
    return ( bad || vbad ) ? 1 : 0;
}

#include "literals_gen.h"

int main( int argc, char ** argv ) {
    if( argc < 2 ) {
        die( "usage: literals plan|sweep|random|writer|one|wone|selftest ..." );
    }
    std::string cmd = argv[1];
    if( cmd == "plan" ) {
        return cmdPlan( argc > 2 ? atoi( argv[2] ) : 0 );
    }
    if( cmd == "sweep" ) {
        return cmdSweep( argc, argv );
    }
    if( cmd == "one" ) {
        return cmdOne( argc, argv );
    }
    if( cmd == "selftest" ) {
        return cmdSelftest();
    }
    if( cmd == "random" ) {
        return cmdRandom( argc, argv );
    }
    if( cmd == "writer" ) {
        return cmdWriter( argc, argv );
    }
    if( cmd == "wone" ) {
        return cmdWone( argc, argv );
    }
    die( "unknown command " + cmd );
    return 3;
}
