// Generic driver linked with any generated schema library. Each sub-command prints exactly one
// JSON object on the LAST line of stdout (the library itself chatters on cout/cerr; the Python
// side takes the last line that starts with "@@JSON ").
// It never interprets schema specific names.
extern void SchemaInit( class Registry & );
#include "cleditor/STEPfile.h"
#include "clstepcore/sdai.h"
#include "clstepcore/STEPattribute.h"
#include "clstepcore/STEPcomplex.h"
#include "clstepcore/ExpDict.h"
#include "clstepcore/Registry.h"
#include "clutils/errordesc.h"
#include "cllazyfile/lazyInstMgr.h"
#include "lazyRefs.h"
#include <string>
#include <sstream>
#include <fstream>
#include <iostream>
#include <vector>
#include <map>
#include <set>
#include <cstring>
#include <cstdlib>

static std::string jesc( const std::string & s ) {
    std::string o = "\"";
    char b[8];
    for( size_t i = 0; i < s.size(); i++ ) {
        unsigned char c = ( unsigned char ) s[i];
        if( c == '"' ) {
            o += "\\\"";
        } else if( c == '\\' ) {
            o += "\\\\";
        } else if( c < 0x20 || c >= 0x7f ) {
            snprintf( b, sizeof b, "\\u%04x", c );
            o += b;
        } else {
            o += ( char ) c;
        }
    }
    return o + "\"";
}

static const char * stateName( stateEnum s ) {
    switch( s ) {
        case completeSE:
            return "C";
        case incompleteSE:
            return "I";
        case deleteSE:
            return "D";
        case newSE:
            return "N";
        default:
            return "?";
    }
}

static stateEnum stateOf( char c ) {
    switch( c ) {
        case 'C':
            return completeSE;
        case 'I':
            return incompleteSE;
        case 'D':
            return deleteSE;
        case 'N':
            return newSE;
    }
    return noStateSE;
}

static std::string instText( SDAI_Application_instance * ai ) {
    std::ostringstream os;
    ai->STEPwrite( os, 0, 0 );
    return os.str();
}

static std::string dumpMgr( InstMgr & im, bool withText ) {
    std::ostringstream o;
    o << "[";
    int n = im.InstanceCount();
    for( int i = 0; i < n; i++ ) {
        MgrNode * mn = im.GetMgrNode( i );
        SDAI_Application_instance * ai = mn->GetApplication_instance();
        if( i ) {
            o << ",";
        }
        o << "{\"id\":" << ai->StepFileId() << ",\"name\":" << jesc( ai->IsComplex() ? "" : ( ai->EntityName() ? ai->EntityName() : "" ) )
          << ",\"state\":\"" << stateName( mn->CurrState() ) << "\""
          << ",\"complex\":" << ( ai->IsComplex() ? 1 : 0 );
        if( withText ) {
            o << ",\"text\":" << jesc( instText( ai ) );
        }
        o << "}";
    }
    o << "]";
    return o.str();
}

static std::string errJson( ErrorDescriptor & e ) {
    std::ostringstream o;
    o << "{\"sev\":" << ( int ) e.severity() << ",\"user\":" << jesc( e.UserMsg() ) << ",\"detail\":" << jesc( e.DetailMsg() ) << "}";
    return o.str();
}

static void emit( const std::string & s ) {
    std::cout.flush();
    std::cerr.flush();
    std::cout << "\n@@JSON " << s << std::endl;
}

static bool hasFlag( int argc, char ** argv, const char * f ) {
    for( int i = 2; i < argc; i++ ) {
        if( !strcmp( argv[i], f ) ) {
            return true;
        }
    }
    return false;
}

static std::vector<std::string> positional( int argc, char ** argv ) {
    std::vector<std::string> v;
    for( int i = 2; i < argc; i++ ) {
        if( argv[i][0] != '-' || argv[i][1] == 0 ) {
            v.push_back( argv[i] );
        }
    }
    return v;
}

// roundtrip F O1 O2 [-s]
static int cmdRoundtrip( int argc, char ** argv ) {
    std::vector<std::string> a = positional( argc, argv );
    bool strict = hasFlag( argc, argv, "-s" );
    std::ostringstream o;
    o << "{";
    {
        Registry registry( SchemaInit );
        InstMgr im;
        STEPfile sf( registry, im, "", strict );
        sf.ReadExchangeFile( a[0] );
        o << "\"read1\":" << errJson( sf.Error() ) << ",\"n1\":" << im.InstanceCount();
        Severity w = sf.WriteExchangeFile( a[1] );
        o << ",\"write1\":" << ( int ) w << ",\"write1err\":" << errJson( sf.Error() );
    }
    if( a.size() > 2 ) {
        Registry registry( SchemaInit );
        InstMgr im;
        STEPfile sf( registry, im, "", strict );
        sf.ReadExchangeFile( a[1] );
        o << ",\"read2\":" << errJson( sf.Error() ) << ",\"n2\":" << im.InstanceCount();
        Severity w = sf.WriteExchangeFile( a[2] );
        o << ",\"write2\":" << ( int ) w;
    }
    o << "}";
    emit( o.str() );
    return 0;
}

// read F [-s] [-w OUT]: severity, per instance state/text
static int cmdRead( int argc, char ** argv ) {
    std::vector<std::string> a = positional( argc, argv );
    bool strict = hasFlag( argc, argv, "-s" );
    bool working = hasFlag( argc, argv, "-W" );
    Registry registry( SchemaInit );
    InstMgr im;
    STEPfile sf( registry, im, "", strict );
    if( working ) {
        sf.ReadWorkingFile( a[0] );
    } else {
        sf.ReadExchangeFile( a[0] );
    }
    std::ostringstream o;
    o << "{\"read\":" << errJson( sf.Error() ) << ",\"errors\":" << sf.ErrorCount() << ",\"warnings\":" << sf.WarningCount();
    o << ",\"instances\":" << dumpMgr( im, true );
    if( a.size() > 1 ) {
        Severity w = working ? sf.WriteWorkingFile( a[1] ) : sf.WriteExchangeFile( a[1] );
        o << ",\"write\":" << ( int ) w;
    }
    o << "}";
    emit( o.str() );
    return 0;
}

// append OUT F1 F2 ... : ReadExchangeFile(F1), AppendExchangeFile(F2...), write OUT
static int cmdAppend( int argc, char ** argv ) {
    std::vector<std::string> a = positional( argc, argv );
    bool strict = hasFlag( argc, argv, "-s" );
    Registry registry( SchemaInit );
    InstMgr im;
    STEPfile sf( registry, im, "", strict );
    std::ostringstream o;
    o << "{\"steps\":[";
    for( size_t i = 1; i < a.size(); i++ ) {
        if( i == 1 ) {
            sf.ReadExchangeFile( a[i] );
        } else {
            sf.AppendExchangeFile( a[i] );
        }
        if( i > 1 ) {
            o << ",";
        }
        o << "{\"err\":" << errJson( sf.Error() ) << ",\"n\":" << im.InstanceCount() << ",\"maxid\":" << im.MaxFileId() << "}";
    }
    o << "]";
    Severity w = sf.WriteExchangeFile( a[0] );
    o << ",\"write\":" << ( int ) w << ",\"instances\":" << dumpMgr( im, false ) << "}";
    emit( o.str() );
    return 0;
}

// ws F STATES W1 W2 [W3]: read exchange file F, set states ("id:C,id:D,..."), WriteWorkingFile(W1),
//   fresh session ReadWorkingFile(W1), report states, WriteWorkingFile(W2); optionally a third cycle.
static int cmdWs( int argc, char ** argv ) {
    std::vector<std::string> a = positional( argc, argv );
    std::ostringstream o;
    o << "{";
    // -same: every reload goes into the session the file was saved from (same Registry, InstMgr and STEPfile objects), as an
    // editor does; otherwise every reload uses a fresh session
    bool sameSession = hasFlag( argc, argv, "-same" );
    Registry * registry0 = new Registry( SchemaInit );
    InstMgr * im0 = new InstMgr;
    STEPfile * sf0 = new STEPfile( *registry0, *im0, "", false );
    {
        InstMgr & im = *im0;
        STEPfile & sf = *sf0;
        sf.ReadExchangeFile( a[0] );
        o << "\"read0\":" << errJson( sf.Error() ) << ",\"before\":" << dumpMgr( im, false );
        std::string st = a[1];
        size_t p = 0;
        while( p < st.size() ) {
            size_t c = st.find( ':', p );
            if( c == std::string::npos ) {
                break;
            }
            int id = atoi( st.substr( p, c - p ).c_str() );
            char s = st[c + 1];
            MgrNode * mn = im.FindFileId( id );
            if( mn ) {
                im.ChangeState( mn, stateOf( s ) );
            }
            p = st.find( ',', c );
            if( p == std::string::npos ) {
                break;
            }
            p++;
        }
        o << ",\"assigned\":" << dumpMgr( im, false );
        Severity w = sf.WriteWorkingFile( a[2] );
        o << ",\"write1\":" << ( int ) w;
    }
    bool strictReload = hasFlag( argc, argv, "-s" );
    for( size_t k = 2; k + 1 < a.size(); k++ ) {
        if( sameSession ) {
            sf0->ReadWorkingFile( a[k] );
            o << ",\"read" << ( k - 1 ) << "\":" << errJson( sf0->Error() ) << ",\"after" << ( k - 1 ) << "\":" << dumpMgr( *im0, true );
            Severity w = sf0->WriteWorkingFile( a[k + 1] );
            o << ",\"write" << k << "\":" << ( int ) w;
            continue;
        }
        Registry registry( SchemaInit );
        InstMgr im;
        STEPfile sf( registry, im, "", strictReload );
        sf.ReadWorkingFile( a[k] );
        o << ",\"read" << ( k - 1 ) << "\":" << errJson( sf.Error() ) << ",\"after" << ( k - 1 ) << "\":" << dumpMgr( im, true );
        Severity w = sf.WriteWorkingFile( a[k + 1] );
        o << ",\"write" << k << "\":" << ( int ) w;
    }
    o << "}";
    emit( o.str() );
    return 0;   // (the first session's objects are left to the process exit on purpose)
}

static std::string refsJson( instanceRefs_t * refs ) {
    std::ostringstream o;
    o << "{";
    bool first = true;
    instanceRefs_t::cpair p = refs->begin();
    while( p.value != 0 ) {
        if( !first ) {
            o << ",";
        }
        first = false;
        o << "\"" << p.key << "\":[";
        for( size_t i = 0; i < p.value->size(); i++ ) {
            if( i ) {
                o << ",";
            }
            o << p.value->at( i );
        }
        o << "]";
        p = refs->next();
    }
    o << "}";
    return o.str();
}

// lazy F IDS ORDER: IDS = comma list of ids to query (typeFromFile, dependencies); ORDER = comma list of ids to load, in order
static int cmdLazy( int argc, char ** argv ) {
    std::vector<std::string> a = positional( argc, argv );
    lazyInstMgr * mgr = new lazyInstMgr;
    mgr->initRegistry( SchemaInit );
    mgr->openFile( a[0] );
    std::ostringstream o;
    o << "{\"total\":" << mgr->totalInstanceCount() << ",\"loaded0\":" << mgr->loadedInstanceCount();
    o << ",\"fwd\":" << refsJson( mgr->getFwdRefs() ) << ",\"rev\":" << refsJson( mgr->getRevRefs() );
    std::vector<unsigned long> ids, order;
    {
        std::stringstream ss( a.size() > 1 ? a[1] : "" );
        std::string t;
        while( std::getline( ss, t, ',' ) ) if( !t.empty() ) {
                ids.push_back( strtoul( t.c_str(), 0, 10 ) );
            }
        std::stringstream s2( a.size() > 2 ? a[2] : "" );
        while( std::getline( s2, t, ',' ) ) if( !t.empty() ) {
                order.push_back( strtoul( t.c_str(), 0, 10 ) );
            }
    }
    o << ",\"types\":{";
    for( size_t i = 0; i < ids.size(); i++ ) {
        const char * t = mgr->typeFromFile( ids[i] );
        o << ( i ? "," : "" ) << "\"" << ids[i] << "\":" << ( t ? jesc( t ) : "null" );
    }
    o << "},\"deps\":{";
    for( size_t i = 0; i < ids.size(); i++ ) {
        instanceSet * d = mgr->instanceDependencies( ids[i] );
        o << ( i ? "," : "" ) << "\"" << ids[i] << "\":[";
        if( d ) {
            bool f = true;
            for( instanceSet::const_iterator it = d->begin(); it != d->end(); ++it ) {
                o << ( f ? "" : "," ) << *it;
                f = false;
            }
            delete d;
        }
        o << "]";
    }
    o << "},\"loads\":[";
    for( size_t i = 0; i < order.size(); i++ ) {
        SDAI_Application_instance * ai = mgr->loadInstance( order[i] );
        o << ( i ? "," : "" ) << "{\"id\":" << order[i] << ",\"ok\":" << ( ai ? 1 : 0 );
        if( ai ) {
            o << ",\"fid\":" << ai->StepFileId() << ",\"text\":" << jesc( instText( ai ) );
        }
        o << ",\"loaded\":" << mgr->loadedInstanceCount() << "}";
    }
    o << "]}";
    emit( o.str() );
    // deliberately no delete mgr: destructor problems are not part of the observed property
    return 0;
}

static std::string idList( const iAstruct & ias, bool aggr ) {
    std::ostringstream o;
    o << "[";
    if( aggr ) {
        if( ias.a ) {
            EntityNode * en = ( EntityNode * ) ias.a->GetHead();
            bool f = true;
            while( en ) {
                o << ( f ? "" : "," ) << ( en->node ? en->node->StepFileId() : -1 );
                f = false;
                en = ( EntityNode * ) en->NextNode();
            }
        }
    } else if( ias.i ) {
        o << ias.i->StepFileId();
    }
    o << "]";
    return o.str();
}

// inverse F IDS : for each id x: loadInstance(x) then every inverse attribute by (owner entity, name): referrer ids
static int cmdInverse( int argc, char ** argv ) {
    std::vector<std::string> a = positional( argc, argv );
    lazyInstMgr * mgr = new lazyInstMgr;
    mgr->initRegistry( SchemaInit );
    mgr->openFile( a[0] );
    std::vector<unsigned long> ids;
    std::stringstream ss( a.size() > 1 ? a[1] : "" );
    std::string t;
    while( std::getline( ss, t, ',' ) ) if( !t.empty() ) {
            ids.push_back( strtoul( t.c_str(), 0, 10 ) );
        }
    std::ostringstream o;
    o << "{\"results\":[";
    for( size_t i = 0; i < ids.size(); i++ ) {
        SDAI_Application_instance * ai = mgr->loadInstance( ids[i] );
        o << ( i ? "," : "" ) << "{\"id\":" << ids[i] << ",\"ok\":" << ( ai ? 1 : 0 ) << ",\"inv\":[";
        if( ai ) {
            const SDAI_Application_instance::iAMap_t & m = ai->getInvAttrs();
            bool f = true;
            for( SDAI_Application_instance::iAMap_t::const_iterator it = m.begin(); it != m.end(); ++it ) {
                const Inverse_attribute * ia = it->first;
                bool aggr = ia->IsAggrType() != 0;
                o << ( f ? "" : "," ) << "{\"name\":" << jesc( ia->Name() ) << ",\"owner\":" << jesc( ia->Owner().Name() )
                  << ",\"for_entity\":" << jesc( ia->inverted_entity_id_() ? ia->inverted_entity_id_() : "" )
                  << ",\"for_attr\":" << jesc( ia->inverted_attr_id_() ? ia->inverted_attr_id_() : "" )
                  << ",\"aggr\":" << ( aggr ? 1 : 0 ) << ",\"ids\":" << idList( it->second, aggr ) << "}";
                f = false;
            }
        }
        o << "]}";
    }
    o << "]}";
    emit( o.str() );
    return 0;
}


static std::string typeRefJson( const TypeDescriptor * t ) {
    if( !t ) {
        return "null";
    }
    std::ostringstream o;
    std::string buf;
    o << "{\"name\":" << jesc( t->Name() ? t->Name() : "" ) << ",\"type\":" << ( int ) t->Type()
      << ",\"fund\":" << ( int ) t->FundamentalType() << ",\"nonref\":" << ( int ) t->NonRefType()
      << ",\"base\":" << ( int ) t->BaseType()
      << ",\"desc\":" << jesc( t->Description() ? t->Description() : "" ) << "}";
    return o.str();
}

static std::string typeJson( const TypeDescriptor * t, int depth = 0 ) {
    if( !t ) {
        return "null";
    }
    std::ostringstream o;
    o << "{\"name\":" << jesc( t->Name() ? t->Name() : "" ) << ",\"type\":" << ( int ) t->Type()
      << ",\"fund\":" << ( int ) t->FundamentalType() << ",\"nonref\":" << ( int ) t->NonRefType()
      << ",\"base\":" << ( int ) t->BaseType()
      << ",\"desc\":" << jesc( t->Description() ? t->Description() : "" );
    const TypeDescriptor * r = t->ReferentType();
    o << ",\"referent\":" << ( r && depth < 6 ? typeJson( r, depth + 1 ) : "null" );
    PrimitiveType ft = t->FundamentalType();
    if( ( ft == ENUM_TYPE ) && t->Type() != REFERENCE_TYPE ) {
        const EnumTypeDescriptor * et = dynamic_cast<const EnumTypeDescriptor *>( t );
        if( et ) {
            SDAI_Enum * e = const_cast<EnumTypeDescriptor *>( et )->CreateEnum();
            o << ",\"items\":[";
            if( e ) {
                for( int i = 0; i < e->no_elements(); i++ ) {
                    o << ( i ? "," : "" ) << jesc( e->element_at( i ) );
                }
                delete e;
            }
            o << "]";
        }
    }
    const SelectTypeDescriptor * st = dynamic_cast<const SelectTypeDescriptor *>( t );
    if( st ) {
        o << ",\"members\":[";
        TypeDescItr it( st->GetElements() );
        const TypeDescriptor * m;
        bool f = true;
        while( ( m = it.NextTypeDesc() ) != 0 ) {
            o << ( f ? "" : "," ) << jesc( m->Name() ? m->Name() : "" );
            f = false;
        }
        o << "]";
    }
    const AggrTypeDescriptor * at = dynamic_cast<const AggrTypeDescriptor *>( t );
    if( at ) {
        AggrTypeDescriptor * a = const_cast<AggrTypeDescriptor *>( at );
        o << ",\"b1\":" << a->Bound1() << ",\"b2\":" << a->Bound2() << ",\"b1type\":" << ( int ) a->Bound1Type() << ",\"b2type\":" << ( int ) a->Bound2Type()
          << ",\"unique\":" << a->UniqueElements().asInt() << ",\"elemtype\":" << ( int ) a->AggrElemType();
        ArrayTypeDescriptor * arr = dynamic_cast<ArrayTypeDescriptor *>( a );
        if( arr ) {
            o << ",\"optional\":" << arr->OptionalElements().asInt();
        }
    }
    o << "}";
    return o.str();
}

static std::string attrDescJson( const AttrDescriptor * ad ) {
    std::ostringstream o;
    o << "{\"name\":" << jesc( ad->Name() ) << ",\"owner\":" << jesc( ad->Owner().Name() )
      << ",\"optional\":" << ad->Optional().asInt() << ",\"unique\":" << ad->Unique().asInt()
      << ",\"attrtype\":" << ( int ) ad->AttrType() << ",\"derived\":" << ( int ) ad->Derived()
      << ",\"typename\":" << jesc( ad->TypeName() ) << ",\"domain\":" << typeJson( ad->DomainType() ) << "}";
    return o.str();
}

// dict : registry dump (schemas, entities, types) + attribute list of a fresh instance of every entity
static int cmdDict( int, char ** ) {
    Registry registry( SchemaInit );
    std::ostringstream o;
    o << "{\"schemas\":[";
    registry.ResetSchemas();
    const Schema * sc;
    bool f = true;
    while( ( sc = registry.NextSchema() ) != 0 ) {
        o << ( f ? "" : "," ) << jesc( sc->Name() );
        f = false;
    }
    o << "],\"entities\":[";
    registry.ResetEntities();
    const EntityDescriptor * ed;
    f = true;
    std::vector<std::string> names;
    while( ( ed = registry.NextEntity() ) != 0 ) {
        o << ( f ? "" : "," );
        f = false;
        names.push_back( ed->Name() );
        o << "{\"name\":" << jesc( ed->Name() ) << ",\"abstract\":" << ed->AbstractEntity().asInt() << ",\"extmap\":" << ed->ExtMapping().asInt();
        o << ",\"supertypes\":[";
        {
            EntityDescItr it( ed->Supertypes() );
            const EntityDescriptor * s;
            bool g = true;
            while( ( s = it.NextEntityDesc() ) != 0 ) {
                o << ( g ? "" : "," ) << jesc( s->Name() );
                g = false;
            }
        }
        o << "],\"subtypes\":[";
        {
            EntityDescItr it( ed->Subtypes() );
            const EntityDescriptor * s;
            bool g = true;
            while( ( s = it.NextEntityDesc() ) != 0 ) {
                o << ( g ? "" : "," ) << jesc( s->Name() );
                g = false;
            }
        }
        o << "],\"attrs\":[";
        {
            AttrDescItr it( ed->ExplicitAttr() );
            const AttrDescriptor * a;
            bool g = true;
            while( ( a = it.NextAttrDesc() ) != 0 ) {
                o << ( g ? "" : "," ) << attrDescJson( a );
                g = false;
            }
        }
        o << "],\"inverse\":[";
        {
            InverseAItr it( &( ed->InverseAttr() ) );
            const Inverse_attribute * a;
            bool g = true;
            while( ( a = it.NextInverse_attribute() ) != 0 ) {
                o << ( g ? "" : "," ) << "{\"name\":" << jesc( a->Name() ) << ",\"for_entity\":" << jesc( a->inverted_entity_id_() ? a->inverted_entity_id_() : "" )
                  << ",\"for_attr\":" << jesc( a->inverted_attr_id_() ? a->inverted_attr_id_() : "" )
                  << ",\"typename\":" << jesc( a->TypeName() ) << ",\"domain\":" << typeJson( a->DomainType() ) << "}";
                g = false;
            }
        }
        o << "]}";
    }
    o << "],\"types\":[";
    registry.ResetTypes();
    const TypeDescriptor * td;
    f = true;
    while( ( td = registry.NextType() ) != 0 ) {
        o << ( f ? "" : "," ) << typeJson( td );
        f = false;
    }
    o << "],\"instances\":[";
    f = true;
    for( size_t i = 0; i < names.size(); i++ ) {
        const EntityDescriptor * e2 = registry.FindEntity( names[i].c_str() );
        if( !e2 ) {
            continue;
        }
        o << ( f ? "" : "," ) << "{\"entity\":" << jesc( names[i] );
        f = false;
        SDAI_Application_instance * ai = registry.ObjCreate( names[i].c_str() );
        if( !ai || ai == ENTITY_NULL ) {
            o << ",\"created\":0}";
            continue;
        }
        o << ",\"created\":1,\"attrs\":[";
        for( int k = 0; k < ai->attributes.list_length(); k++ ) {
            STEPattribute & a = ai->attributes[k];
            o << ( k ? "," : "" ) << "{\"name\":" << jesc( a.Name() ) << ",\"owner\":" << jesc( a.getADesc()->Owner().Name() )
              << ",\"attrtype\":" << ( int ) a.getADesc()->AttrType() << ",\"derived\":" << ( a.IsDerived() ? 1 : 0 )
              << ",\"type\":" << ( int ) a.Type() << ",\"nonref\":" << ( int ) a.NonRefType() << "}";
        }
        o << "],\"text\":" << jesc( instText( ai ) ) << "}";
    }
    o << "]}";
    emit( o.str() );
    return 0;
}

int main( int argc, char ** argv ) {
    if( argc >= 2 && std::string( argv[1] ) == "dict" ) {
        return cmdDict( argc, argv );
    }
    if( argc < 3 ) {
        std::cerr << "usage: p21drv roundtrip|read|append|ws|lazy|inverse ..." << std::endl;
        return 2;
    }
    std::string c = argv[1];
    if( c == "roundtrip" ) {
        return cmdRoundtrip( argc, argv );
    }
    if( c == "read" ) {
        return cmdRead( argc, argv );
    }
    if( c == "append" ) {
        return cmdAppend( argc, argv );
    }
    if( c == "ws" ) {
        return cmdWs( argc, argv );
    }
    if( c == "lazy" ) {
        return cmdLazy( argc, argv );
    }
    if( c == "inverse" ) {
        return cmdInverse( argc, argv );
    }
    return 2;
}
