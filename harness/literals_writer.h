// Writer part of check C09.  Included only by literals_gen.h.
#ifndef LITERALS_WRITER_H
#define LITERALS_WRITER_H

// A writer case: kind + value in canonical text form
//   INTEGER: decimal; REAL/NUMBER: 16 hex digits (IEEE bits); STRING: exchange form; BINARY: content; ENUM family: item
//   name; REFERENCE: id
struct WTally {
    long cases, nontrivial;
    std::map<std::string, long> classes;
    std::map<std::string, FailRec> fails;
    std::vector<Example> samples, beyondBad;
    std::set<std::string> seen;
    WTally(): cases( 0 ), nontrivial( 0 ) {}
};

static double realOfBits( const std::string & bits ) {
    uint64_t u = strtoull( bits.c_str(), 0, 16 );
    double d;
    memcpy( &d, &u, 8 );
    return d;
}

static std::string fmt15( double d ) {
    char b[64];
    snprintf( b, sizeof b, "%.14E", d );
    return b;
}

static bool setValue( Kind k, STEPattribute * a, const std::string & v ) {
    switch( k ) {
        case K_INT: {
            SDAI_Integer x = strtol( v.c_str(), 0, 10 );
            a->Integer( &x );
            return true;
        }
        case K_REAL: {
            SDAI_Real x = realOfBits( v );
            a->Real( &x );
            return true;
        }
        case K_NUM: {
            SDAI_Real x = realOfBits( v );
            a->Number( &x );
            return true;
        }
        case K_STR: {
            SDAI_String s( v.c_str() );
            a->String( &s );
            return true;
        }
        case K_BIN:
            *a->Binary() = v.c_str();
            return true;
        case K_BOOL:
        case K_LOG:
        case K_ENUM:
            a->ptr.e->put( v.c_str() );
            return true;
        case K_REF: {
            MgrNode * mn = FX.im->FindFileId( atoi( v.c_str() ) );
            if( !mn ) {
                return false;
            }
            *( a->ptr.c ) = mn->GetSTEPentity();
            return true;
        }
        default:
            return false;
    }
}

struct WResult {
    std::string cls;
    std::vector<std::string> sigs;
    std::string detail, out;
};

static void runWriterCase( Kind k, const std::string & v, WResult & r ) {
    r.sigs.clear();
    r.detail.clear();
    const std::string K = KNAME[k];
    STEPattribute * a = FX.attr[k][0][0];
    STEPattribute * b = FX.attr[k][0][1];
    b->set_null();
    if( !setValue( k, a, v ) ) {
        r.cls = "excluded:cannot-set";
        return;
    }
    std::ostringstream os;
    a->STEPwrite( os );
    std::string out = os.str();
    r.out = out;
    std::string as = a->asStr();
    // 1. the token is in the kind's grammar and denotes the value
    Scan sc = rScan( k, out );
    std::string den;
    RefStatus st = RS_OK;
    bool conform = sc.ingr;
    bool denotes = false;
    if( conform ) {
        st = rDenote( k, out, den );
        if( k == K_REAL || k == K_NUM ) {
            denotes = ( st == RS_OK || st == RS_UNDERFLOW || st == RS_SENTINEL ) && fmt15( realOfBits( den ) ) == fmt15( realOfBits( v ) );
        } else {
            denotes = ( st == RS_OK || st == RS_SENTINEL ) && den == v;
        }
    }
    // 2. it reads back (through the sibling attribute) to the same value
    std::istringstream in( out + ",7" );
    b->STEPread( in, FX.im, 0, 0, true );
    Obs o;
    observe( k, b, o );
    std::string rest = restOf( in );
    bool rbAccepted = okSev( o.sev ) && !o.isnull;
    bool rbSame = false;
    if( rbAccepted ) {
        if( k == K_REAL || k == K_NUM ) {
            rbSame = fmt15( realOfBits( o.val ) ) == fmt15( realOfBits( v ) );
        } else {
            rbSame = o.val == v;
        }
    }
    // 3. the instance writer emits the same token
    setValue( k, a, v );
    std::ostringstream is;
    setValue( k, b, v );
    FX.holder[k][0]->StepFileId( 500 );
    FX.holder[k][0]->STEPwrite( is, 0, 0 );
    std::string itext = is.str();
    while( !itext.empty() && rSpace( itext[itext.size() - 1] ) ) {
        itext.resize( itext.size() - 1 );
    }
    std::string wantI = std::string( "#500=X_" ) + KENT[k] + "(" + out + "," + out + ");";
    if( !conform ) {
        r.sigs.push_back( "writer-" + K + "-nonconforming-token" );
    } else if( !denotes ) {
        r.sigs.push_back( "writer-" + K + "-token-denotes-other-value" );
    }
    if( !okSev( o.sev ) ) {
        r.sigs.push_back( "writer-" + K + "-output-rejected-by-reader" );
    } else if( !rbSame ) {
        r.sigs.push_back( "writer-" + K + ( o.isnull ? "-reads-back-unset" : "-reads-back-different" ) );
    } else if( rest != ",7" ) {
        r.sigs.push_back( "writer-" + K + "-readback-position" );
    }
    if( itext != wantI ) {
        r.sigs.push_back( "writer-" + K + "-instance-writer-differs" );
    }
    bool asConform = rScan( k, as ).ingr;
    r.cls = r.sigs.empty() ? ( K + ":written-conforming-and-read-back" ) : ( K + ":FAILURE" );
    r.detail = "value " + ( ( k == K_REAL || k == K_NUM ) ? showReal( v ) + " [" + v + "]" : "`" + v + "`" ) + " written as `" + out + "` (asStr `" + as + "`"
               + ( asConform ? "" : ", not a Part 21 token; unasserted" ) + "), instance writer `" + itext + "`, read back: severity " + sevName( o.sev ) + ", value " + showVal( k, o )
               + ", unread `" + rest + "`";
}

static std::string decl( long v ) {
    char b[32];
    snprintf( b, sizeof b, "%ld", v );
    return b;
}

static void wtally( WTally & T, Kind k, const std::string & v, bool nontrivial ) {
    if( !T.seen.insert( std::string( 1, ( char )( 'a' + k ) ) + v ).second ) {
        return;
    }
    if( ( k == K_INT && v == decl( LONG_MAX ) ) ) {
        T.classes["excluded:INTEGER-in-band-null-sentinel(LONG_MAX)"]++;
        return;
    }
    bool beyond = false;
    if( k == K_REAL || k == K_NUM ) {
        double d = realOfBits( v );
        if( d == ( double ) FLT_MIN ) {
            T.classes["excluded:REAL-in-band-null-sentinel(FLT_MIN)"]++;
            return;
        }
        // the property quantifies the writer over exponents -300..300; outside of it results are only counted
        beyond = d != 0.0 && ( fabs( d ) >= 1e301 || fabs( d ) < 1e-300 );
    }
    WResult r;
    noteCur( "W", k, 0, 0, "", v );
    runWriterCase( k, v, r );
    T.cases++;
    if( beyond ) {
        T.classes[std::string( KNAME[k] ) + ( r.sigs.empty() ? ":beyond-exponent-grid-ok(unasserted)" : ":beyond-exponent-grid-NOT-ok(unasserted)" )]++;
        if( !r.sigs.empty() && T.beyondBad.size() < 6 ) {
            Example e = { ( int ) k, 0, 0, "", v, r.detail };
            T.beyondBad.push_back( e );
        }
        return;
    }
    T.classes[r.cls]++;
    if( r.cls.compare( 0, 9, "excluded:" ) == 0 ) {
        return;
    }
    if( nontrivial ) {
        T.nontrivial++;
    }
    {
        std::string as = FX.attr[k][0][0]->asStr();
        T.classes[std::string( KNAME[k] ) + ( rScan( k, as ).ingr ? ":asStr-is-a-token(unasserted)" : ":asStr-is-not-a-token(unasserted)" )]++;
    }
    Example e = { ( int ) k, 0, 0, "", v, r.detail };
    for( size_t i = 0; i < r.sigs.size(); i++ ) {
        FailRec & fr = T.fails[r.sigs[i]];
        fr.count++;
        addExample( fr.ex, e, 4 );
    }
    if( r.sigs.empty() && T.samples.size() < 40 && ( T.cases % 97 == 1 ) ) {
        T.samples.push_back( e );
    }
}

static void writerGrid( WTally & T, int tier ) {
    // integers near powers of two and ten
    long sentinels = 0;
    for( int sign = 0; sign < 2; sign++ ) {
        for( int d = -2; d <= 2; d++ ) {
            for( int k = 0; k <= 64; k++ ) {
                __int128 v = ( ( __int128 ) 1 ) << k;
                v += d;
                if( sign ) {
                    v = -v;
                }
                if( v > ( __int128 ) LONG_MAX || v < ( __int128 ) LONG_MIN ) {
                    T.classes["excluded:not-a-64-bit-integer"]++;
                    continue;
                }
                if( v == ( __int128 ) LONG_MAX ) {
                    sentinels++;
                    continue;
                }
                wtally( T, K_INT, decl( ( long ) v ), true );
            }
            __int128 p = 1;
            for( int k = 0; k <= 19; k++, p *= 10 ) {
                __int128 v = p + d;
                if( sign ) {
                    v = -v;
                }
                if( v > ( __int128 ) LONG_MAX || v < ( __int128 ) LONG_MIN ) {
                    T.classes["excluded:not-a-64-bit-integer"]++;
                    continue;
                }
                wtally( T, K_INT, decl( ( long ) v ), true );
            }
        }
    }
    T.classes["excluded:INTEGER-in-band-null-sentinel(LONG_MAX)"] += sentinels;
    // reals: exponent grid x boundary mantissas
    static const char * const MANT[] = { "1", "1.0000000000000002", "1.00000000000001", "9.99999999999999", "9.999999999999999", "9.9999999999999995",
                                         "5", "1.5", "0.3333333333333333", "6.666666666666667", "1.23456789012345", "1.234567890123456", "1.2345678901234567",
                                         "7.0000000000001", "2.5", "4.9999999999999996", "1.000000000000005", "1.999999999999995", "3.141592653589793", 0
                                       };
    int estep = tier > 0 ? 1 : 1;
    for( int kk = 0; kk < 2; kk++ ) {
        Kind k = kk ? K_NUM : K_REAL;
        for( int e = -300; e <= 300; e += ( kk ? 7 : estep ) ) {
            for( int m = 0; MANT[m]; m++ ) {
                for( int sign = 0; sign < 2; sign++ ) {
                    char b[64];
                    snprintf( b, sizeof b, "%s%sE%d", sign ? "-" : "", MANT[m], e );
                    double d = strtod( b, 0 );
                    if( d == ( double ) FLT_MIN ) {
                        T.classes["excluded:REAL-in-band-null-sentinel(FLT_MIN)"]++;
                        continue;
                    }
                    wtally( T, k, bitsOf( d ), true );
                }
            }
        }
        // zeros, extremes, denormals, integer valued
        static const char * const EXTRA[] = { "0", "-0.0", "1.7976931348623157E308", "-1.7976931348623157E308", "2.2250738585072014E-308",
                                              "2.2250738585072011E-308", "4.9406564584124654E-324", "1.5E-323", "1.0E-310", "1.234567E-315",
                                              "1E15", "1E16", "123456789012345678", "999999999999999", "9999999999999995", "1E22", "1E23", "1E300", "1E308",
                                              "1E-307", "3E-308", "0.1", "0.5", "100", "1234.5", "1E-5", "1E-4", "0.0001234", "99999.9999999999", 0
                                            };
        for( int i = 0; EXTRA[i]; i++ ) {
            wtally( T, k, bitsOf( strtod( EXTRA[i], 0 ) ), true );
        }
        for( int p = -1074; p <= 1023; p += ( kk ? 13 : 1 ) ) {
            wtally( T, k, bitsOf( ldexp( 1.0, p ) ), true );
            wtally( T, k, bitsOf( -ldexp( 1.9999999999999998, p ) ), true );
        }
    }
    T.classes["excluded:REAL-in-band-null-sentinel(FLT_MIN)"] += 1;     // FLT_MIN itself is never written as a value
    // enumeration items
    for( int kk = 0; kk < 3; kk++ ) {
        Kind k = kk == 0 ? K_BOOL : kk == 1 ? K_LOG : K_ENUM;
        for( const char * const * it = itemsOf( k ); *it; it++ ) {
            wtally( T, k, *it, true );
        }
    }
    // references
    for( const int * p = TARGET_IDS; *p; p++ ) {
        wtally( T, K_REF, decl( *p ), true );
    }
    // strings (exchange form is what the library stores and what its API takes) and binaries
    static const char * const STRS[] = { "''", "'a'", "''''", "'it''s'", "'a''''b'", "'\\\\'", "'\\\\\\\\'", "'a\\\\''b'", "'\\S\\a'", "'\\S\\''", "'\\S\\\\'",
                                         "'\\PA\\'", "'\\X\\E9'", "'\\X2\\00E903A9\\X0\\'", "'\\X4\\0001F600\\X0\\'", "'/* no comment */'", "'a,b)c;#1=$*'",
                                         "' '", "'\"'", "'''a'''", "'\\\\S\\\\'", 0
                                       };
    for( int i = 0; STRS[i]; i++ ) {
        wtally( T, K_STR, STRS[i], true );
    }
    static const char * const BINS[] = { "0", "1", "3", "0F", "1F", "2A5", "3FFFF", "00", "0123456789ABCDEF", "10", 0 };
    for( int i = 0; BINS[i]; i++ ) {
        wtally( T, K_BIN, BINS[i], true );
    }
}

static void writeWTally( const std::string & out, const WTally & T, const std::string & extra ) {
    std::ostringstream o;
    o << "{\"cases\":" << T.cases << ",\"nontrivial\":" << T.nontrivial << ",\"classes\":{";
    bool first = true;
    for( std::map<std::string, long>::const_iterator it = T.classes.begin(); it != T.classes.end(); ++it ) {
        o << ( first ? "" : "," ) << jesc( "writer:" + it->first ) << ":" << it->second;
        first = false;
    }
    o << "},\"failures\":{";
    first = true;
    for( std::map<std::string, FailRec>::const_iterator it = T.fails.begin(); it != T.fails.end(); ++it ) {
        o << ( first ? "" : "," ) << jesc( it->first ) << ":{\"count\":" << it->second.count << ",\"examples\":[";
        for( size_t i = 0; i < it->second.ex.size(); i++ ) {
            o << ( i ? "," : "" ) << exampleJson( it->second.ex[i] );
        }
        o << "]}";
        first = false;
    }
    o << "},\"samples\":{\"writer\":[";
    for( size_t i = 0; i < T.samples.size(); i++ ) {
        o << ( i ? "," : "" ) << exampleJson( T.samples[i] );
    }
    o << "],\"writer-beyond-exponent-grid-NOT-ok(unasserted)\":[";
    for( size_t i = 0; i < T.beyondBad.size(); i++ ) {
        o << ( i ? "," : "" ) << exampleJson( T.beyondBad[i] );
    }
    o << "]},\"nt_hashes\":[]" << extra << "}\n";
    std::string tmp = out + ".tmp";
    FILE * f = fopen( tmp.c_str(), "w" );
    if( !f ) {
        die( "cannot write " + tmp );
    }
    fputs( o.str().c_str(), f );
    fclose( f );
    rename( tmp.c_str(), out.c_str() );
}

static int cmdWriter( int argc, char ** argv ) {
    if( argc < 5 ) {
        die( "writer: arguments" );
    }
    std::string out = argv[2];
    int tier = atoi( argv[3] );
    long want = atol( argv[4] );
    silenceLibrary();
    setupFixtures();
    openCur( out );
    WTally T;
    writerGrid( T, tier );
    long grid = T.cases;
    long produced = 0;
    rc::check( [&]() {
        if( produced >= want ) {
            return;
        }
        produced++;
        switch( RR( 0, 6 ) ) {
            case 0: {
                long v = *rc::gen::arbitrary<long>();
                if( RR( 0, 2 ) ) {
                    v >>= RR( 0, 63 );
                }
                if( v == LONG_MAX ) {
                    T.classes["excluded:INTEGER-in-band-null-sentinel(LONG_MAX)"]++;
                    return;
                }
                wtally( T, K_INT, decl( v ), true );
                break;
            }
            case 1:
            case 2: {
                uint64_t u = *rc::gen::arbitrary<uint64_t>();
                double d;
                memcpy( &d, &u, 8 );
                if( RR( 0, 3 ) == 0 ) {
                    d = strtod( genReal( false ).c_str(), 0 );
                }
                if( std::isnan( d ) || std::isinf( d ) ) {
                    T.classes["excluded:REAL-nan-or-infinity-has-no-token"]++;
                    return;
                }
                if( d == ( double ) FLT_MIN ) {
                    T.classes["excluded:REAL-in-band-null-sentinel(FLT_MIN)"]++;
                    return;
                }
                wtally( T, RR( 0, 4 ) ? K_REAL : K_NUM, bitsOf( d ), true );
                break;
            }
            case 3: {
                std::string s = genString();
                if( !rScan( K_STR, s ).ingr ) {
                    T.classes["excluded:STRING-not-in-exchange-form"]++;
                    return;
                }
                wtally( T, K_STR, s, true );
                break;
            }
            case 4: {
                std::string s = genBinary();
                if( !rScan( K_BIN, s ).ingr ) {
                    T.classes["excluded:BINARY-not-a-binary-value"]++;
                    return;
                }
                wtally( T, K_BIN, s.substr( 1, s.size() - 2 ), true );
                break;
            }
            default: {
                Kind k = RR( 0, 2 ) ? K_ENUM : ( RR( 0, 2 ) ? K_LOG : K_BOOL );
                const char * const * it = itemsOf( k );
                int n = 0;
                while( it[n] ) {
                    n++;
                }
                wtally( T, k, it[RR( 0, n )], true );
                break;
            }
        }
    } );
    std::ostringstream x;
    x << ",\"grid_cases\":" << grid << ",\"random_cases\":" << ( T.cases - grid );
    CUR[0] = 0;
    writeWTally( out, T, x.str() );
    return 0;
}

static int cmdWone( int argc, char ** argv ) {
    if( argc < 4 ) {
        die( "wone: arguments" );
    }
    Kind k = ( Kind ) atoi( argv[2] );
    std::string v = unhex( argv[3] );
    silenceLibrary();
    setupFixtures();
    WResult r;
    runWriterCase( k, v, r );
    std::ostringstream o;
    o << "{\"class\":" << jesc( r.cls ) << ",\"fail\":" << ( r.sigs.empty() ? "false" : "true" ) << ",\"sigs\":[";
    for( size_t i = 0; i < r.sigs.size(); i++ ) {
        o << ( i ? "," : "" ) << jesc( r.sigs[i] );
    }
    o << "],\"detail\":" << jesc( r.detail ) << "}";
    printf( "@@JSON %s\n", o.str().c_str() );
    fflush( stdout );
    return 0;
}

#endif
