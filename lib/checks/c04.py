"""C04 - all EXPRESS tools give the same, correct verdict.

Generated: valid schemas (language profile + codegen profile + attribute-free codegen profile, valid by construction), the valid
'warning cocktail' of each, and single-fault mutants in exactly the classes the statement lists (lib/mutate_exp.py templates with
`listed`, in-situ and stand-alone, at a PRNG-chosen declaration position) + certainly-ungrammatical edits.
Executed: check-express, exppp, exp2cxx, exp2python (plain build), each in an empty scratch directory.
Oracle: see RULE."""
import json
import os
import random
import re
import shutil
import subprocess
import time

import build
import common
import c20_front as F
import mutate_exp as M

PROP = "C04"
LEVEL = "fault_enumeration"
RULE = ("Enumeration: every generated valid base schema (Hypothesis: explang language profile incl. multi-schema USE/REFERENCE, expgen codegen "
        "profile, expgen without attributes) x {unchanged, warning cocktail, every listed fault class in-situ and stand-alone at a PRNG-chosen "
        "declaration position, k certainly-ungrammatical edits, 2 unlisted error faults} x {check-express, exppp (default and -o), exp2cxx, "
        "exp2python}, each run in an empty directory. Oracle: valid => exit 0 and no ERROR diagnostic from all four; listed fault (LibErrors "
        "severity ERROR/EXIT) => every tool ends by exit (not by a signal) with status != 0, prints >= 1 ERROR diagnostic and none of the "
        "success banners ('No errors in input', 'Resolution successful', 'Finished writing files', 'Done.', 'writing schema file'); every run: "
        "status != 0 <=> an ERROR diagnostic was printed (runs ended by a signal are judged by the first two rules only; for unlisted faults "
        "they are counted, not asserted - C06 owns them). The repo's unitary schemas are used as seeds for the differential part only (four "
        "equal verdicts). Non-trivial = mutant; distinct by hash(text); (fault class, declaration kind) histogram in classes.")

BANNERS = ("No errors in input", "Resolution successful", "Finished writing files", "Writing python module...Done", "writing schema file")
NOATTR_CFG = {"min_attrs": 0, "max_attrs": 0, "p_derived": 0, "p_inverse": 0, "p_redecl": 0, "p_unique": 0, "p_where": 0, "max_ent": 7, "max_typ": 5}
F9_SIG = "exp2python-crash-strdup"
TIMEOUT = 300      # wall-clock guard per tool run: hitting it without using CPU_LIMIT seconds of CPU is "inconclusive", never a verdict
CPU_LIMIT = 12     # CPU seconds (generated inputs take milliseconds); a hit is re-run three times before it counts


def agg_rep_expr(text):
    """shape of finding 'agg-rep-expr': an aggregate initialiser whose repetition count ([elem : count]) is not an integer literal"""
    toks = M.tokenize(text)
    for i, t in enumerate(toks):
        if t.text != "[" or i == 0:
            continue
        prev = toks[i - 1]
        if prev.kind == "id" or prev.text in ("]", ")") or (prev.kind == "kw" and prev.low in ("list", "set", "bag", "array", "self")):
            continue        # type bounds or an index
        depth, j = 0, i
        while j < len(toks):
            x = toks[j]
            if x.text in ("[", "("):
                depth += 1
            elif x.text in ("]", ")"):
                depth -= 1
                if depth == 0:
                    break
            elif x.text == ":" and depth == 1:
                k = j + 1
                if not (k + 1 < len(toks) and toks[k].kind == "int" and toks[k + 1].text in (",", "]")):
                    return True
            j += 1
    return False


# shapes of open findings: a failing valid case whose text has the shape gets the specific signature; bases with the shape are
# excluded by construction (except probes) while the finding is open
SHAPES = {"valid-rejected:PE067": ("agg-rep-expr", agg_rep_expr)}


def has_attribute(text):
    sc = M.scan(text)
    if not sc.ok:
        return True
    for s in sc.schemas:
        for e in s.entities:
            if e.attrs or e.redeclares or "derive" in e.sections or "inverse" in e.sections:
                return True
    return False


class Case:
    def __init__(self, kind, text, cls=None, decl=None, template=None, expect=None):
        self.kind, self.text, self.cls, self.decl, self.template, self.expect = kind, text, cls, decl, template, expect


def run_all(table, sc, text, tools, exppp_o, tag):
    """-> {tool: dict(status, rc, sig, errors, banners, files, err, out)}"""
    p = sc.put("%s.exp" % tag, text)
    res = {}
    for t in tools:
        d = sc.fresh("w")
        args = F.tool_args(t, p) if (t != "exppp" or exppp_o) else [p]
        r = F.run_tool(build.tool("plain", t), args, cwd=d, timeout=TIMEOUT, cpu_limit=CPU_LIMIT, light=True)
        ds, oth = F.parse_stderr(table, r.err, p)
        ds2, _ = F.parse_stderr(table, r.out, p)
        errs = [x for x in ds + ds2 if x.tag == "ERROR"]
        both = r.out + "\n" + r.err
        res[t] = {"status": r.status, "rc": r.rc, "sig": r.sig, "timeout": r.timeout, "cpu_exceeded": r.cpu_exceeded, "flood": r.flood, "errors": len(errs),
                  "warnings": len([x for x in ds if x.tag == "WARNING"]),
                  "codes": sorted(set(x.num for x in errs)), "banners": [b for b in BANNERS if b in both], "files": len(os.listdir(d)),
                  "err": r.err[-600:], "out": r.out[-300:]}
        shutil.rmtree(d, ignore_errors=True)
    try:
        os.remove(p)
    except OSError:
        pass
    return res


def judge(case, res, table):
    """-> [(sig, detail, tool)]"""
    probs = []
    for t, r in res.items():
        label = "%s: %s, %d ERROR diagnostics" % (t, r["status"], r["errors"])
        if r["timeout"]:
            if r.get("flood"):
                probs.append(("unbounded-output:" + t, "%s printed more than %d MB on a generated input" % (t, F.OUTPUT_CAP >> 20), t))
            elif r["cpu_exceeded"]:
                probs.append(("no-termination:" + t, "%s used more than %d s of CPU on a generated input without ending" % (t, CPU_LIMIT), t))
            else:
                probs.append(("inconclusive-wall-timeout", label, t))
            continue
        if case.kind in ("valid", "cocktail"):
            if r["sig"]:
                probs.append(("valid-signal", "valid schema: %s; stderr: %s" % (label, r["err"][-300:]), t))
            elif r["rc"] != 0 or r["errors"]:
                probs.append(("valid-rejected:" + ",".join("PE%03d" % c for c in r["codes"][:3]), "valid schema: %s; stderr: %s" % (label, r["err"][-400:]), t))
        elif case.kind == "listed":
            if r["sig"]:
                probs.append(("fault-signal:%s" % case.cls, "%s fault: %s; stderr: %s" % (case.cls, label, r["err"][-300:]), t))
            elif r["rc"] == 0:
                probs.append(("fault-accepted:%s" % case.cls, "%s fault: %s; output: %s" % (case.cls, label, (r["out"] + r["err"])[-300:]), t))
            else:
                if r["errors"] == 0:
                    probs.append(("fault-rejected-without-error-diagnostic:%s" % case.cls, "%s fault: %s; stderr: %s" % (case.cls, label, r["err"][-300:]), t))
                if r["banners"]:
                    probs.append(("fault-success-banner:%s" % case.cls, "%s fault: %s but printed %s" % (case.cls, label, r["banners"]), t))
        if not r["sig"] and not r["timeout"] and (r["rc"] != 0) != (r["errors"] > 0):
            probs.append(("status-vs-error", "%s [%s] exit status %s but %d ERROR diagnostics (%d warnings); stderr: %s"
                          % (t, case.kind, r["rc"], r["errors"], r["warnings"], r["err"][-300:]), t))
    if case.kind == "seed":
        for t, r in res.items():
            if r["sig"]:
                probs.append(("valid-signal", "shipped schema: %s: %s; stderr: %s" % (t, r["status"], r["err"][-300:]), t))
        verdicts = set((r["rc"] != 0) for r in res.values() if not r["sig"])
        if len(verdicts) > 1:
            probs.append(("seed-verdicts-differ", "shipped schema: %s" % {t: r["status"] for t, r in res.items()}, "all"))
    return probs


def crash_frame(tool, text, exppp_o):
    """root cause bucket of a crash: innermost frame inside the repository's sources (gdb, plain build has -g)"""
    sc = F.Scratch("c04_gdb_%d" % os.getpid())
    try:
        p = sc.put("crash.exp", text)
        d = sc.fresh("g")
        args = F.tool_args(tool, p) if (tool != "exppp" or exppp_o) else [p]
        try:
            g = subprocess.run(["gdb", "-batch", "-ex", "set disable-randomization off", "-ex", "run", "-ex", "bt 40", "--args", build.tool("plain", tool)] + args, cwd=d,
                               capture_output=True, timeout=120)
        except (subprocess.TimeoutExpired, OSError):
            return "?"
        out = g.stdout.decode("latin-1")
        for m in re.finditer(r"#\d+\s+(?:0x[0-9a-f]+ in )?(\w+) \([^\n]*?\) at ([^\s:]+):\d+", out):
            fn, path = m.group(1), m.group(2)
            if "/src/" in path and fn not in ("ERRORabort",):
                return fn
        return "?"
    finally:
        sc.close()


def f9_probe():
    """does the tree still have finding F9?  exp2python on the smallest schema with one attribute"""
    table = F.ErrTable()
    sc = F.Scratch("c04_f9_%d" % os.getpid())
    try:
        res = run_all(table, sc, "SCHEMA f9probe;\nENTITY e;\n  a : INTEGER;\nEND_ENTITY;\nEND_SCHEMA;\n", ["exp2python"], True, "f9")
        return bool(res["exp2python"]["sig"])
    finally:
        sc.close()


def _nt_flagdir():
    return os.path.join(common.WORK, "run", "c04_nt_flags")


def _nt_count(tool, cls):
    try:
        return len([f for f in os.listdir(_nt_flagdir()) if f.startswith("%s|%s|" % (tool, cls))])
    except OSError:
        return 0


def _nt_flag(tool, cls, idx, k):
    try:
        open(os.path.join(_nt_flagdir(), "%s|%s|%d_%d" % (tool, cls, idx, k)), "w").close()
    except OSError:
        pass


def work_base(arg):
    idx, src, tier, seed, f9_known, f9_present = arg
    table = F.ErrTable()
    sc = F.Scratch("c04_%d" % idx)
    ev = common.Evidence(PROP, LEVEL, tier, seed, RULE)
    fails = []
    rnd = random.Random("%s|c04" % src["rseed"])
    try:
        base = src["text"]
        cases = []
        if src["origin"] == "unitary":
            cases.append(Case("seed", base))
        else:
            cases.append(Case("valid", base))
            ct = base
            for t in M.WARNING_TEMPLATES:
                m = M.make(t, ct, "%s|cocktail" % src["rseed"])
                if m is not None:
                    ct = m["text"]
            cases.append(Case("cocktail", ct))
            bscan = M.scan(base)
            listed = [t for t in sorted(M.TEMPLATES) if M.TEMPLATES[t]["listed"]]
            for tname in listed:
                seen = set()
                for insitu in (True, False):
                    m = M.make(tname, base, src["rseed"], insitu, sc=bscan)
                    if m is None or m["text"] in seen:
                        continue
                    seen.add(m["text"])
                    # every class the statement lists is asserted as "rejected" (all of them are SEVERITY_ERROR/EXIT in LibErrors[] on
                    # the calibrated tree; the severity is deliberately NOT read from the tree under test)
                    cases.append(Case("listed", m["text"], m["listed"], "%s/%s" % (m["flavour"], m["decl"]), tname, m["expect"]))
            for j in range(3 if tier == "quick" else 8):
                m = M.syntax_mutant(base, "%s|%d" % (src["rseed"], j), sc=bscan)
                if m is not None:
                    cases.append(Case("listed", m["text"], "syntax error", m["template"] + "/" + str(m["decl"]), m["template"], m["expect"]))
            unlisted = [t for t in sorted(M.TEMPLATES) if not M.TEMPLATES[t]["listed"] and not t.startswith("w-") and t != "non-ascii-byte"]
            for tname in rnd.sample(unlisted, 2 if tier == "quick" else 6):
                m = M.make(tname, base, src["rseed"], None, sc=bscan)
                if m is not None:
                    cases.append(Case("unlisted", m["text"], tname, m["decl"], tname, m["expect"]))
        for k, case in enumerate(cases):
            tools = list(F.TOOLS)
            if case.kind in ("valid", "cocktail", "seed") and f9_known and f9_present and has_attribute(case.text) and not (idx < 3 and case.kind == "valid"):
                tools.remove("exp2python")
                ev.exclude("exp2python not run on a valid schema with an entity attribute (finding %s), except probes" % F9_SIG)
            exppp_o = rnd.random() < 0.5
            for t in list(tools):
                # a tool already seen (4 times, by any worker) to spin on this fault class is not run on it again: every such
                # run costs CPU_LIMIT seconds and adds nothing to the verdict
                if _nt_count(t, str(case.cls).replace("/", "_")) >= 4:
                    tools.remove(t)
                    ev.exclude("%s not run on class '%s': already shown 4x not to terminate in this run" % (t, case.cls))
            res = run_all(table, sc, case.text, tools, exppp_o, "c%d_%d" % (idx, k))
            for t, r in res.items():
                if r["timeout"] and r["cpu_exceeded"]:
                    _nt_flag(t, str(case.cls).replace("/", "_"), idx, k)
            classes = ["kind:" + case.kind, "origin:" + src["origin"]]
            if case.cls:
                classes.append("class:" + case.cls)
                classes.append("class+decl:%s @ %s" % (case.cls, re.sub(r"\d+", "N", str(case.decl))))
            for t, r in res.items():
                classes.append("%s:%s" % (t, "signal" if r["sig"] else ("exit0" if r["rc"] == 0 else "exit-nonzero")))
                if r["warnings"] and not r["errors"] and r["rc"] == 0:
                    classes.append("warnings-only-accepted:" + t)
            if case.kind == "listed":
                codes = sorted(set(c for r in res.values() for c in r["codes"]))
                classes.append("rejected-by:" + ",".join("PE%03d" % c for c in codes[:3]))
            sample = None
            if case.kind == "listed" and len(ev.samples) < 2:
                sample = {"class": case.cls, "decl": case.decl, "verdicts": {t: r["status"] for t, r in res.items()},
                          "first_error": next((r["err"].split("\n")[0] for r in res.values() if r["errors"]), ""), "input_tail": case.text[-250:]}
            ev.case(common.chash(case.text), case.kind in ("listed", "unlisted"), classes=classes, sample=sample)
            ev.bump("tool-runs", len(res))
            for sig, det, tool in judge(case, res, table):
                if sig in SHAPES and SHAPES[sig][1](case.text):
                    sig = sig + ":" + SHAPES[sig][0]
                if f9_present and sig == "valid-signal" and tool == "exp2python":
                    sig = F9_SIG      # while F9 is in the tree every crash of exp2python on an accepted input is attributed to it: strdup() is
                    # also used for parameters and string literals, and the crashes cannot be told apart cheaply
                fails.append({"sig": sig, "what": det, "text": case.text, "kind": case.kind, "cls": case.cls, "tool": tool, "exppp_o": exppp_o,
                              "crash": ("signal" in sig), "f9_present": f9_present})
        return {"ev": ev.partial(), "fails": fails}
    finally:
        sc.close()


def recheck(f):
    """re-run one failing case; -> list of sigs"""
    table = F.ErrTable()
    sc = F.Scratch("c04_confirm_%d" % os.getpid())
    try:
        case = Case(f["kind"], f["text"], f.get("cls"))
        tools = list(F.TOOLS) if f["tool"] == "all" or f["kind"] == "seed" else [f["tool"]]
        res = run_all(table, sc, f["text"], tools, f.get("exppp_o", True), "confirm")
        out = []
        for sig, det, tool in judge(case, res, table):
            if sig in SHAPES and SHAPES[sig][1](f["text"]):
                sig = sig + ":" + SHAPES[sig][0]
            if f.get("f9_present") and sig == "valid-signal" and tool == "exp2python":
                sig = F9_SIG
            out.append((sig, det))
        return out
    finally:
        sc.close()


def main(tier, seed):
    build.ensure("plain")
    ev = common.Evidence(PROP, LEVEL, tier, seed, RULE)
    findings = common.Findings(os.environ.get("VERIF_FINDINGS"))
    f9_known = findings.match(PROP, F9_SIG) is not None
    f9_present = f9_probe()
    ev.extra["finding_F9_present_in_tree"] = f9_present
    n = 450 if tier == "quick" else 1800
    avoid = sorted(shape for base_sig, (shape, _p) in SHAPES.items() if findings.match(PROP, base_sig + ":" + shape))
    srcs = M.sources(common.sub_seed(seed, PROP, "schemas"), n, {"expgen": {"max_ent": 8, "max_typ": 6}, "explang": {"avoid": set(avoid)}})
    if avoid:
        ev.exclude("construct of an open finding not generated (explang avoid=%s); probes without the restriction: 8" % avoid)
        srcs += M.sources(common.sub_seed(seed, PROP, "probes"), 8, {}, profile="explang" if M.have_explang() else "expgen")
    srcs += M.sources(common.sub_seed(seed, PROP, "noattr"), n // 3, {"expgen": NOATTR_CFG}, profile="expgen")
    for s in srcs[-(n // 3):]:
        s["origin"] = "expgen-noattr"
    for p in M.shipped(common.REPO, "unitary"):
        try:
            srcs.append({"text": open(p, encoding="latin-1").read(), "origin": "unitary", "tags": [os.path.basename(p)],
                         "rseed": common.sub_seed(seed, PROP, os.path.basename(p))})
        except OSError:
            pass
    ev.extra["schema_source"] = sorted(set(s["origin"] for s in srcs))
    for base_sig, (shape, pred) in SHAPES.items():
        if findings.match(PROP, base_sig + ":" + shape):
            keep, probes = [], 0
            for s_ in srcs:
                if s_["origin"] != "unitary" and pred(s_["text"]):
                    probes += 1
                    if probes > 4:
                        ev.exclude("base schema with the shape of open finding '%s' (kept as probes: 4)" % shape)
                        continue
                keep.append(s_)
            srcs = keep
    shutil.rmtree(_nt_flagdir(), ignore_errors=True)
    os.makedirs(_nt_flagdir(), exist_ok=True)
    results = common.pmap(common.guarded(work_base), [(i, s, tier, seed, f9_known, f9_present) for i, s in enumerate(srcs)])
    rc = 0
    fails = []
    for status, res in results:
        if status != "ok":
            print("machinery error in a C04 worker:\n" + res)
            rc = 3
            continue
        ev.merge(res["ev"])
        fails += res["fails"]

    # root-cause buckets: crashes by innermost repository frame (one gdb run per pre-bucket), the rest by their signature
    for f in [f for f in fails if f["sig"] == "inconclusive-wall-timeout"]:
        ev.inconclusive.append("wall-clock guard hit without exceeding the CPU limit (machine load): " + f["what"][:150])
    fails = [f for f in fails if f["sig"] != "inconclusive-wall-timeout"]
    pre = {}
    for f in fails:
        pre.setdefault((f["sig"], f["tool"] if f["crash"] else ""), []).append(f)
    by_sig = {}
    for (sig, _tool), fs in pre.items():
        fs.sort(key=lambda f: len(f["text"]))
        if fs[0]["crash"] and sig != F9_SIG:
            fn = crash_frame(fs[0]["tool"], fs[0]["text"], fs[0]["exppp_o"])
            key = "crash:%s" % fn
            for f in fs:
                f["presig"] = sig
        else:
            key = sig
        by_sig.setdefault(key, []).extend(fs)
    for sig in sorted(by_sig):
        fs = sorted(by_sig[sig], key=lambda f: len(f["text"]))
        k = findings.match(PROP, sig)
        if k:
            ev.known_hit(k["id"], len(fs))
            continue
        f = fs[0]
        want = f.get("presig", f["sig"])

        budget = [30 if want.startswith("no-termination") else 400]

        def still(t, f=f, want=want, budget=budget):
            budget[0] -= 1
            if budget[0] < 0:
                return False
            g = dict(f)
            g["text"] = t
            return any(s == want for s, _d in recheck(g))
        if f["kind"] != "seed":
            try:
                f = dict(f)
                if f["kind"] in ("valid", "cocktail"):
                    f["text"] = F.minimise_decls(f["text"], still, max_rounds=2, lines=not want.startswith("no-termination"))
            except Exception as e:
                ev.inconclusive.append("minimisation failed: %s" % e)
        if not all(any(s == want for s, _d in recheck(f)) for _ in range(3)):
            ev.inconclusive.append("failure did not reproduce 3x: %s %s" % (sig, f["what"][:200]))
            continue
        d = common.save_replay(PROP, {"input.exp": f["text"].encode("latin-1"),
                                      "case.json": json.dumps({"kind": f["kind"], "cls": f.get("cls"), "tool": f["tool"], "exppp_o": f.get("exppp_o", True),
                                                               "sig": want, "f9_present": f.get("f9_present", False)})},
                               {"property": PROP, "sig": sig, "what": f["what"], "seed": seed, "tier": tier, "occurrences": len(fs),
                                "tools": sorted(set(x["tool"] for x in fs))})
        ev.violations += 1
        common.print_violation(PROP, d, "%s (%d cases, tools %s): %s" % (sig, len(fs), sorted(set(x["tool"] for x in fs)), f["what"]))
        rc = max(rc, 1)
    for fid in ev.known:
        e = [x for x in findings.entries if x.get("id") == fid]
        common.print_known(PROP, e[0]["what"] if e else fid)
    min_cases = 8000 if tier == "quick" else 30000
    if ev.evaluations < min_cases and rc == 0:
        print("machinery failure: only %d cases executed" % ev.evaluations)
        rc = 3
    listed_classes = sorted(set(M.TEMPLATES[t]["listed"] for t in M.TEMPLATES if M.TEMPLATES[t]["listed"])) + ["syntax error"]
    ev.extra["listed_classes_share"] = {c: round(ev.classes.get("class:" + c, 0) / max(1, ev.classes.get("kind:listed", 1)), 3) for c in listed_classes}
    ev.write()
    print("%s %s: %d bases, %d cases (%d tool runs), %d distinct non-trivial, %d violations, known=%s, %.0fs"
          % (PROP, tier, len(srcs), ev.evaluations, ev.classes.get("tool-runs", 0), len(ev.nontrivial), ev.violations, ev.known, time.time() - ev.t0))
    return rc


def replay(path):
    build.ensure("plain")
    c = json.load(open(os.path.join(path, "case.json")))
    c["text"] = open(os.path.join(path, "input.exp"), "rb").read().decode("latin-1")
    probs = recheck(c)
    hit = [p for p in probs if p[0] == c["sig"]] or probs
    if hit:
        common.print_violation(PROP, path, "; ".join("%s: %s" % p for p in hit[:4]))
        return 1
    print("replay passes")
    return 0
