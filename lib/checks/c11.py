"""C11 - inverse attributes resolved on load contain exactly the real referrers.
Generated: INVERSE-heavy schemas (several inverses per entity, inherited inverses, inverses onto the same and different
entities, single-valued / SET / LIST / BAG inverted attributes) x conforming populations x instances chosen for loading.
Oracle: after loadInstance(x) every inverse attribute of x (own or inherited), declared FOR a over entity E, holds exactly
the instances y with E among y's entity types whose attribute a refers to x (directly or as an aggregate element), each
once; a single-valued inverse holds that one y."""
import json
import os
import shutil

from hypothesis import strategies as st

import common
import farm
import farmcheck
import zoo
import expmodel
import p21gen
import p21render
from farm import Found
import c01

PROP = "C11"
RULE = ("Hypothesis draws a schema biased to INVERSE attributes, a conforming population and the instances x to load; the lazy "
        "loader loads each x (fresh process per x so that load order cannot mask anything) and every inverse attribute of x "
        "is compared with the referrers computed from the generator's model. Non-trivial: x has >= 2 inverse attributes, or "
        ">= 1 decoy (an instance that mentions x through another attribute, or whose type does not have the inverted "
        "attribute) AND >= 1 real referrer. Distinct by hash(schema, population, x).")

SCHEMA_CFG = {"redundant_supers": False, "p_inverse": 75, "max_inverse": 3, "min_ent": 3, "max_ent": 9, "p_redecl": 10,
              "attr_weights": {"simple": 20, "defined": 5, "enum": 5, "select": 5, "entity": 40, "agg": 25}}


def members_of(sch, inst):
    if inst["complex"]:
        return [p["ent"].lower() for p in inst["parts"]]
    return sch.p21_entity_order(inst["parts"][0]["ent"])


def slot_value(sch, inst, ent, attr):
    """Value of attribute `attr` declared by entity `ent` in instance inst (None if inst has no such attribute)."""
    ent, attr = ent.lower(), attr.lower()
    if inst["complex"]:
        mem = [p["ent"].lower() for p in inst["parts"]]
        for p in inst["parts"]:
            if p["ent"].lower() == ent:
                for sl, v in zip(sch.part_slots(ent, mem), p["vals"]):
                    if sl["name"] == attr:
                        return v
        return None
    leaf = inst["parts"][0]["ent"]
    for sl, v in zip(sch.p21_slots(leaf), inst["parts"][0]["vals"]):
        if sl["owner"] == ent and sl["name"] == attr:
            return v
    return None


def direct_refs(v):
    """ids referred to by an attribute value directly or as aggregate elements (any nesting of aggregates)."""
    if v is None:
        return []
    if v[0] == "ref":
        return [v[1]]
    if v[0] == "agg":
        out = []
        for x in v[1]:
            out += direct_refs(x)
        return out
    return []


def expected_inverses(sch, pop, x):
    """{(owner, name): sorted referrer ids}, plus info."""
    mem = members_of(sch, x)
    out = {}
    for m in mem:
        for ia in sch.ent(m)["inverse"]:
            refs = []
            decoys = 0
            for y in pop["instances"]:
                ym = members_of(sch, y)
                if ia["entity"].lower() in ym:
                    v = slot_value(sch, y, ia["entity"], ia["attr"])
                    if x["id"] in direct_refs(v):
                        refs.append(y["id"])
                        continue
                if x["id"] in p21gen.inst_refs(y):
                    decoys += 1
            cplx = sorted(r for r in set(refs) if next(i for i in pop["instances"] if i["id"] == r)["complex"])
            out[(m, ia["name"].lower())] = {"ids": sorted(set(refs)), "single": ia["agg"] is None, "decoys": decoys,
                                            "complex_referrer": bool(cplx), "complex_ids": cplx}
    return out


def oracle(lib, sch, pop, text, xid, wd, tag):
    f = os.path.join(wd, tag + ".p21")
    with open(f, "w") as fh:
        fh.write(text)
    try:
        x = [i for i in pop["instances"] if i["id"] == xid][0]
        exp = expected_inverses(sch, pop, x)
        r = farm.drv(lib, ["inverse", f, str(xid)], cwd=wd, timeout=30)
        if r["rc"] != 0 or r["json"] is None:
            return exp, ["lazy driver died loading #%d: rc=%s stderr=%s" % (xid, r["rc"], r["err"][-500:])], None
        res = r["json"]["results"][0]
        if not res["ok"]:
            return exp, ["loadInstance(#%d) returned null" % xid], None
        got = {}
        probs = []
        for g in res["inv"]:
            key = (g["owner"].lower(), g["name"].lower())
            if key in got:
                probs.append("inverse attribute %s.%s listed twice" % key)
            got[key] = g
        for key, e in exp.items():
            if key not in got:
                probs.append("#%d: inverse attribute %s.%s not present on the loaded instance" % ((xid,) + key))
                continue
            ids = got[key]["ids"]
            if e["single"] and len(e["ids"]) > 1:
                continue    # population violates the schema for this attribute: not asserted
            if sorted(ids) != e["ids"]:
                what = []
                if len(set(ids)) != len(ids):
                    what.append("duplicates")
                miss = sorted(set(e["ids"]) - set(ids))
                extra = sorted(set(ids) - set(e["ids"]))
                if miss:
                    what.append("missing %s" % miss)
                if extra:
                    what.append("extra %s" % extra)
                probs.append("#%d inverse %s.%s = %s, expected %s (%s)" % (xid, key[0], key[1], ids, e["ids"], ", ".join(what)))
        for key in got:
            if key not in exp:
                probs.append("#%d: unexpected inverse attribute %s.%s" % ((xid,) + key))
        return exp, probs, {k: v["ids"] for k, v in got.items()}
    finally:
        try:
            os.remove(f)
        except OSError:
            pass


@st.composite
def cases(draw, schema, cfg, probe_cfg=None):
    pop = draw(p21gen.populations(schema, cfg, probe_cfg))
    ids = [i["id"] for i in pop["instances"]]
    xs = []
    if ids:
        k = draw(st.integers(1, min(3, len(ids))))
        xs = draw(st.lists(st.sampled_from(ids), min_size=k, max_size=k, unique=True))
    return {"pop": pop, "layout": draw(st.integers(0, 10**6)), "xs": xs}


def case(ctx, c):
    pop = c["pop"]
    ev = ctx.ev
    for k, v in pop.pop("excluded", {}).items():
        ev.exclude(k, v)
    if pop.pop("probe", None):
        ev.bump("probe-population(complex instances allowed)")
    elif "complex-instance" in ctx.open_sigs:
        ev.exclude("complex instances in the population (finding F40)")
    sch = expmodel.Schema(ctx.lib["schema"])
    feats = c01.layout_feats(ctx) - {"comment-inner"}
    text = p21render.render(pop, c["layout"], feats=feats)
    ph = c01.pop_canon(ctx, pop)
    for xid in c["xs"]:
        tag = ctx.tag()
        exp, probs, got = oracle(ctx.lib, sch, pop, text, xid, ctx.wd, tag)
        xinst = [i for i in pop["instances"] if i["id"] == xid][0]
        n_inv = len(exp)
        real = sum(1 for e in exp.values() if e["ids"])
        decoys = max([e["decoys"] for e in exp.values()] + [0])
        nt = n_inv >= 2 or (real >= 1 and decoys >= 1)
        classes = ["inverse-attrs:%d" % min(n_inv, 4)]
        if real:
            classes.append("has-referrer")
        if decoys:
            classes.append("has-decoy")
        if any(e["single"] for e in exp.values()):
            classes.append("single-valued-inverse")
        if any(len(e["ids"]) >= 2 for e in exp.values()):
            classes.append("many-referrers")
        if any(e["complex_referrer"] for e in exp.values()):
            classes.append("complex-referrer")
        if xinst["complex"]:
            classes.append("x-is-complex")
        if any(e["single"] and len(e["ids"]) > 1 for e in exp.values()):
            ev.exclude("single-valued inverse with > 1 referrer in the population (population violates the schema; not asserted)")
        sample = None
        if nt and real and len(ev.samples) < 2:
            sample = {"x": xid, "expected": {"%s.%s" % k: v["ids"] for k, v in exp.items()}, "file": text[-700:]}
        ev.case(common.chash([ph, xid]), nt and n_inv > 0, classes=classes, sample=sample)
        if probs:
            sig = c01.signature(probs)
            if "complex-instance" in ctx.open_sigs and got is not None:
                # delta classification for finding F40 (complex instances are invisible to the inverse resolution):
                # x complex -> only "absent/too few"; x simple -> exactly the complex referrers are missing
                if xinst["complex"]:
                    explained = all(set(got.get(k, [])) <= set(e["ids"]) for k, e in exp.items()) and all(k in exp for k in got)
                else:
                    explained = all(k in got and sorted(got[k]) == sorted(set(e["ids"]) - set(e["complex_ids"])) for k, e in exp.items()
                                    if not (e["single"] and len(e["ids"]) > 1)) and any(e["complex_ids"] for e in exp.values())
                if explained and ctx.known("complex-instance"):
                    continue
            if ctx.known(sig):
                continue
            raise Found({"what": "; ".join(probs[:4]), "sig": sig, "pop": pop, "text": text, "x": xid})


def main(tier, seed):
    n_schemas, n_ex = (14, 200) if tier == "quick" else (60, 400)
    cfg = {"max_inst": 10, "min_inst": 2} if tier == "quick" else {"max_inst": 25, "min_inst": 2}
    probe = None
    if any(e["sig"] == "complex-instance" for e in common.Findings().open_for(PROP)):
        cfg["complex"] = False
        probe = {"complex": True}
    return farmcheck.run(PROP, "exploration", RULE, tier, seed, n_schemas, n_ex,
                         make_strategy=lambda lib: cases(lib["schema"], cfg, probe), case_fn=case,
                         confirm_fn=lambda lib, f, wd: bool(oracle(lib, expmodel.Schema(lib["schema"]), f["pop"], f["text"], f["x"], wd, "confirm")[1]),
                         replay_files=lambda f: {"input.p21": f["text"], "case.json": json.dumps({"pop": f["pop"], "x": f["x"]})},
                         schema_cfg=SCHEMA_CFG, extra_schemas=[zoo.ZOO],
                         schema_filter=lambda s: any(e["inverse"] for e in s["entities"]))


def replay(path):
    lib, root = farmcheck.replay_lib(path, name="c11-replay")
    if not lib["ok"]:
        common.print_violation(PROP, path, "schema does not build")
        return 1
    c = json.load(open(os.path.join(path, "case.json")))
    probs = oracle(lib, expmodel.Schema(lib["schema"]), c["pop"], open(os.path.join(path, "input.p21")).read(), c["x"], root, "replay")[1]
    shutil.rmtree(root, ignore_errors=True)
    if probs:
        common.print_violation(PROP, path, "; ".join(probs[:5]))
        return 1
    print("replay passes")
    return 0
