"""C01 - Part 21 exchange files survive read-then-write with every value intact.
Generated: schema (codegen profile) x conforming population x layout noise.
Oracle: read severity clean and p21read exits 0; written file is syntactically valid (independent parser);
model(written) == expected model (ids, order, entity keywords, every attribute value, header apart from time
stamp); second round trip byte-identical apart from the time stamp."""
import json
import os
import re
import shutil

from hypothesis import strategies as st

import common
import farm
import farmcheck
import zoo
import build
import expgen
import exprender
import expmodel
import p21gen
import p21render
import p21parse
from farm import Found

PROP = "C01"
RULE = ("Hypothesis draws an EXPRESS schema (codegen profile: simple/defined/enum/select types, 4 aggregate kinds incl. nested "
        "and bounded, optional/derived/redeclared attributes, single+multiple inheritance, ONEOF/AND/ANDOR), builds its "
        "library with exp2cxx+g++, then draws conforming populations (instances simple+externally mapped, ids "
        "dense/sparse/shuffled/large, every literal form) and a layout (white space/comments between tokens, complex part "
        "order). A case is non-trivial if the population has >=1 of: aggregate with >=2 elements, nested aggregate, typed "
        "select value, complex instance, string with escape, real in exponent form, forward reference, '*'. Distinct by "
        "hash(schema text, canonical population).")
NONTRIV = {"aggregate>=2", "nested-aggregate", "typed-select", "complex-instance", "string-escape", "real-exponent",
           "forward-ref", "star"}

SCHEMA_CFG = {"redundant_supers": False, "p_redecl": 45, "p_select_alias_pair": 60, "p_nested_select": 60, "min_typ": 3, "max_typ": 12,
              "type_weights": {"simple": 20, "alias": 18, "enum": 14, "enum_alias": 6, "agg": 12, "select": 30},
              "attr_weights": {"simple": 30, "defined": 10, "enum": 8, "select": 17, "entity": 15, "agg": 20}}

_TS = re.compile(r"(FILE_NAME\s*\(\s*'(?:[^']|'')*'\s*,\s*)'[^']*'")


def mask_ts(text):
    return _TS.sub(r"\1'<ts>'", text, count=1)


def oracle(lib, pop, text, workdir, tag, p21read=True):
    """Returns list of problem strings (empty = property held for this case)."""
    f = os.path.join(workdir, tag + ".p21")
    o1 = os.path.join(workdir, tag + ".o1")
    o2 = os.path.join(workdir, tag + ".o2")
    with open(f, "w") as fh:
        fh.write(text)
    for p in (o1, o2):
        if os.path.exists(p):
            os.remove(p)
    r = farm.drv(lib, ["roundtrip", f, o1, o2], cwd=workdir, timeout=20)
    probs = []
    if r["rc"] != 0 or r["json"] is None:
        return ["driver died: rc=%s stderr=%s" % (r["rc"], r["err"][-600:])]
    js = r["json"]
    if js["read1"]["sev"] < 2:
        probs.append("read of a conforming file reported severity %d: %s" % (js["read1"]["sev"], (js["read1"]["user"] + js["read1"]["detail"] + r["err"])[-600:]))
    if js["write1"] < 2:
        probs.append("write reported severity %d" % js["write1"])
    if p21read:
        rc, out, err, _ = common.run([lib["exes"]["p21read"], f, os.path.join(workdir, tag + ".pr")], cwd=workdir, timeout=120)
        if rc != 0:
            probs.append("p21read exit status %s on a conforming file: %s" % (rc, (out + err)[-400:]))
    try:
        w1 = open(o1, encoding="latin-1").read()
    except OSError:
        return probs + ["no output file written"]
    try:
        parsed = p21parse.parse(w1, allow_working=False)
    except p21parse.P21SyntaxError as e:
        return probs + ["written file is not valid Part 21: %s" % e]
    probs += p21gen.cmp_population(pop, parsed)
    if not probs:
        if "read2" not in js or js["read2"]["sev"] < 2:
            probs.append("re-reading the written file reported severity %s" % js.get("read2", {}).get("sev"))
        try:
            w2 = open(o2, encoding="latin-1").read()
            if mask_ts(w2) != mask_ts(w1):
                probs.append("second write differs from first: " + first_diff(mask_ts(w1), mask_ts(w2)))
        except OSError:
            probs.append("second output file missing")
    for p in (f, o1, o2, os.path.join(workdir, tag + ".pr")):
        try:
            os.remove(p)
        except OSError:
            pass
    return probs


def first_diff(a, b):
    la, lb = a.splitlines(), b.splitlines()
    for i, (x, y) in enumerate(zip(la, lb)):
        if x != y:
            return "line %d: %r vs %r" % (i + 1, x[:200], y[:200])
    return "length %d vs %d lines" % (len(la), len(lb))


def signature(probs):
    """Root-cause signature of a failing case, for the known-findings file."""
    p = probs[0]
    p = re.sub(r"#\d+", "#N", p)
    p = re.sub(r"\d+", "N", p)
    return p[:80]


PROBES = 6   # first cases per schema keep the shapes of open findings, to show they still reproduce


def pop_canon(ctx, pop):
    return common.chash([ctx.schema_hash, [[i["id"], i["complex"], [[p["ent"], [p21gen.canon_value(v) for v in p["vals"]]] for p in i["parts"]]] for i in pop["instances"]], pop["header"]])


def layout_feats(ctx):
    feats = set(p21render.ALL_LAYOUT)
    if "layout:comment-inner" in ctx.open_sigs and ctx.n > PROBES:
        feats.discard("comment-inner")
    return feats


def note_layout(ctx, used):
    if "suppressed:comment-inner" in used:
        ctx.ev.exclude("comment after the entity keyword of an instance (finding F20)")


def case(ctx, x):
    pop, layout = x
    tag = ctx.tag()
    ev = ctx.ev
    for k, v in pop.pop("excluded", {}).items():
        ev.exclude(k, v)
    if pop.pop("probe", False):
        ev.bump("probe-population")
    if not pop["instances"]:
        ev.bump("empty-population")
    feats = layout_feats(ctx)
    used = set()
    text = p21render.render(pop, layout, feats=feats, used=used)
    note_layout(ctx, used)
    pf = p21gen.features(pop)
    nt = bool(pf & NONTRIV)
    sample = None
    if nt and len(ev.samples) < 2:
        sample = {"schema": ctx.schema_text[:1500], "file": text[:1500]}
    ev.case(pop_canon(ctx, pop), nt, classes=["pop:" + f for f in pf] + ["layout:" + u for u in used if not u.startswith("suppressed")] + ([] if layout else ["layout:canonical"]), sample=sample)
    probs = oracle(ctx.lib, pop, text, ctx.wd, tag)
    if probs:
        # delta classification against open findings: remove exactly the shape the finding names
        if "comment-inner" in used and "layout:comment-inner" in ctx.open_sigs:
            t2 = p21render.render(pop, layout, feats=feats - {"comment-inner"})
            if not oracle(ctx.lib, pop, t2, ctx.wd, tag + "d"):
                ctx.known("layout:comment-inner")
                return
        if "pop:number-int-in-aggregate" in ctx.open_sigs and p21gen.number_int_in_agg(pop):
            pop2 = p21gen.without_number_int_in_agg(pop)
            if not oracle(ctx.lib, pop2, p21render.render(pop2, layout, feats=feats - {"comment-inner"}), ctx.wd, tag + "e"):
                ctx.known("pop:number-int-in-aggregate")
                return
        # F43: the reference is lost (null) - with the reader's message when the slot is in a simple instance or a head
        # part, silently when it is in another part of a complex instance (F36)
        # When the lost reference was a REQUIRED attribute the reader files the instance as incomplete, and the library then
        # refuses to write the exchange file at all ("VerifyInstances: 1 invalid instances in list"): accepted as a consequence
        # only together with the reader's F43 message.
        said = any("not a valid type for SELECT" in p for p in probs)
        if "pop:nested-select-complex-ref" in ctx.open_sigs \
                and all(("not a valid type for SELECT" in p) or re.search(r"expected #\d+, got \('null',\)$", p)
                        or p.startswith("p21read exit status") or p.startswith("read of a conforming file")
                        or (said and (p == "no output file written" or p.startswith("write reported severity"))) for p in probs) \
                and p21gen.has_nested_select_complex_ref(expmodel.Schema(ctx.lib["schema"]), pop):
            ctx.known("pop:nested-select-complex-ref")
            return
        sig = signature(probs)
        if ctx.known(sig):
            return
        raise Found({"what": "; ".join(probs[:4]), "sig": sig, "pop": pop, "layout": layout, "text": text})


def probe_cfg(findings):
    """Population shapes that are excluded by construction because of an open finding are still produced in the
    ~5% 'probe' populations, so that every run shows whether the finding still reproduces."""
    sigs = set(e["sig"] for e in findings.open_for(PROP))
    cfg = {}
    if "pop:number-int-in-aggregate" in sigs:
        cfg["allow_number_int_in_agg"] = True
    if "pop:nested-select-complex-ref" in sigs:
        cfg["allow_nested_select_complex_ref"] = True
    return cfg


def main(tier, seed):
    n_schemas, n_pop = (12, 200) if tier == "quick" else (80, 400)
    cfg_pop = {"max_inst": 10} if tier == "quick" else {"max_inst": 30, "max_agg_len": 40}
    return farmcheck.run(
        PROP, "exploration", RULE, tier, seed, n_schemas, n_pop,
        make_strategy=lambda lib: st.tuples(p21gen.populations(lib["schema"], cfg_pop, probe_cfg(common.Findings())), st.integers(0, 10**6)),
        case_fn=case,
        confirm_fn=lambda lib, f, wd: bool(oracle(lib, f["pop"], f["text"], wd, "confirm")),
        replay_files=lambda f: {"input.p21": f["text"], "pop.json": json.dumps(f["pop"])},
        schema_cfg=SCHEMA_CFG, extra_schemas=[zoo.ZOO])


def replay(path):
    lib, root = farmcheck.replay_lib(path, name="c01-replay")
    if not lib["ok"]:
        print("schema of the replay no longer builds: " + lib["log"][-500:])
        common.print_violation(PROP, path, "schema does not build")
        return 1
    pop = json.load(open(os.path.join(path, "pop.json")))
    text = open(os.path.join(path, "input.p21")).read()
    probs = oracle(lib, pop, text, root, "replay")
    shutil.rmtree(root, ignore_errors=True)
    if probs:
        common.print_violation(PROP, path, "; ".join(probs[:5]))
        return 1
    print("replay passes")
    return 0
