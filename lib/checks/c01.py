"""C01 - Part 21 exchange files survive read-then-write with every value intact.
Generated: schema (codegen profile) x conforming population x layout noise.
Oracle: read severity clean and p21read exits 0; written file is syntactically valid (independent parser);
model(written) == expected model (ids, order, entity keywords, every attribute value, header apart from time
stamp); second round trip byte-identical apart from the time stamp."""
import json
import os
import re
import shutil

from hypothesis import strategies as st

import common
import farm
import build
import expgen
import exprender
import p21gen
import p21render
import p21parse
from farm import Found

PROP = "C01"
RULE = ("Hypothesis draws an EXPRESS schema (codegen profile: simple/defined/enum/select types, 4 aggregate kinds incl. nested "
        "and bounded, optional/derived/redeclared attributes, single+multiple inheritance, ONEOF/AND/ANDOR), builds its "
        "library with exp2cxx+g++, then draws conforming populations (instances simple+externally mapped, ids "
        "dense/sparse/shuffled/large, every literal form) and a layout (white space/comments between tokens, complex part "
        "order). A case is non-trivial if the population has >=1 of: aggregate with >=2 elements, nested aggregate, typed "
        "select value, complex instance, string with escape, real in exponent form, forward reference, '*'. Distinct by "
        "hash(schema text, canonical population).")
NONTRIV = {"aggregate>=2", "nested-aggregate", "typed-select", "complex-instance", "string-escape", "real-exponent",
           "forward-ref", "star"}

_TS = re.compile(r"(FILE_NAME\s*\(\s*'(?:[^']|'')*'\s*,\s*)'[^']*'")


def mask_ts(text):
    return _TS.sub(r"\1'<ts>'", text, count=1)


def oracle(lib, pop, text, workdir, tag, p21read=True):
    """Returns list of problem strings (empty = property held for this case)."""
    f = os.path.join(workdir, tag + ".p21")
    o1 = os.path.join(workdir, tag + ".o1")
    o2 = os.path.join(workdir, tag + ".o2")
    with open(f, "w") as fh:
        fh.write(text)
    for p in (o1, o2):
        if os.path.exists(p):
            os.remove(p)
    r = farm.drv(lib, ["roundtrip", f, o1, o2], cwd=workdir, timeout=20)
    probs = []
    if r["rc"] != 0 or r["json"] is None:
        return ["driver died: rc=%s stderr=%s" % (r["rc"], r["err"][-600:])]
    js = r["json"]
    if js["read1"]["sev"] < 2:
        probs.append("read of a conforming file reported severity %d: %s" % (js["read1"]["sev"], (js["read1"]["user"] + js["read1"]["detail"] + r["err"])[-600:]))
    if js["write1"] < 2:
        probs.append("write reported severity %d" % js["write1"])
    if p21read:
        rc, out, err, _ = common.run([lib["exes"]["p21read"], f, os.path.join(workdir, tag + ".pr")], cwd=workdir, timeout=120)
        if rc != 0:
            probs.append("p21read exit status %s on a conforming file: %s" % (rc, (out + err)[-400:]))
    try:
        w1 = open(o1, encoding="latin-1").read()
    except OSError:
        return probs + ["no output file written"]
    try:
        parsed = p21parse.parse(w1, allow_working=False)
    except p21parse.P21SyntaxError as e:
        return probs + ["written file is not valid Part 21: %s" % e]
    probs += p21gen.cmp_population(pop, parsed)
    if not probs:
        if "read2" not in js or js["read2"]["sev"] < 2:
            probs.append("re-reading the written file reported severity %s" % js.get("read2", {}).get("sev"))
        try:
            w2 = open(o2, encoding="latin-1").read()
            if mask_ts(w2) != mask_ts(w1):
                probs.append("second write differs from first: " + first_diff(mask_ts(w1), mask_ts(w2)))
        except OSError:
            probs.append("second output file missing")
    for p in (f, o1, o2, os.path.join(workdir, tag + ".pr")):
        try:
            os.remove(p)
        except OSError:
            pass
    return probs


def first_diff(a, b):
    la, lb = a.splitlines(), b.splitlines()
    for i, (x, y) in enumerate(zip(la, lb)):
        if x != y:
            return "line %d: %r vs %r" % (i + 1, x[:200], y[:200])
    return "length %d vs %d lines" % (len(la), len(lb))


def signature(probs):
    """Root-cause signature of a failing case, for the known-findings file."""
    p = probs[0]
    p = re.sub(r"#\d+", "#N", p)
    p = re.sub(r"\d+", "N", p)
    return p[:80]


def _worker(arg):
    lib, seed, n_examples, cfg = arg
    ev = common.Evidence(PROP, "exploration", "quick", seed, RULE)
    findings = common.Findings()
    wd = os.path.join(lib["dir"], "w")
    os.makedirs(wd, exist_ok=True)
    schema_hash = common.chash(open(lib["exp"]).read())
    counter = [0]
    stags = expgen.tags(lib["schema"])

    strat = st.tuples(p21gen.populations(lib["schema"], cfg), st.integers(0, 10**6))

    open_sigs = set(e["sig"] for e in findings.open_for(PROP))
    PROBES = 6   # first cases per schema keep the shapes of open findings, to show they still reproduce

    def test(x):
        pop, layout = x
        counter[0] += 1
        excl = pop.pop("excluded", {})
        for k, v in excl.items():
            ev.exclude(k, v)
        if not pop["instances"]:
            ev.bump("empty-population")
        feats = set(p21render.ALL_LAYOUT)
        if "layout:comment-inner" in open_sigs and counter[0] > PROBES:
            feats.discard("comment-inner")
        used = set()
        text = p21render.render(pop, layout, feats=feats, used=used)
        if "suppressed:comment-inner" in used:
            ev.exclude("comment after the first '(' of an instance (finding F20)")
        pf = p21gen.features(pop)
        canon = common.chash([schema_hash, [[i["id"], i["complex"], [[p["ent"], [p21gen.canon_value(v) for v in p["vals"]]] for p in i["parts"]]] for i in pop["instances"]], pop["header"]])
        nt = bool(pf & NONTRIV)
        sample = None
        if nt and len(ev.samples) < 2:
            sample = {"schema": open(lib["exp"]).read()[:1500], "file": text[:1500]}
        ev.case(canon, nt, classes=["pop:" + f for f in pf] + ["layout:" + u for u in used if not u.startswith("suppressed")] + ([] if layout else ["layout:canonical"]), sample=sample)
        probs = oracle(lib, pop, text, wd, "c%d" % counter[0])
        if probs:
            # delta classification against open findings: remove exactly the shape the finding names
            if "comment-inner" in used and "layout:comment-inner" in open_sigs:
                t2 = p21render.render(pop, layout, feats=feats - {"comment-inner"})
                if not oracle(lib, pop, t2, wd, "d%d" % counter[0]):
                    ev.known_hit(findings.match(PROP, "layout:comment-inner")["id"])
                    return
            sig = signature(probs)
            k = findings.match(PROP, sig)
            if k:
                ev.known_hit(k["id"])
                return
            raise Found({"what": "; ".join(probs[:4]), "sig": sig, "pop": pop, "layout": layout, "text": text,
                         "schema_text": open(lib["exp"]).read(), "schema": lib["schema"]})

    found = farm.explore(test, strat, n_examples, seed)
    for t in stags:
        ev.bump("schema:" + t)
    ev.bump("schemas")
    shutil.rmtree(wd, ignore_errors=True)
    return {"ev": ev.partial(), "found": found, "idx": lib["idx"]}


def confirm(lib, payload, wd):
    for k in range(3):
        if not oracle(lib, payload["pop"], payload["text"], wd, "confirm%d" % k):
            return False
    return True


def main(tier, seed):
    n_schemas, n_pop = (10, 120) if tier == "quick" else (80, 400)
    cfg_pop = {"max_inst": 10} if tier == "quick" else {"max_inst": 30, "max_agg_len": 40}
    ev = common.Evidence(PROP, "exploration", tier, seed, RULE)
    findings = common.Findings()
    root = common.scratch("c01")
    schemas = farm.draw_schemas(common.sub_seed(seed, "c01-schemas"), n_schemas, {})
    libs = farm.build_all(schemas, root)
    good = [l for l in libs if l["ok"]]
    for l in libs:
        if not l["ok"]:
            ev.inconclusive.append("schema %d did not build (%s) - reported by C02, skipped here" % (l["idx"], l["stage"]))
    results = common.pmap(common.guarded(_worker), [(l, common.sub_seed(seed, "c01-pop", l["idx"]), n_pop, cfg_pop) for l in good])
    rc = 0
    for l, (status, res) in zip(good, results):
        if status != "ok":
            print("machinery error in worker for schema %d:\n%s" % (l["idx"], res))
            rc = 3
            continue
        ev.merge(res["ev"])
        f = res["found"]
        if f:
            wd = os.path.join(l["dir"], "confirm")
            os.makedirs(wd, exist_ok=True)
            if confirm(l, f, wd):
                d = common.save_replay(PROP, {"schema.exp": f["schema_text"], "input.p21": f["text"],
                                              "pop.json": json.dumps(f["pop"]), "schema.json": json.dumps(f["schema"])},
                                       {"property": PROP, "what": f["what"], "sig": f["sig"], "layout": f["layout"], "seed": seed})
                ev.violations += 1
                common.print_violation(PROP, d, f["what"])
                rc = max(rc, 1)
            else:
                ev.inconclusive.append("failure did not reproduce 3x: " + f["what"][:200])
    for fid, n in ev.known.items():
        e = [x for x in findings.entries if x.get("id") == fid]
        common.print_known(PROP, e[0]["what"] if e else fid)
    if ev.evaluations < 50 and rc == 0:
        print("machinery failure: only %d cases executed" % ev.evaluations)
        rc = 3
    ev.write()
    shutil.rmtree(root, ignore_errors=True)
    print("C01 %s: %d cases, %d distinct non-trivial, %d violations, %.0fs" % (tier, ev.evaluations, len(ev.nontrivial), ev.violations, __import__("time").time() - ev.t0))
    return rc


def replay(path):
    build.ensure("plain")
    root = common.scratch("c01-replay")
    sd = json.load(open(os.path.join(path, "schema.json")))
    lib = farm._build_one((0, sd, root, "plain", ("p21read", "p21drv"), open(os.path.join(path, "schema.exp")).read()))
    if not lib["ok"]:
        print("schema of the replay no longer builds: " + lib["log"][-500:])
        common.print_violation(PROP, path, "schema does not build")
        return 1
    pop = json.load(open(os.path.join(path, "pop.json")))
    text = open(os.path.join(path, "input.p21")).read()
    probs = oracle(lib, pop, text, root, "replay")
    shutil.rmtree(root, ignore_errors=True)
    if probs:
        common.print_violation(PROP, path, "; ".join(probs[:5]))
        return 1
    print("replay passes")
    return 0
