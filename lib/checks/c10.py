"""C10 - the lazy loader sees the same file as the eager reader.
Generated: (schema, conforming population with cycles/complex instances/strings and comments containing '#', '(', ';')
x a load order (with repetitions).
Oracle (differential against the eager reader AND against the model): index ids/keywords; fwd table = ids mentioned per
instance (multiset); rev table = exact transpose; instanceDependencies(i) = transitive (non-reflexive) closure of fwd;
loadInstance in any order, repeatedly, serialises identically to the eagerly read instance."""
import json
import os
import shutil

from hypothesis import strategies as st

import common
import farm
import farmcheck
import zoo
import p21gen
import p21render
import p21parse
from farm import Found
import c01
import c15

PROP = "C10"
RULE = ("Hypothesis draws schema, conforming population (reference cycles, self references, complex instances, strings "
        "containing #12 ( ) ; ' and comments containing instance-like text between instances) and a load order with "
        "repetitions; the lazy loader's index, forward/reverse tables, dependency sets and loaded instances are compared "
        "with the generator's model and with the eager reader's serialisation. Non-trivial: the population has a reference "
        "cycle or self reference, a '#' inside a string, or a complex instance, AND the load order is not ascending. Distinct "
        "by hash(schema, population, order).")


def closure(fwd, i):
    seen = set()
    todo = list(fwd.get(i, []))
    while todo:
        x = todo.pop()
        if x not in seen:
            seen.add(x)
            todo += fwd.get(x, [])
    return seen


def oracle(lib, pop, text, order, wd, tag):
    f = os.path.join(wd, tag + ".p21")
    with open(f, "w") as fh:
        fh.write(text)
    ids = [i["id"] for i in pop["instances"]]
    try:
        probs = []
        e = farm.drv(lib, ["read", f], cwd=wd, timeout=30)
        if e["rc"] != 0 or e["json"] is None or e["json"]["read"]["sev"] < 2:
            # the eager reader itself fails on this conforming file: that is C01's / C08's violation, and there is no
            # eager result to compare the lazy loader with
            return None
        eager = {i["id"]: i for i in e["json"]["instances"]}
        r = farm.drv(lib, ["lazy", f, ",".join(map(str, ids)), ",".join(map(str, order))], cwd=wd, timeout=30)
        if r["rc"] != 0 or r["json"] is None:
            return ["lazy driver died: rc=%s stderr=%s" % (r["rc"], r["err"][-500:])]
        lz = r["json"]
        model = {i["id"]: i for i in pop["instances"]}
        # index
        if lz["total"] != len(ids):
            probs.append("index: totalInstanceCount %d, expected %d" % (lz["total"], len(ids)))
        if sorted(eager) != sorted(ids):
            probs.append("eager reader loaded ids %s, model %s" % (sorted(eager), sorted(ids)))
        for i in ids:
            t = lz["types"].get(str(i))
            inst = model[i]
            if t is None:
                probs.append("index: #%d not found by the lazy loader" % i)
            elif not inst["complex"] and t != inst["parts"][0]["ent"].upper():
                probs.append("index: #%d has keyword %r, expected %r" % (i, t, inst["parts"][0]["ent"].upper()))
        # fwd / rev
        mfwd = {i: p21gen.inst_refs(model[i]) for i in ids}
        lfwd = {int(k): v for k, v in lz["fwd"].items()}
        lrev = {int(k): v for k, v in lz["rev"].items()}
        for i in ids:
            if sorted(lfwd.get(i, [])) != sorted(mfwd[i]):
                probs.append("fwd(#%d) = %s, expected %s" % (i, sorted(lfwd.get(i, [])), sorted(mfwd[i])))
        extra = [k for k in lfwd if k not in model]
        if extra:
            probs.append("fwd table has entries for unknown instances %s" % extra)
        mrev = {}
        for i in ids:
            for t in mfwd[i]:
                mrev.setdefault(t, []).append(i)
        for k in set(mrev) | set(lrev):
            if sorted(lrev.get(k, [])) != sorted(mrev.get(k, [])):
                probs.append("rev(#%d) = %s, expected %s" % (k, sorted(lrev.get(k, [])), sorted(mrev.get(k, []))))
        # dependencies: transitive, non-reflexive closure
        for i in ids:
            want = closure(mfwd, i)
            got = set(lz["deps"].get(str(i), []))
            if got != want:
                probs.append("instanceDependencies(#%d) = %s, expected %s" % (i, sorted(got), sorted(want)))
        # loads
        loaded_prev = lz["loaded0"]
        if lz["loaded0"] != 0:
            probs.append("loadedInstanceCount is %d before any load" % lz["loaded0"])
        seen = set()
        for k, ld in enumerate(lz["loads"]):
            i = ld["id"]
            seen.add(i)
            if not ld["ok"]:
                probs.append("loadInstance(#%d) returned null" % i)
                continue
            if ld["fid"] != i:
                probs.append("loadInstance(#%d) returned an instance with id %d" % (i, ld["fid"]))
            if i in eager and ld["text"] != eager[i]["text"]:
                probs.append("load %d: lazily loaded #%d serialises %r, eager %r" % (k, i, ld["text"][:200], eager[i]["text"][:200]))
            try:
                g = c15.parse_instance_texts([ld["text"]])[0]
                probs += ["lazily loaded #%d: %s" % (i, x) for x in p21gen.cmp_instance(model[i], g)]
            except p21parse.P21SyntaxError as ex:
                probs.append("lazily loaded #%d does not serialise to valid Part 21: %s" % (i, ex))
            if ld["loaded"] < loaded_prev or ld["loaded"] > len(ids) or ld["loaded"] < len(seen):
                probs.append("loadedInstanceCount %d after loading %s (before: %d, total %d)" % (ld["loaded"], sorted(seen), loaded_prev, len(ids)))
            loaded_prev = ld["loaded"]
        return probs
    finally:
        try:
            os.remove(f)
        except OSError:
            pass


@st.composite
def cases(draw, schema, cfg):
    pop = draw(p21gen.populations(schema, cfg))
    ids = [i["id"] for i in pop["instances"]]
    order = []
    if ids:
        n = draw(st.integers(1, min(12, 2 * len(ids))))
        order = draw(st.lists(st.sampled_from(ids), min_size=n, max_size=n))
    return {"pop": pop, "layout": draw(st.integers(0, 10**6)), "order": order}


def has_cycle(pop):
    fwd = {i["id"]: p21gen.inst_refs(i) for i in pop["instances"]}
    return any(i in closure(fwd, i) for i in fwd)


def case(ctx, x):
    pop = x["pop"]
    ev = ctx.ev
    for k, v in pop.pop("excluded", {}).items():
        ev.exclude(k, v)
    pop.pop("probe", None)
    tag = ctx.tag()
    feats = c01.layout_feats(ctx) - {"comment-inner"}
    used = set()
    text = p21render.render(pop, x["layout"], feats=feats, used=used)
    order = x["order"]
    cyc = has_cycle(pop)
    hash_in_string = any("#" in v[1] for i in pop["instances"] for p in i["parts"] for v in _strings(p["vals"]))
    cx = any(i["complex"] for i in pop["instances"])
    nt = (cyc or hash_in_string or cx) and order != sorted(order)
    classes = []
    if cyc:
        classes.append("reference-cycle")
    if hash_in_string:
        classes.append("hash-in-string")
    if cx:
        classes.append("complex-instance")
    if "comment-outer" in used:
        classes.append("comment-between-instances")
    if len(set(order)) < len(order):
        classes.append("repeated-load")
    if order != sorted(order):
        classes.append("non-ascending-order")
    sample = None
    if nt and len(ev.samples) < 2:
        sample = {"order": order, "file": text[-900:]}
    ev.case(common.chash([c01.pop_canon(ctx, pop), order]), nt, classes=classes, sample=sample)
    probs = oracle(ctx.lib, pop, text, order, ctx.wd, tag)
    if probs is None:
        ev.exclude("eager reader fails on the file (reported by C01/C08), no comparison possible")
        return
    if probs:
        sig = c01.signature(probs)
        if ctx.known(sig):
            return
        raise Found({"what": "; ".join(probs[:4]), "sig": sig, "pop": pop, "text": text, "order": order})


def _strings(vals):
    for v in vals:
        if v[0] == "s":
            yield v
        elif v[0] == "agg":
            for y in _strings(v[1]):
                yield y
        elif v[0] == "typed":
            for y in _strings([v[2]]):
                yield y


def main(tier, seed):
    n_schemas, n_ex = (14, 300) if tier == "quick" else (60, 500)
    cfg = {"max_inst": 10} if tier == "quick" else {"max_inst": 30}
    return farmcheck.run(PROP, "exploration", RULE, tier, seed, n_schemas, n_ex,
                         make_strategy=lambda lib: cases(lib["schema"], cfg), case_fn=case,
                         confirm_fn=lambda lib, f, wd: bool(oracle(lib, f["pop"], f["text"], f["order"], wd, "confirm")),
                         replay_files=lambda f: {"input.p21": f["text"], "case.json": json.dumps({"pop": f["pop"], "order": f["order"]})},
                         schema_cfg=c01.SCHEMA_CFG, extra_schemas=[zoo.ZOO])


def replay(path):
    lib, root = farmcheck.replay_lib(path, name="c10-replay")
    if not lib["ok"]:
        common.print_violation(PROP, path, "schema does not build")
        return 1
    c = json.load(open(os.path.join(path, "case.json")))
    probs = oracle(lib, c["pop"], open(os.path.join(path, "input.p21")).read(), c["order"], root, "replay")
    shutil.rmtree(root, ignore_errors=True)
    if probs:
        common.print_violation(PROP, path, "; ".join(probs[:5]))
        return 1
    print("replay passes")
    return 0
