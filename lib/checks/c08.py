"""C08 - complex instances are created iff the entity set is legal under the SUBTYPE/SUPERTYPE declarations.
Generated: inheritance graph of 2..8 entities with supertype expressions (c08gen) -> generated schema library;
for the graph ALL 2^n-1 non-empty subsets of entity names become the externally mapped instances of ONE Part 21 file
(#mask=(A(..)B(..)..);), and of a second file with the parts of every instance permuted and the instances shuffled.
Reference: two independent formulations (expmodel.Schema.legal_set = local predicate, complexref = constructive
ISO 10303-11 Annex B enumeration); graphs on which they differ for any subset are excluded and counted.
Oracle (|S| >= 2): instance created <=> legal(S); every created instance is complex and carries the model's values;
every refusal is an error of that instance only (the other instances are there, the run does not die, the error count
equals the number of refused instances and no error message names a created instance); permuting the parts changes
neither verdict nor written text.  Singletons are executed and reported, not asserted."""
import json
import os
import random
import re
import shutil
import time

from hypothesis import strategies as st

import build
import common
import farm
import farmcheck
import expmodel
import exprender
import complexref
import c08gen
import p21gen
import p21parse
import p21render
from farm import Found

PROP = "C08"
RULE = ("Hypothesis draws a subtype/supertype graph of 2..8 entities (tree, star, diamond, two roots joined by a multiply "
        "inheriting subtype, free DAG; expression per supertype over a subset of its direct subtypes, ONEOF/AND/ANDOR nested to "
        "depth 3, other subtypes implicit, ABSTRACT 30%, 0-2 simple attributes per entity; thorough tier additionally EVERY "
        "expression shape of depth <= 2 over <= 4 operands) and the library is generated and compiled for it. Per graph all "
        "2^n-1 subsets of the entity names are enumerated (exhaustive) and written as externally mapped instances, twice with "
        "different part orders; one case = (graph, subset, drawn orders+values). Two independent reference predicates must "
        "agree on every subset of the graph, otherwise the graph is excluded. A case is non-trivial if |S| >= 2 and the verdict "
        "is decided by a constraint: a legal S that is not just the ancestor chain of one entity, or an illegal S that is closed "
        "under supertypes. Distinct by hash(schema text, subset).")

HEAD = "ISO-10303-21;\nHEADER;\nFILE_DESCRIPTION((''),'2;1');\nFILE_NAME('','',(''),(''),'','','');\nFILE_SCHEMA(('%s'));\nENDSEC;\nDATA;\n"
TAIL = "ENDSEC;\nEND-ISO-10303-21;\n"
_ERRID = re.compile(r"ERROR[^\n]*instance #(\d+)")


# ---- model ----------------------------------------------------------------------------------------------------------------

def members_of(names, mask):
    return [names[i] for i in range(len(names)) if (mask >> i) & 1]


def _value(kind, optional, rnd):
    if optional and rnd.random() < 0.4:
        return ["null"]
    if kind == "INTEGER":
        return ["i", rnd.choice([0, 1, -1, rnd.randint(-99999, 99999)])]
    if kind == "REAL":
        return ["r", rnd.choice(["0.", "1.5", "-2.25", "%d.%d" % (rnd.randint(-999, 999), rnd.randint(0, 99)), "2.5E3"])]
    if kind == "NUMBER":
        return ["n", rnd.choice(["7", "-3", "1.5", "%d." % rnd.randint(0, 999)])]
    if kind == "STRING":
        return ["s", "".join(rnd.choice("abcXYZ 019_") for _ in range(rnd.randint(0, 6)))]
    if kind == "BOOLEAN":
        return ["b", rnd.choice("TF")]
    if kind == "LOGICAL":
        return ["l", rnd.choice("TFU")]
    raise AssertionError(kind)


def make_model(sd, salt):
    """{mask: instance model}; values differ from instance to instance (a mix-up between instances is visible)."""
    sch = expmodel.Schema(sd)
    names = sch.order
    rnd = random.Random(salt)
    model = {}
    for mask in range(1, 1 << len(names)):
        mem = members_of(names, mask)
        parts = []
        for m in sorted(mem, key=lambda x: x.upper()):
            vals = [_value(sl["type"]["k"], sl["optional"], rnd) for sl in sch.part_slots(m, mem)]
            parts.append({"ent": m, "vals": vals})
        model[mask] = {"id": mask, "complex": True, "parts": parts}
    return model


def render(sd, model, salt, variant):
    """variant 0: instances in mask order, parts in a drawn order; variant 1: instances shuffled, parts in a different order."""
    rnd = random.Random(salt * 2 + 1)
    lines = []
    masks = sorted(model)
    for mask in masks:
        inst = model[mask]
        parts = list(inst["parts"])
        rnd.shuffle(parts)
        if variant == 1 and len(parts) > 1:
            k = rnd.randint(1, len(parts) - 1)
            parts = parts[k:] + parts[:k]            # a rotation: never the order of variant 0
            if len(parts) > 2 and rnd.random() < 0.5:
                parts.reverse()
        toks = p21render.instance_tokens({"id": mask, "complex": True, "parts": parts})
        lines.append("".join(toks) + "\n")
    if variant == 1:
        random.Random(salt * 2 + 2).shuffle(lines)
    return HEAD % sd["name"].upper() + "".join(lines) + TAIL


def render_one(sd, inst, parts_order=None):
    parts = list(inst["parts"])
    if parts_order is not None:
        parts = [p for n in parts_order for p in parts if p["ent"] == n]
    return HEAD % sd["name"].upper() + "".join(p21render.instance_tokens({"id": inst["id"], "complex": True, "parts": parts})) + "\n" + TAIL


# ---- references -----------------------------------------------------------------------------------------------------------

def verdicts(sd):
    """({mask: bool}, [disagreements]) from the two reference formulations."""
    sch = expmodel.Schema(sd)
    ref = complexref.Ref(sd)
    names = sch.order
    v = {}
    dis = []
    for mask in range(1, 1 << len(names)):
        mem = members_of(names, mask)
        a = bool(sch.legal_set(mem))
        b = bool(ref.legal(mem))
        if a != b:
            dis.append({"set": mem, "local_predicate": a, "annex_b_enumeration": b})
        v[mask] = a
    return v, dis


def subset_class(sch, mem, legal):
    """(nontrivial, class label) of one subset by the stated rule."""
    S = set(mem)
    if len(S) == 1:
        return False, "singleton(not asserted)"
    closed = sch.closure(S) == S
    if legal:
        tops = [e for e in S if sch.closure([e]) == S]
        if tops:
            return False, "legal:ancestor-chain-of-one-entity"
        return True, "legal:several-leaves"
    if not closed:
        return False, "illegal:not-supertype-closed"
    # closed but illegal: name the deciding constraint (for the histogram only)
    for e in S:
        if sch.ent(e)["abstract"] and not any(c in S for c in sch.subs[e]):
            return True, "illegal:closed,ABSTRACT-without-subtype"
    comp = {next(iter(S))}
    todo = list(comp)
    while todo:
        x = todo.pop()
        for y in [s.lower() for s in sch.ent(x)["supers"]] + sch.subs[x]:
            if y in S and y not in comp:
                comp.add(y)
                todo.append(y)
    if comp != S:
        return True, "illegal:closed,unrelated-roots"
    return True, "illegal:closed,expression-violated"


# ---- execution + oracle ---------------------------------------------------------------------------------------------------

def run_file(lib, text, wd, tag):
    f = os.path.join(wd, tag + ".p21")
    with open(f, "w") as fh:
        fh.write(text)
    r = farm.drv(lib, ["read", f], cwd=wd, timeout=120)
    try:
        os.remove(f)
    except OSError:
        pass
    return r


def parse_texts(sd, texts):
    return p21parse.parse(HEAD % sd["name"].upper() + "".join(texts) + TAIL, allow_working=False)["data"]


def judge(sd, names, verd, model, r, masks=None, skip=()):
    """Failures of one driver run. Returns (failures, outcome{mask: text|None}).
    skip: masks that are executed but not asserted (shape of an open known finding, beyond the probes)."""
    fails = []
    if r["rc"] != 0 or r["json"] is None:
        return [{"kind": "crash", "mask": 0, "what": "reader died on a file of complex instances: rc=%s stderr=%s" % (r["rc"], r["err"][-500:])}], {}
    js = r["json"]
    masks = sorted(model) if masks is None else masks
    got = {}
    for g in js["instances"]:
        if g["id"] in got:
            fails.append({"kind": "duplicate-id", "mask": g["id"], "what": "instance #%d listed twice" % g["id"]})
        got[g["id"]] = g
    for i in got:
        if i not in masks:
            fails.append({"kind": "unexpected-id", "mask": i, "what": "instance #%d appeared from nowhere" % i})
    named = set(int(x) for x in _ERRID.findall(r["out"] + "\n" + r["err"]))
    outcome = {}
    absent = 0
    for mask in masks:
        mem = members_of(names, mask)
        g = got.get(mask)
        outcome[mask] = g["text"] if g else None
        if g is None:
            absent += 1
        elif mask in named:
            fails.append({"kind": "error-names-created-instance", "mask": mask,
                          "what": "an error message names instance #%d %s although it was created" % (mask, mem)})
        if len(mem) < 2 or mask in skip:
            continue                                    # singletons: executed, reported, not asserted
        legal = verd[mask]
        if legal and g is None:
            fails.append({"kind": "legal-refused", "mask": mask, "what": "legal entity set %s refused" % sorted(mem)})
        elif not legal and g is not None:
            fails.append({"kind": "illegal-created", "mask": mask,
                          "what": "illegal entity set %s was instantiated: %s" % (sorted(mem), g["text"].replace("\n", ""))})
        elif legal:
            if not g["complex"]:
                fails.append({"kind": "not-complex", "mask": mask, "what": "instance of %s is not a complex instance" % sorted(mem)})
            try:
                p = parse_texts(sd, [g["text"]])
                probs = p21gen.cmp_instance(model[mask], p[0]) if len(p) == 1 else ["written as %d instances" % len(p)]
            except p21parse.P21SyntaxError as e:
                probs = ["written text is not valid Part 21: %s" % e]
            if probs:
                fails.append({"kind": "value", "mask": mask, "what": "instance of %s: %s" % (sorted(mem), "; ".join(probs[:3]))})
    if js.get("errors") != absent:
        fails.append({"kind": "error-count", "mask": 0,
                      "what": "%d instances were refused but the reader counted %s errors" % (absent, js.get("errors"))})
    return fails, outcome


def evaluate(lib, sd, verd, model, texts, wd, tag, masks=None, skip=()):
    """Run the given file variants; per-file oracle + cross-file comparison. Returns (failures, outcomes)."""
    sch = expmodel.Schema(sd)
    names = sch.order
    fails = []
    outs = []
    for k, text in enumerate(texts):
        r = run_file(lib, text, wd, "%s_%d" % (tag, k))
        f, o = judge(sd, names, verd, model, r, masks, skip)
        for x in f:
            x["file"] = k
        fails += f
        outs.append(o)
    if len(outs) == 2 and outs[0] and outs[1]:
        for mask in (sorted(model) if masks is None else masks):
            mem = members_of(names, mask)
            if len(mem) < 2 or mask in skip:
                continue
            a, b = outs[0].get(mask), outs[1].get(mask)
            if (a is None) != (b is None):
                fails.append({"kind": "order-dependent-verdict", "mask": mask, "file": 1,
                              "what": "entity set %s: %s with one part order, %s with another" % (sorted(mem), "created" if a else "refused", "created" if b else "refused")})
            elif a is not None and a != b:
                fails.append({"kind": "order-dependent-text", "mask": mask, "file": 1,
                              "what": "entity set %s written differently after permuting its parts: %r vs %r" % (sorted(mem), a, b)})
    return fails, outs


# ---- known findings: structural shapes --------------------------------------------------------------------------------------

F93_SIG = "abstract-without-subtypes"
F93_PROBE = "74beb18b741fa9be"
SHAPE_A = "multi-inherit:supertype-missing"
SHAPE_B = "multi-inherit:constraint-violated-at-one-occurrence"
SHAPE_C = "multi-inherit:roots-joined,early-match"


def finding_shape(sch, mem, legal):
    """Structural class of (graph, subset) that an open known finding names, computed from the INPUT only (never from the
    observed outcome); None for everything else.  All three concern subsets holding an entity with several supertypes,
    which occurs at several places of the library's AND/OR/ANDOR hierarchy:
    A  S lacks a supertype, but only supertypes of multiply inheriting members that still have another supertype in S
       below the same root(s);
    B  S is closed under supertypes, is illegal, and a member whose own constraint (ABSTRACT, ONEOF/AND/ANDOR) S violates is a
       multiply inheriting entity, a descendant of one or an ancestor of one;
    C  S is legal and holds a multiply inheriting member whose supertypes lead to two or more roots."""
    S = set(mem)
    multi = [e for e in S if len(sch.ent(e)["supers"]) > 1]
    if not multi or len(S) < 2:
        return None
    if sch.closure(S) != S:
        lacking = [e for e in S if any(s.lower() not in S for s in sch.ent(e)["supers"])]
        def roots_above(x):
            return set(a for a in [x] + sch.ancestors(x) if not sch.ent(a)["supers"])
        for e in lacking:
            sup = [s.lower() for s in sch.ent(e)["supers"]]
            have = [s for s in sup if s in S]
            if len(sup) < 2 or not have:
                return None
            covered = set(x for x in S if not sch.ent(x)["supers"])
            for s in have:
                covered |= roots_above(s)
            if any(not roots_above(s) <= covered for s in sup if s not in S):
                return None                     # the missing supertype hangs below a root that S does not reach at all
        return SHAPE_A
    if not legal:
        # B is the defect of an entity that occurs at several places of the hierarchy (a multiply inheriting entity and
        # everything below it): it only explains a wrongly created instance when the member whose constraint S violates is
        # such an entity, lies below one, or has one below it (then one of its operands occurs at several places)
        for owner in sch.violated_constraints(S):
            for m in multi:
                if owner == m or owner in sch.ancestors(m) or m in sch.ancestors(owner):
                    return SHAPE_B
        return None
    for m in multi:
        roots = [a for a in sch.ancestors(m) if not sch.ent(a)["supers"]]
        if len(roots) > 1:
            return SHAPE_C
    return None


def signature(f, sch, verd, names):
    """Root-cause signature of one failure: the failure kind, qualified by the structural shape for the two verdict kinds."""
    if f["kind"] in ("legal-refused", "illegal-created") and f.get("mask"):
        sh = finding_shape(sch, members_of(names, f["mask"]), verd[f["mask"]])
        want = {SHAPE_A: "illegal-created", SHAPE_B: "illegal-created", SHAPE_C: "legal-refused"}
        if sh and want[sh] == f["kind"]:
            return sh
    return f["kind"]


# ---- one case = one graph x (salt) ------------------------------------------------------------------------------------------

PROBES = 2      # per graph and open finding: the first subsets of its shape stay asserted, to show that it still reproduces


def open_shapes(ctx):
    return set(x for x in (SHAPE_A, SHAPE_B, SHAPE_C) if x in ctx.open_sigs)


def plan_skips(sch, names, verd, shapes_open):
    """({mask: shape} not asserted, {mask: shape} probes) for the shapes of open findings."""
    skip, probes, seen = {}, {}, {}
    if not shapes_open:
        return skip, probes
    for mask in range(1, 1 << len(names)):
        sh = finding_shape(sch, members_of(names, mask), verd[mask])
        if sh in shapes_open:
            seen[sh] = seen.get(sh, 0) + 1
            if seen[sh] <= PROBES:
                probes[mask] = sh
            else:
                skip[mask] = sh
    return skip, probes


def case(ctx, salt):
    lib = ctx.lib
    sd = lib["schema"]
    ev = ctx.ev
    st_ = ctx.state
    if "verd" not in st_:
        st_["verd"], dis = verdicts(sd)
        assert not dis
        st_["sch"] = expmodel.Schema(sd)
        st_["skip"], st_["probes"] = plan_skips(st_["sch"], st_["sch"].order, st_["verd"], open_shapes(ctx))
    verd, sch, skip, probes = st_["verd"], st_["sch"], st_["skip"], st_["probes"]
    names = sch.order
    model = make_model(sd, salt)
    texts = [render(sd, model, salt, 0), render(sd, model, salt, 1)]
    tag = ctx.tag()
    fails, outs = evaluate(lib, sd, verd, model, texts, ctx.wd, tag, skip=skip)
    # evidence
    for mask in sorted(model):
        mem = members_of(names, mask)
        nt, cls = subset_class(sch, mem, verd[mask])
        if mask in skip:
            ev.exclude("subset of the shape of an open finding, executed but not asserted: " + skip[mask])
            ev.bump("not-asserted:" + skip[mask])
            continue
        classes = [cls, "size:%d" % len(mem)]
        if len(mem) == 1 and outs and outs[0]:
            classes.append("singleton:%s-by-reference,%s" % ("legal" if verd[mask] else "illegal", "created" if outs[0].get(mask) else "refused"))
        elif len(mem) > 1:
            classes.append("asserted:legal" if verd[mask] else "asserted:illegal")
            if any(len(sch.ent(e)["supers"]) > 1 for e in mem):
                classes.append("asserted:holds-multiply-inheriting-entity")
        if mask in probes:
            classes.append("probe:" + probes[mask])
        sample = None
        if nt and len(ev.samples) < 4 and (mask * 7 + salt) % 11 == 0:
            sample = {"graph": graph_text(sd), "subset": sorted(mem), "expected": "created" if verd[mask] else "refused",
                      "instance": "".join(p21render.instance_tokens(model[mask]))}
        ev.case(common.chash([ctx.schema_hash, mask]), nt and len(mem) > 1, classes=classes, sample=sample)
    ev.bump("files-read", len(texts))
    if not fails:
        return
    unknown = []
    for f in fails:
        sig = signature(f, sch, verd, names)
        f["sig"] = sig
        if sig in (SHAPE_A, SHAPE_B, SHAPE_C) and f["mask"] in probes and ctx.known(sig):
            continue
        if sig not in (SHAPE_A, SHAPE_B, SHAPE_C) and ctx.known(sig):
            continue
        unknown.append(f)
    if unknown:
        f = unknown[0]
        raise Found({"what": f["what"] + (" (+%d more failures in this graph)" % (len(unknown) - 1) if len(unknown) > 1 else ""),
                     "sig": f["sig"], "kind": f["kind"], "mask": f["mask"], "salt": salt, "n_failing": len(unknown),
                     "all": [[x["kind"], x["mask"]] for x in unknown[:40]]})


def graph_text(sd):
    out = []
    for e in sd["entities"]:
        s = e["name"]
        if e["abstract"]:
            s += " ABSTRACT"
        if e["superexpr"] is not None:
            s += " SUPERTYPE OF (" + exprender.superexpr(e["superexpr"]) + ")"
        if e["supers"]:
            s += " SUBTYPE OF (" + ", ".join(e["supers"]) + ")"
        out.append(s)
    return "; ".join(out)


# ---- minimisation / confirmation ---------------------------------------------------------------------------------------------

def minimal_case(lib, f, wd):
    """Smallest input that still shows the failure of payload f: the failing instance alone if that reproduces it,
    else the two full files. Returns dict(texts, masks, model) or None if nothing reproduces."""
    sd = lib["schema"]
    verd, _ = verdicts(sd)
    model = make_model(sd, f["salt"])
    mask = f.get("mask") or 0
    cands = []
    if mask:
        one = {mask: model[mask]}
        names = expmodel.Schema(sd).order
        mem = sorted(members_of(names, mask), key=lambda x: x.upper())
        cands.append(([render_one(sd, model[mask], mem), render_one(sd, model[mask], mem[1:] + mem[:1])], [mask], one))
    cands.append(([render(sd, model, f["salt"], 0), render(sd, model, f["salt"], 1)], None, model))
    for texts, masks, mdl in cands:
        fails, _ = evaluate(lib, sd, verd, mdl, texts, wd, "min", masks)
        if any(x["kind"] == f["kind"] and (not mask or x["mask"] in (mask, 0)) for x in fails):
            return {"texts": texts, "masks": masks, "model": mdl, "fails": fails}
    return None


def _drop_entity(sd, victim):
    """The graph without one entity (its subtypes lose that supertype, expressions lose that operand)."""
    import copy
    v = victim.lower()

    def strip(x):
        if x is None:
            return None
        if isinstance(x, str):
            return None if x.lower() == v else x
        args = [a for a in (strip(a) for a in x["args"]) if a is not None]
        if not args:
            return None
        if len(args) == 1 and (x["op"] != "ONEOF" or len(x["args"]) > 1):
            return args[0]
        return {"op": x["op"], "args": args}
    d = copy.deepcopy(sd)
    d["entities"] = [e for e in d["entities"] if e["name"].lower() != v]
    for e in d["entities"]:
        e["supers"] = [s for s in e["supers"] if s.lower() != v]
        e["superexpr"] = strip(e["superexpr"])
    names = set(e["name"].lower() for e in d["entities"])
    for e in d["entities"]:
        if not any(e["name"].lower() in [s.lower() for s in o["supers"]] for o in d["entities"]):
            e["superexpr"] = None
    return d


def minimise_graph(lib, f, root):
    """Greedy: drop entities outside the failing subset (and finally all attributes) while the same kind of failure
    persists for the same subset. Each step rebuilds the library. Returns (lib, payload) of the smallest reproduction."""
    if not f.get("mask") or f["min"]["masks"] is None:
        return lib, f
    import copy
    sd = lib["schema"]
    names = expmodel.Schema(sd).order
    S = [n for n in members_of(names, f["mask"])]
    cur_lib, cur_f = lib, f
    step = 0
    cands = [n for n in reversed(names) if n not in S] + ["@attrs"]
    for victim in cands:
        sd0 = cur_lib["schema"]
        if victim == "@attrs":
            d = copy.deepcopy(sd0)
            for e in d["entities"]:
                e["attrs"] = []
        else:
            d = _drop_entity(sd0, victim)
        try:
            verd, dis = verdicts(d)
        except ValueError:
            continue
        if dis:
            continue
        order = expmodel.Schema(d).order
        mask = sum(1 << order.index(n) for n in S)
        step += 1
        l2 = farm._build_one((900 + step, d, root, "plain", ("p21drv",), None))
        if not l2["ok"]:
            continue
        f2 = dict(cur_f)
        f2["mask"] = mask
        wd = os.path.join(l2["dir"], "confirm")
        os.makedirs(wd, exist_ok=True)
        if confirm(l2, f2, wd) and f2["min"]["masks"] is not None:
            cur_lib, cur_f = l2, f2
    return cur_lib, cur_f


def confirm(lib, f, wd):
    m = minimal_case(lib, f, wd)
    if m is None:
        return False
    f["min"] = {"texts": m["texts"], "masks": m["masks"], "model": {str(k): v for k, v in m["model"].items()},
                "fails": [{"kind": x["kind"], "what": x["what"]} for x in m["fails"] if x["kind"] == f["kind"]][:3]}
    return True


def replay_files(f):
    m = f["min"]
    files = {"input.p21": m["texts"][0], "case.json": json.dumps({"masks": m["masks"], "model": m["model"], "kind": f["kind"], "mask": f.get("mask")})}
    if len(m["texts"]) > 1:
        files["input_b.p21"] = m["texts"][1]
    return files


# ---- runner ---------------------------------------------------------------------------------------------------------------------

def draw_graphs(tier, seed, ev):
    n_rand = 44 if tier == "quick" else 266
    graphs = farm.draw_schemas(common.sub_seed(seed, PROP, "graphs"), n_rand + 6, strategy=c08gen.graphs())[:n_rand]
    shapes = c08gen.shapes()
    if tier == "quick":
        rnd = random.Random(common.sub_seed(seed, PROP, "shape-pick"))
        pick = rnd.sample(range(len(shapes)), 8)
    else:
        pick = range(len(shapes))
    for i in pick:
        g = farm.draw_schemas(common.sub_seed(seed, PROP, "shape", i), 1, strategy=c08gen.shape_graphs(shapes[i]))
        graphs.append(g[0])
    # every expression shape once more with an operand that is also a subtype of a sibling of the carrying entity (thorough: two
    # draws per shape, quick: one draw for a third of the shapes)
    if tier == "quick":
        rnd2 = random.Random(common.sub_seed(seed, PROP, "uncle-pick"))
        upick = [(i, 0) for i in rnd2.sample(range(len(shapes)), len(shapes) // 3)]
    else:
        upick = [(i, r) for i in range(len(shapes)) for r in (0, 1)]
    for i, r in upick:
        g = farm.draw_schemas(common.sub_seed(seed, PROP, "uncle", i, r), 1, strategy=c08gen.shape_graphs(shapes[i], mode="uncle"))
        graphs.append(g[0])
    if tier != "quick":
        ev.extra["expression_shapes_enumerated"] = len(shapes)
    # the enumerated two-root family (c08gen.family_graph): every member in the thorough tier, a seeded sample in the quick tier
    fam = c08gen.family()
    if tier == "quick":
        rnd = random.Random(common.sub_seed(seed, PROP, "family-pick"))
        fam = rnd.sample(fam, len(fam) // 3)
    else:
        ev.extra["two_root_family_enumerated"] = len(fam)
    for prm in fam:
        graphs.append(c08gen.family_graph(prm))
    # distinct by text
    seen = set()
    out = []
    for g in graphs:
        h = common.chash(exprender.schema(g))
        if h not in seen:
            seen.add(h)
            out.append(g)
    return out


def main(tier, seed):
    ev = common.Evidence(PROP, "exploration", tier, seed, RULE)
    findings = common.Findings(os.environ.get("VERIF_FINDINGS") or None)
    build.ensure("plain")
    root = common.scratch(PROP.lower())
    n_ex = 2 if tier == "quick" else 3
    graphs = draw_graphs(tier, seed, ev)
    kept = []
    dis_samples = []
    for g in graphs:
        _v, dis = verdicts(g)
        if dis:
            ev.exclude("graph on which the two reference formulations of legality disagree for some subset")
            if len(dis_samples) < 5:
                dis_samples.append({"graph": graph_text(g), "subsets": dis[:4]})
            continue
        kept.append(g)
    if dis_samples:
        ev.extra["reference_disagreements"] = dis_samples
    libs = farm.build_all(kept, root, variant="plain", exes=("p21drv",))
    good = [l for l in libs if l["ok"]]
    for l in libs:
        if not l["ok"]:
            ev.inconclusive.append("graph %d did not build (%s): reported by C02, skipped here: %s" % (l["idx"], l["stage"], l["log"][-300:]))
            ev.bump("graphs-not-built")

    def worker(lib):
        ctx = farmcheck.Ctx(PROP, lib, common.sub_seed(seed, PROP, "cases", lib["idx"]), tier, RULE, "exploration")
        ctx.findings = findings
        ctx.open_sigs = set(e["sig"] for e in findings.open_for(PROP))
        found = farm.explore(lambda x: case(ctx, x), st.integers(0, 2 ** 30), n_ex, ctx.seed)
        for t in c08gen.tags(lib["schema"]):
            ctx.ev.bump("graph:" + t)
        ctx.ev.bump("graph:kind=" + lib["schema"]["tags"].get("kind", "?"))
        ctx.ev.bump("graphs")
        ctx.ev.extra["subsets_enumerated_completely"] = (1 << len(lib["schema"]["entities"])) - 1
        ctx.ev.extra["graphs_enumerated_completely"] = 1
        shutil.rmtree(ctx.wd, ignore_errors=True)
        return {"ev": ctx.ev.partial(), "found": found, "idx": lib["idx"]}

    results = common.pmap(common.guarded(worker), good)
    rc = 0
    seen_sigs = set()
    n_minimised = 0
    for l, (status, res) in zip(good, results):
        if status != "ok":
            print("machinery error in worker for graph %d:\n%s" % (l["idx"], res))
            rc = 3
            continue
        ev.merge(res["ev"])
        f = res["found"]
        if not f:
            continue
        wd = os.path.join(l["dir"], "confirm")
        os.makedirs(wd, exist_ok=True)
        ok = all(confirm(l, f, wd) for _k in range(3))
        if ok:
            if n_minimised < 4:
                n_minimised += 1
                l, f = minimise_graph(l, f, root)
                ws = []
                for x in f["min"].get("fails", []):
                    if x["what"] not in ws:
                        ws.append(x["what"])
                f["what"] = "; ".join(ws[:2]) or f["what"]
            files = {"schema.exp": open(l["exp"]).read(), "schema.json": json.dumps(l["schema"])}
            files.update(replay_files(f))
            d = common.save_replay(PROP, files, {"property": PROP, "what": f.get("what"), "sig": f.get("sig"), "seed": seed,
                                                  "tier": tier, "kind": f.get("kind"), "graph": graph_text(l["schema"])})
            ev.violations += 1
            if f.get("sig") not in seen_sigs or len(seen_sigs) < 8:
                common.print_violation(PROP, d, f.get("what", "") + "\ngraph: " + graph_text(l["schema"]))
            seen_sigs.add(f.get("sig"))
            rc = max(rc, 1)
        else:
            ev.inconclusive.append("failure did not reproduce 3x: " + str(f.get("what"))[:300])
    # F93 (open): ABSTRACT entity without any subtype. The graph generators make only entities with subtypes abstract, so the
    # shape is outside the campaign by construction; its fixed minimal input is probed on every run.
    k93 = findings.match(PROP, F93_SIG)
    if k93:
        ev.exclude("ABSTRACT entity without any subtype (finding F93): never generated, fixed probe only")
        p93 = os.path.join(common.VERIF, "replays", PROP, F93_PROBE)
        if os.path.exists(os.path.join(p93, "case.json")):
            if replay(p93, quiet=True) == 1:
                ev.known_hit(k93["id"])
            else:
                ev.inconclusive.append("open finding %s no longer reproduces on its probe" % k93["id"])
    for fid in ev.known:
        e = [x for x in findings.entries if x.get("id") == fid]
        common.print_known(PROP, e[0]["what"] if e else fid)
    ev.exhaustive = True
    ev.assumptions = [
        "exhaustive per graph over the subsets of its entity names (not over graphs, orders or values, which are sampled)",
        "singleton sets {e} are executed and their outcome is reported (classes singleton:*), not asserted: ISO 10303-21 11.2.5.1 "
        "requires internal mapping for an instance with a single part",
        "nothing about the file-level status of the read is asserted beyond 'the reader returns'; the count of reported errors must equal the number of refused instances",
        "graphs on which the local predicate (expmodel.legal_set) and the constructive Annex B enumeration (complexref) differ are excluded",
    ]
    min_cases = 3000 if tier == "quick" else 30000
    if ev.evaluations < min_cases and rc == 0:
        print("machinery failure: only %d cases executed" % ev.evaluations)
        rc = 3
    ev.write()
    shutil.rmtree(root, ignore_errors=True)
    print("%s %s: %d graphs (%d excluded for reference disagreement), %d cases, %d distinct non-trivial, %d violations, known=%s, %.0fs" % (
        PROP, tier, len(good), len(graphs) - len(kept), ev.evaluations, len(ev.nontrivial), ev.violations, ev.known, time.time() - ev.t0))
    return rc


def replay(path, quiet=False):
    lib, root = farmcheck.replay_lib(path, exes=("p21drv",), name="c08-replay")
    if not lib["ok"]:
        print("schema of the replay no longer builds: " + lib["log"][-500:])
        common.print_violation(PROP, path, "schema does not build")
        return 1
    sd = lib["schema"]
    verd, dis = verdicts(sd)
    if dis:
        print("the two reference formulations disagree on this graph: nothing is asserted")
        return 0
    c = json.load(open(os.path.join(path, "case.json")))
    texts = [open(os.path.join(path, "input.p21")).read()]
    pb = os.path.join(path, "input_b.p21")
    if os.path.exists(pb):
        texts.append(open(pb).read())
    model = {int(k): v for k, v in c["model"].items()}
    # subsets of the shape of an open finding are not asserted in a replay either (unless the replay is about that subset)
    findings = common.Findings(os.environ.get("VERIF_FINDINGS") or None)
    sch = expmodel.Schema(sd)
    shapes_open = set(e["sig"] for e in findings.open_for(PROP)) & {SHAPE_A, SHAPE_B, SHAPE_C}
    skip = {}
    for mask in (c["masks"] or sorted(model)):
        sh = finding_shape(sch, members_of(sch.order, mask), verd[mask])
        if sh in shapes_open and mask != c.get("mask"):
            skip[mask] = sh
    fails, _ = evaluate(lib, sd, verd, model, texts, root, "replay", c["masks"], skip=skip)
    shutil.rmtree(root, ignore_errors=True)
    if fails and quiet:
        return 1
    if fails:
        common.print_violation(PROP, path, "; ".join(x["what"] for x in fails[:5]) + "\ngraph: " + graph_text(sd))
        return 1
    if not quiet:
        print("replay passes")
    return 0
