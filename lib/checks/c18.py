"""C18 - the Python generator emits an importable module that mirrors the schema.

Generated: single-schema codegen-profile files (lib/c17gen.single: every defined-type shape, multiple inheritance incl.
diamonds and redundant supertypes, redeclared/derived/inverse attributes) with identifiers drawn also from Python
keywords and builtins (cfg kw_py).
Executed: `exp2python schema.exp` in an empty directory; `python -m py_compile` of the module; a subprocess with
PYTHONPATH=<repo>/src/exp2python/python (the bundled runtime package exactly as shipped) loads the module and dumps what
it defines (probe script below, no PBT library involved).
Oracle (names compared case-folded; a generated name N or N_ stands for identifier N - the statement does not fix how
reserved words are mangled):
 (1) exp2python exits 0 and writes exactly one *.py, named after the schema;
 (2) it compiles and imports;
 (3) one class per entity; __bases__ == the entity's supertypes in declaration order (BaseEntityClass for a root) - when
     the declaration order is not a valid Python base order (C3 linearisation fails, e.g. SUBTYPE OF (a, b) with b a
     subtype of a) only the set is compared (counted);
 (4) __init__ parameters (generator's inherited<k>__ prefix stripped) == names of expmodel.p21_slots(entity) in order
     (accepted with or without the slots that a subtype re-declares as DERIVED: the statement is not explicit on them);
 (5) one definition per defined type: enumeration -> Enum with the same item set; select -> SELECT with the same member
     set; rename of either -> the same items/members; TYPE t = <simple> -> class with that simple base (BOOLEAN: bool, as
     the runtime maps it); TYPE t = u -> class with base u; aggregate -> LIST/SET/BAG/ARRAY object with the declared
     bounds and element type (element type accepted as declared or as any type on its rename chain, counted);
 (6) two-sided: the module defines nothing else (besides the star-imported runtime names, schema_name, schema_scope)."""
import json
import os
import re
import shutil
import sys

import common
import c17gen
import c17run
import exprender
from expmodel import SIMPLE, Schema
from farm import Found

PROP = "C18"
RULE = ("Hypothesis draws one codegen-profile schema (c17gen.single: entities with single/multiple/diamond inheritance, "
        "optional/derived/inverse/redeclared attributes, every defined-type shape, identifiers also from Python keywords and "
        "builtins, mixed-case declarations); exp2python is run, the module is byte-compiled and imported against the bundled "
        "runtime in a subprocess and introspected; bases, constructor parameters, enumeration items, select members, underlying "
        "types are compared with the schema model (expmodel.p21_slots for the parameter order). Non-trivial: the schema has an "
        "entity with >= 2 supertypes or an inherited explicit attribute, AND a defined type. Distinct by hash(schema text).")

TIMEOUT = 30
RUNTIME = os.path.join(common.REPO, "src", "exp2python", "python")

SIG_F9 = "exp2python:dies"
SIG_F10 = "import:no-module-SCL"
SIG_KW = "python-keyword-identifier"

PROBE = r'''
import sys, json, importlib, importlib.util, inspect, enum
path, name, alias = sys.argv[1], sys.argv[2], sys.argv[3] == "alias"
out = {}
try:
    if alias:
        import stepcode
        sys.modules["SCL"] = stepcode
        for sub in ("SCLBase", "SimpleDataTypes", "ConstructedDataTypes", "AggregationDataTypes", "TypeChecker", "Builtin", "Rules"):
            sys.modules["SCL." + sub] = importlib.import_module("stepcode." + sub)
            setattr(stepcode, sub, sys.modules["SCL." + sub])
    base_ns = {}
    pk = "SCL" if alias else "stepcode"
    hdr = ("import sys\nfrom %s import SCLBase\nfrom %s.SCLBase import *\nfrom %s.SimpleDataTypes import *\n"
           "from %s.ConstructedDataTypes import *\nfrom %s.AggregationDataTypes import *\nfrom %s.TypeChecker import check_type\n"
           "from %s.Builtin import *\nfrom %s.Rules import *\n") % ((pk,) * 8)
    try:
        exec(hdr, base_ns)
    except Exception as e:
        out["runtime_error"] = "%s: %s" % (type(e).__name__, e)
    spec = importlib.util.spec_from_file_location(name, path)
    m = importlib.util.module_from_spec(spec)
    sys.modules[name] = m
    try:
        spec.loader.exec_module(m)
    except BaseException as e:
        import traceback
        out["import_error"] = "%s: %s" % (type(e).__name__, e)
        out["tb"] = traceback.format_exc()[-1500:]
        print("@@JSON " + json.dumps(out))
        sys.stdout.flush()
        import os
        os._exit(0)
    from stepcode.SCLBase import BaseEntityClass
    from stepcode.ConstructedDataTypes import SELECT
    from stepcode.BaseType import Aggregate

    def agg(o):
        td = o._typedef
        return {"agg": type(o).__name__, "b1": getattr(o, "_bound_1", None), "b2": getattr(o, "_bound_2", None),
                "base": agg(td) if isinstance(td, Aggregate) else (td if isinstance(td, str) else getattr(td, "__name__", repr(td)))}

    defs = {}
    for k, v in vars(m).items():
        if k.startswith("__") or k in ("schema_name", "schema_scope"):
            continue
        if k in base_ns and base_ns[k] is v:
            continue
        if inspect.isclass(v):
            if issubclass(v, BaseEntityClass):
                d = {"kind": "entity", "pyname": v.__name__, "bases": [b.__name__ for b in v.__bases__]}
                init = v.__dict__.get("__init__")
                if init is None:
                    d["params"] = None
                else:
                    d["params"] = [p for p in inspect.signature(init).parameters][1:]
                defs[k] = d
            elif issubclass(v, enum.Enum):
                defs[k] = {"kind": "enum", "pyname": v.__name__, "items": [x.name for x in v]}
            else:
                defs[k] = {"kind": "class", "pyname": v.__name__, "bases": [b.__name__ for b in v.__bases__]}
        elif isinstance(v, SELECT):
            defs[k] = {"kind": "select", "members": [t._typedef if isinstance(t._typedef, str) else repr(t._typedef) for t in v._base_types]}
        elif isinstance(v, Aggregate):
            d = agg(v)
            d["kind"] = "agg"
            defs[k] = d
        else:
            defs[k] = {"kind": "other", "repr": repr(v)[:80]}
    out["defs"] = defs
    out["schema_name"] = getattr(m, "schema_name", None)
except BaseException as e:
    import traceback
    out["probe_error"] = traceback.format_exc()[-1500:]
print("@@JSON " + json.dumps(out))
'''

PY_KEYWORDS = set("False None True and as assert async await break class continue def del elif else except finally for from "
                  "global if import in is lambda nonlocal not or pass raise return try while with yield".split())
# identifiers the generated module cannot survive verbatim: keywords (SyntaxError) and `property` (a TYPE of that name
# becomes `class property(...)`, after which every `@property` in the module calls that class)
PY_HARD = PY_KEYWORDS | {"property"}
PY_BUILTINS = set("id object dict tuple str len range super property print int float bool list set type".split())


def linearizable(sch, ent):
    """Is `class ent(<supers in declaration order>)` a legal Python class statement, given every ancestor is built the
    same way?  (C3 linearisation; computed on dummy classes built from the model.)"""
    cache = {}

    def build(n):
        n = n.lower()
        if n in cache:
            return cache[n]
        bases = []
        for s in sch.ent(n)["supers"]:
            b = build(s)
            if b is None:
                cache[n] = None
                return None
            bases.append(b)
        try:
            c = type(str(n), tuple(bases) or (object,), {})
        except TypeError:
            c = None
        cache[n] = c
        return c
    return build(ent) is not None


def chain_len(sch, n):
    sup = sch.ent(n)["supers"]
    return max([1 + chain_len(sch, s) for s in sup] + [0])


def reordered(sch, n):
    """exp2python sorts the supertypes by the length of their longest supertype chain, longest first (stable)."""
    c = [chain_len(sch, s) for s in sch.ent(n)["supers"]]
    return any(c[i] < c[i + 1] for i in range(len(c) - 1))


def reordered_closure(sch, n):
    return any(reordered(sch, x) for x in [n.lower()] + sch.ancestors(n))


def redundant_supers(sch, n):
    sup = [s.lower() for s in sch.ent(n)["supers"]]
    return any(a != b and sch.is_a(b, a) for a in sup for b in sup)


def has_diamond(sch, n):
    seen = set()
    for sp in sch.ent(n)["supers"]:
        a = set([sp.lower()] + sch.ancestors(sp))
        if a & seen:
            return True
        seen |= a
    return False


def same(pyname, ident):
    p = pyname.lower()
    i = ident.lower()
    return p == i or p == i + "_"


def find(defs, ident):
    for k in (ident.lower(), ident.lower() + "_"):
        if k in defs:
            return k
    for k in defs:
        if same(k, ident):
            return k
    return None


def compare(d, defs, info):
    """Model d vs introspected defs -> list of (sigkind, message)."""
    sch = Schema(d)
    probs = []
    used = set()
    kwnames = set()

    def note_kw(n):
        if n.lower() in PY_KEYWORDS:
            kwnames.add(n.lower())

    for e in d["entities"]:
        name = e["name"]
        k = find(defs, name)
        if k is None or defs[k]["kind"] != "entity":
            probs.append(("entity-missing", "no class for entity %s (module defines %s)" % (name.lower(), "nothing of that name" if k is None else defs[k]["kind"])))
            continue
        used.add(k)
        g = defs[k]
        exp_bases = [s.lower() for s in e["supers"]] or ["baseentityclass"]
        got_bases = [b.lower() for b in g["bases"]]
        okb = len(got_bases) == len(exp_bases) and all(same(x, y) for x, y in zip(got_bases, exp_bases))
        if not okb:
            if e["supers"] and not linearizable(sch, name):
                info["classes"].add("bases:declaration-order-not-a-valid-python-base-order(set compared)")
                if sorted(b.rstrip("_") for b in got_bases) != sorted(b.rstrip("_") for b in exp_bases) and \
                        not (len(got_bases) == len(exp_bases) and all(any(same(x, y) for y in exp_bases) for x in got_bases)):
                    probs.append(("bases", "entity %s: bases %s, supertypes %s" % (name.lower(), got_bases, exp_bases)))
            else:
                probs.append(("bases-order" if sorted(got_bases) == sorted(exp_bases) else "bases",
                              "entity %s: bases %s, supertypes in declaration order %s" % (name.lower(), got_bases, exp_bases)))
        slots = sch.p21_slots(name)
        exp_all = [s["name"] for s in slots]
        exp_nd = [s["name"] for s in slots if not s["derived"]]
        if len(exp_all) != len(exp_nd):
            info["classes"].add("entity-with-inherited-slot-redeclared-DERIVED")
        if any(s["redeclared_by"] and not s["derived"] for s in slots):
            info["classes"].add("entity-with-slot-redeclared-explicit")
        got = g["params"]
        if got is None:
            got_names = []
            # a class without its own __init__ inherits the constructor of its first base: fine iff nothing is expected
            # beyond what that base takes; only the root-without-attributes case is generated that way
            if exp_all and not e["supers"]:
                probs.append(("ctor", "entity %s: no constructor, expected parameters %s" % (name.lower(), exp_all)))
                continue
            if e["supers"]:
                continue
        else:
            got_names = [re.sub(r"^inherited\d+__", "", p).lower() for p in got]

        def eq(a, b):
            return len(a) == len(b) and all(same(x, y) for x, y in zip(a, b))
        if not (eq(got_names, exp_all) or eq(got_names, exp_nd)):
            kind = "ctor"
            closure = [name.lower()] + sch.ancestors(name)
            if any(has_diamond(sch, x) for x in closure):
                kind = "ctor-repeated-inherited-attribute"
            elif any(a.get("redecl") for x in closure for a in sch.ent(x)["attrs"]):
                kind = "ctor-extra-parameter-for-redeclared-attribute"
            elif sorted((g[:-1] if g.endswith("_") and g[:-1] in exp_all else g) for g in got_names) == sorted(exp_all) \
                    and reordered_closure(sch, name):
                kind = "ctor-follows-reordered-bases"
            probs.append((kind, "entity %s: constructor parameters %s, Part 21 order %s" % (name.lower(), got_names, exp_all)))
    for t in d["types"]:
        name = t["name"]
        k = find(defs, name)
        if k is None:
            probs.append(("type-missing", "no definition for defined type %s" % name.lower()))
            continue
        used.add(k)
        g = defs[k]
        if t["kind"] == "enum" or (t["kind"] == "defined" and t["of"]["k"] == "named" and sch.resolve(t["of"])[0] == "enum"):
            items = sch.resolve({"k": "named", "name": name})[2]
            if g["kind"] != "enum":
                probs.append(("enum", "type %s: expected an enumeration, module has %s" % (name.lower(), g["kind"])))
            elif not (len(g["items"]) == len(items) and all(any(same(x, y) for y in items) for x in g["items"])):
                probs.append(("enum-items", "type %s: items %s, declared %s" % (name.lower(), sorted(g["items"]), sorted(i.lower() for i in items))))
        elif t["kind"] == "select" or (t["kind"] == "defined" and t["of"]["k"] == "named" and sch.resolve(t["of"])[0] == "select"):
            sel = sch.resolve({"k": "named", "name": name})[1]
            members = [m.lower() for m in sch.typ(sel)["members"]]
            if g["kind"] != "select":
                probs.append(("select", "type %s: expected a select, module has %s" % (name.lower(), g["kind"])))
            elif not (len(g["members"]) == len(members) and all(any(same(x, y) for y in members) for x in g["members"])):
                probs.append(("select-members", "type %s: members %s, declared %s" % (name.lower(), sorted(g["members"]), sorted(members))))
        else:
            of = t["of"]
            if of["k"] in SIMPLE:
                want = "bool" if of["k"] == "BOOLEAN" else of["k"]
                if of["k"] == "BOOLEAN":
                    okc = g["kind"] == "class" and g["pyname"] == "bool"
                else:
                    okc = g["kind"] == "class" and g["bases"] == [want]
                if not okc:
                    probs.append(("underlying", "type %s = %s: module has %s" % (name.lower(), of["k"], json.dumps(g))))
            elif of["k"] == "named":
                r = sch.resolve(of)
                if r[0] == "agg":
                    # rename of a named aggregate type
                    tgt = find(defs, of["name"])
                    if not (g["kind"] == "agg" or (g["kind"] == "class" and [b.lower() for b in g["bases"]] == [of["name"].lower()])):
                        probs.append(("underlying", "type %s = %s (aggregate type): module has %s" % (name.lower(), of["name"].lower(), json.dumps(g))))
                    elif g["kind"] == "agg" and tgt and defs[tgt].get("kind") == "agg":
                        a, b = dict(g), dict(defs[tgt])
                        if a != b:
                            probs.append(("underlying", "type %s = %s: %s vs %s" % (name.lower(), of["name"].lower(), json.dumps(a), json.dumps(b))))
                elif r[0] == "simple" and r[1] == "BOOLEAN":
                    if not (g["kind"] == "class" and (g["pyname"] == "bool" or [b.lower().rstrip("_") for b in g["bases"]] == [of["name"].lower()])):
                        probs.append(("underlying", "type %s = %s: module has %s" % (name.lower(), of["name"].lower(), json.dumps(g))))
                else:
                    if not (g["kind"] == "class" and len(g["bases"]) == 1 and same(g["bases"][0], of["name"])):
                        probs.append(("underlying", "type %s = %s: module has %s" % (name.lower(), of["name"].lower(), json.dumps(g))))
            else:
                if g["kind"] != "agg":
                    probs.append(("aggregate", "type %s: expected an aggregate object, module has %s" % (name.lower(), g["kind"])))
                else:
                    p = cmp_agg(sch, of, g, info)
                    if p:
                        probs.append(("aggregate", "type %s = %s: %s" % (name.lower(), exprender.typeref(of), p)))
    extra = sorted(k for k in defs if k not in used)
    if extra:
        probs.append(("extra-names", "module defines names that correspond to no entity or defined type: %s" % extra[:8]))
    return probs


def cmp_agg(sch, tr, g, info):
    if g.get("agg") != tr["agg"]:
        return "kind %s, declared %s" % (g.get("agg"), tr["agg"])
    if g.get("b1") != tr["lo"] or g.get("b2") != tr["hi"]:
        return "bounds [%s:%s], declared [%s:%s]" % (g.get("b1"), g.get("b2"), tr["lo"], tr["hi"])
    of = tr["of"]
    base = g.get("base")
    if of["k"] == "agg":
        if not isinstance(base, dict):
            return "element type %r, declared a nested aggregate" % (base,)
        return cmp_agg(sch, of, base, info)
    if isinstance(base, dict):
        r = sch.resolve(of) if of["k"] == "named" else None
        if r and r[0] == "agg":
            # element is a named aggregate type and the generator wrote out its definition
            info["classes"].add("aggregate-element-named-by-underlying-type(accepted)")
            return cmp_agg(sch, r[1], base, info)
        return "element type is an aggregate, declared %s" % exprender.typeref(of)
    if of["k"] in SIMPLE:
        ok = base == of["k"] or (of["k"] == "BOOLEAN" and base in ("bool", "BOOLEAN"))
        return None if ok else "element type %r, declared %s" % (base, of["k"])
    # named element: declared name, or any type further down its rename chain
    chain = [of["name"].lower()]
    cur = of
    while cur["k"] == "named" and not sch.is_entity(cur["name"]):
        t = sch.typ(cur["name"])
        if t["kind"] != "defined":
            break
        cur = t["of"]
        chain.append(cur["name"].lower() if cur["k"] == "named" else cur["k"])
    if same(str(base), chain[0]):
        return None
    if any(str(base).lower().rstrip("_") == c.lower() for c in chain[1:]) or (chain[-1] == "BOOLEAN" and base == "bool"):
        info["classes"].add("aggregate-element-named-by-underlying-type(accepted)")
        return None
    return "element type %r, declared %s" % (base, of["name"].lower())


def evaluate(text, d, wd, alias_ok=False):
    """-> dict(probs[(kind,msg)], sig, info)"""
    shutil.rmtree(wd, ignore_errors=True)
    out = os.path.join(wd, "out")
    os.makedirs(out)
    exp = os.path.join(wd, "schema.exp")
    with open(exp, "w") as f:
        f.write(text)
    info = {"classes": set()}
    res = {"probs": [], "sig": None, "info": info}

    def done(kind=None, msg=None, sig=None):
        if kind:
            res["probs"].append((kind, msg))
        if res["probs"]:
            res["sig"] = sig or res["probs"][0][0]
        return res
    rc, o, e, _ = common.run([c17run.TOOLS["exp2python"], exp], cwd=out, timeout=TIMEOUT, env=c17run.tool_env())
    if rc is None:
        info["timeout"] = "exp2python"
        return done()
    if rc != 0:
        return done("exit", "exp2python exits %s: %s" % (rc, (o + e)[-300:].strip()), SIG_F9 if rc < 0 or rc in (134, 139) else "exp2python:exit-status")
    pys = sorted(f for f in os.listdir(out) if f.endswith(".py"))
    others = sorted(f for f in os.listdir(out) if not f.endswith(".py"))
    if len(pys) != 1 or pys[0][:-3].lower() != d["name"].lower():
        return done("module-count", "expected one module %s.py, found %s (other files %s)" % (d["name"].lower(), pys, others))
    if others:
        info["classes"].add("generator-wrote-other-files")
    mod = os.path.join(out, pys[0])
    env = c17run.tool_env()
    env["PYTHONPATH"] = RUNTIME
    env["PYTHONDONTWRITEBYTECODE"] = "1"
    env.pop("PYTHONHASHSEED", None)
    rc, o, e, _ = common.run([sys.executable, "-c", "import py_compile,sys; py_compile.compile(sys.argv[1], cfile=sys.argv[2], doraise=True)",
                              mod, os.path.join(wd, "m.pyc")], cwd=wd, timeout=TIMEOUT, env=env)
    if rc is None:
        info["timeout"] = "py_compile"
        return done()
    if rc != 0:
        msg = (o + e).strip().splitlines()
        tail = " | ".join(msg[-4:])[-400:]
        kw = sorted(n for n in c17gen.all_identifiers(d) if n in PY_HARD)
        if kw:
            return done("compile", "module does not compile (schema uses the Python keyword(s) %s as identifiers): %s" % (kw, tail), SIG_KW)
        return done("compile", "module does not compile: %s" % tail)
    probe = os.path.join(wd, "probe.py")
    with open(probe, "w") as f:
        f.write(PROBE)

    def run_probe(alias):
        rc, o, e, _ = common.run([sys.executable, probe, mod, pys[0][:-3], "alias" if alias else "plain"], cwd=wd, timeout=TIMEOUT, env=env)
        if rc is None:
            return None, "timeout"
        for line in reversed(o.splitlines()):
            if line.startswith("@@JSON "):
                return json.loads(line[7:]), None
        return None, "probe died rc=%s: %s" % (rc, (o + e)[-400:])
    js, err = run_probe(False)
    if err == "timeout":
        info["timeout"] = "import"
        return done()
    if js is None:
        return done("import", err)
    if "import_error" in js and "No module named 'SCL'" in js["import_error"]:
        res["probs"].append(("import", "import against the bundled runtime (package 'stepcode') fails: " + js["import_error"]))
        res["sig"] = SIG_F10
        if not alias_ok:
            return res
        info["classes"].add("imported-through-alias-SCL->stepcode")
        js, err = run_probe(True)
        if js is None:
            return res
    if "probe_error" in js:
        raise RuntimeError("probe script failed: " + js["probe_error"])
    if "import_error" in js:
        hard = sorted(n for n in c17gen.all_identifiers(d) if n in PY_HARD)
        res["probs"].append(("import", "import fails%s: %s | %s" % ((" (schema uses %s as identifier)" % hard) if hard else "", js["import_error"],
                                                                    js.get("tb", "")[-300:].replace("\n", " | "))))
        if res["sig"] is None:
            if "consistent method resolution" in js["import_error"]:
                res["sig"] = "import:mro-conflict"
            else:
                res["sig"] = SIG_KW if hard else "import:" + re.sub(r"'[^']*'", "'X'", js["import_error"])[:50]
        return res
    probs = compare(d, js["defs"], info)
    if js.get("schema_name", "").lower() != d["name"].lower():
        probs.append(("schema-name", "schema_name %r, schema %r" % (js.get("schema_name"), d["name"])))
    res["probs"] += probs
    if res["sig"] is None and probs:
        res["sig"] = probs[0][0]
    res["all_sigs"] = sorted(set(p[0] for p in probs))
    return res


PROBE_PCT = 8
SHAPES = [
    (SIG_KW, "an identifier of the schema is a Python keyword (open finding)",
     lambda d, sch: bool(c17gen.all_identifiers(d) & PY_HARD)),
    ("ctor-repeated-inherited-attribute", "an entity inherits from the same ancestor along two paths (open finding: constructor repeats the inherited attributes)",
     lambda d, sch: any(has_diamond(sch, e["name"]) for e in d["entities"])),
    ("bases-order", "an entity lists a supertype with a shorter supertype chain before one with a longer chain (open finding: bases and inherited parameters re-ordered)",
     lambda d, sch: any(reordered(sch, e["name"]) for e in d["entities"])),
    ("import:mro-conflict", "an entity lists a supertype that is also an ancestor of another listed supertype (open finding: base order not a valid Python MRO)",
     lambda d, sch: any(redundant_supers(sch, e["name"]) for e in d["entities"])),
    ("ctor-extra-parameter-for-redeclared-attribute", "an entity re-declares an inherited explicit attribute (open finding: extra constructor parameter)",
     lambda d, sch: any(a.get("redecl") for e in d["entities"] for a in e["attrs"])),
]


def setup():
    c17run.snapshot_tools("c18", "plain")


CFG = {"kw_py": True, "p_kw": 22, "max_ent": 8, "max_typ": 7, "p_redecl": 35}


def make_strategy(ctx):
    return c17gen.single(dict(CFG))


def case(ctx, d):
    ev = ctx.ev
    text = exprender.schema(d)
    probe = common.sub_seed(ctx.seed, "probe", text) % 100 < PROBE_PCT
    if SIG_KW in ctx.open_sigs and not probe and (c17gen.all_identifiers(d) & PY_HARD):
        # open finding: Python keywords as identifiers.  Excluded by construction: rename them (x -> x_k), keep the rest
        ids = c17gen.all_identifiers(d)
        c17gen.rename_identifiers(d, lambda n: (n + "_k" if (n + "_k") not in ids else n + "_kk") if n in PY_HARD else n)
        ev.exclude(SHAPES[0][1] + " - keyword identifiers renamed")
        text = exprender.schema(d)
    sch = Schema(d)
    for sig, reason, shape in SHAPES:
        if sig in ctx.open_sigs and shape(d, sch):
            if not probe:
                ev.exclude(reason)
                return
            ev.bump("probe-of-open-finding:" + sig)
    r = evaluate(text, d, os.path.join(ctx.wd, "case"), alias_ok=SIG_F10 in ctx.open_sigs)
    info = r["info"]
    multi = any(len(e["supers"]) >= 2 for e in d["entities"])
    inh = any(e["supers"] and any(not s["derived"] and s["owner"] != e["name"].lower() for s in sch.p21_slots(e["name"])) for e in d["entities"])
    nt = (multi or inh) and bool(d["types"])
    classes = set(info["classes"])
    classes |= c17gen.type_classes(d)
    import expgen
    classes |= set("schema:" + t for t in expgen.tags(d))
    ids = c17gen.all_identifiers(d)
    if ids & PY_KEYWORDS:
        classes.add("identifier-is-python-keyword")
    if ids & PY_BUILTINS:
        classes.add("identifier-is-python-builtin")
    if info.get("timeout"):
        classes.add("inconclusive:%s-timeout" % info["timeout"])
        ev.inconclusive.append("%s did not return within %d s on %s" % (info["timeout"], TIMEOUT, common.chash(text)))
    sample = None
    if nt and len(ev.samples) < 3:
        sample = {"schema": text[:1500]}
    ev.case(common.chash(text), nt, classes=sorted(classes), sample=sample)
    if r["probs"]:
        # every distinct root cause of the case must be known for the case to pass
        sigs = [r["sig"]] + [s for s in r.get("all_sigs", []) if s != r["sig"]]
        unknown = [s for s in sigs if not ctx.known(s)]
        if not unknown:
            return
        msgs = [m for k, m in r["probs"] if k in unknown] or [m for k, m in r["probs"]]
        raise Found({"what": "; ".join(msgs[:4]), "sig": unknown[0], "text": text, "schema": d})


def confirm(f, wd):
    r = evaluate(f["text"], f["schema"], os.path.join(wd, "c"), alias_ok=True)
    return bool(r["probs"]) and (r["sig"] == f["sig"] or f["sig"] in r.get("all_sigs", []))


def replay_files(f):
    return {"schema.exp": f["text"], "schema.json": json.dumps(f["schema"])}


def main(tier, seed):
    setup()
    workers = max(2, min(12, common.NPROC - 2))
    n_ex = 350 if tier == "quick" else 1500
    return c17run.run(PROP, "exploration", RULE, tier, seed, make_strategy, case, confirm, replay_files, workers, n_ex,
                      min_cases=workers * n_ex // 3,
                      post=lambda ev: ev.assumptions.extend([
                          "the module is loaded by path (importlib) so that a schema called e.g. 'import' is not failed for its file name",
                          "a generated name N_ stands for identifier N (mangling of reserved words is the generator's choice)",
                          "bases are compared as a set when the declaration order is not a valid Python base order",
                          "constructor parameters accepted with or without slots re-declared as DERIVED by a subtype",
                          "aggregate element type accepted as the declared type or any type on its rename chain"]))


def replay(path):
    setup()
    d = json.load(open(os.path.join(path, "schema.json")))
    wd = common.scratch("c18-replay")
    r = evaluate(open(os.path.join(path, "schema.exp")).read(), d, os.path.join(wd, "r"), alias_ok=True)
    shutil.rmtree(wd, ignore_errors=True)
    if r["probs"]:
        common.print_violation(PROP, path, "; ".join(m for k, m in r["probs"][:5]))
        return 1
    print("replay passes")
    return 0
