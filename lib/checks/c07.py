"""C07 - pretty-printed EXPRESS is valid, equivalent and stable.

For every accepted schema S and option set (-l N, -t, -c):   P1 = exppp(S), P2 = exppp(P1)
  (1) valid       check-express P1 exits 0
  (2) equivalent  independent tokenizer/parser (lib/exptok.py, lib/expparse.py; ISO 10303-11 clause 7 / 12 / annex A):
                  S and P1 declare the same schemas / interface items / constants / types / entities (attributes,
                  supertype constraint, DERIVE, INVERSE, UNIQUE, WHERE) / functions / procedures / rules, compared as a
                  map keyed by (scope path, kind, name) - two sided; every expression in canonical fully parenthesised
                  form, token for token; neutral normalisations only as listed in expparse.Norm (each with its clause)
  (3) stable      tokens(P2) == tokens(P1) (c07_core.stable_tokens: only the narrowly scoped string-chain rule), and
                  tokens(P1) are the same for every line length tried on the same schema
Generated schemas: lib/explang.py (language profile).  Shipped schemas: /repo/data/*/*.exp.
"""
import json
import os
import shutil
import time

from hypothesis import given, settings, seed as hseed, Phase, HealthCheck, strategies as st

import build
import common
import explang
import explang_render
import expparse
import exptok
import c07_core as core

PROP = "C07"
RULE = ("cases = (schema, option set); schemas from the grammar-directed language-profile generator lib/explang.py (Hypothesis, "
        "valid by construction, accepted by check-express) and the shipped schemas /repo/data/*/*.exp; option sets -l in "
        "{default 130, 10, 11, 20, 40, 79, 130, 1000, 99999} or random 10..99999, with/without -t, with/without -c. A case is "
        "non-trivial when the source (as parsed by the independent parser) contains an expression with >= 2 different binary "
        "operators, or a string literal longer than the line length, or an unlabelled WHERE rule, or an aggregate initialiser. "
        "distinct_nontrivial counts distinct (sha1 of source text, option set) pairs among the non-trivial executed cases.")

FIXED_L = [None, 10, 11, 20, 40, 79, 130, 1000, 99999]

SHIPPED_QUICK = ["ISO15926/15926-0002-lifecycle_integration.exp", "pdm/pdm_schema_12.exp", "ap203/ap203.exp"]

# ------------------------------------------------------------------------------------------------------------
# known shapes: root-cause signature -> generator features to avoid while the finding is open, and a minimal probe.
# A probe is a hand-written accepted schema that shows exactly this defect; it is run on every invocation.

def _schema(body):
    return "SCHEMA probe;\n" + body + "\nEND_SCHEMA;\n"


SHAPES = {
    "unlabelled-rule-printed-as-<unnamed>": dict(
        avoid=["where-unlabelled"],
        probe=_schema("TYPE t = INTEGER;\nWHERE\n  SELF > 0;\nEND_TYPE;\nENTITY e;\n  a : INTEGER;\nWHERE\n  a > 0;\nEND_ENTITY;\n"
                      "RULE r FOR (e);\nWHERE\n  SIZEOF(e) >= 0;\nEND_RULE;")),
    "apostrophe-in-string-not-doubled": dict(
        avoid=["str-quote"],
        probe=_schema("CONSTANT\n  c : STRING := 'it''s';\nEND_CONSTANT;")),
    "binary-literal-printed-as-(null)": dict(
        avoid=["lit-bin"],
        probe=_schema("CONSTANT\n  c : BINARY := %0101;\nEND_CONSTANT;")),
    "const_e-printed-as-e": dict(
        avoid=["const-e"],
        probe=_schema("CONSTANT\n  c : REAL := CONST_E * 2.5;\nEND_CONSTANT;")),
    "real-literal-printed-as-integer": dict(
        avoid=["real-integral"],
        probe=_schema("CONSTANT\n  c : REAL := 1.5E3;\n  d : REAL := 2.0 * 0.5;\nEND_CONSTANT;")),
    "real-literal-printed-as-integer-zero": dict(
        avoid=["real-zero"],
        probe=_schema("CONSTANT\n  c : REAL := 0.0;\nEND_CONSTANT;")),
    "real-literal-value-changed": dict(
        avoid=["real-long"],
        probe=_schema("CONSTANT\n  c : REAL := 1.0000000000000002;\nEND_CONSTANT;")),
    "case-labels-split-into-actions": dict(
        avoid=["case-multi-label"],
        probe=_schema("FUNCTION f(x : INTEGER) : INTEGER;\n  CASE x OF\n    1, 2 : RETURN (x);\n    OTHERWISE : RETURN (3);\n  END_CASE;\n  RETURN (4);\nEND_FUNCTION;")),
    "exppp-crash:TYPE_head_out<-ALGargs_out": dict(
        avoid=["proc-no-params", "pcall-no-args"],
        probe=_schema("PROCEDURE p;\n  RETURN;\nEND_PROCEDURE;")),
    "call-empty-parameter-list": dict(
        avoid=["func-no-params", "pcall-no-args"],
        probe=_schema("FUNCTION f : INTEGER;\n  RETURN (1);\nEND_FUNCTION;\nFUNCTION g(x : INTEGER) : INTEGER;\n  RETURN (x + f);\nEND_FUNCTION;")),
    "alias-statement-garbled": dict(
        avoid=["alias"],
        probe=_schema("FUNCTION f(x : INTEGER) : INTEGER;\n  LOCAL\n    v : INTEGER := 0;\n  END_LOCAL;\n  ALIAS a FOR v;\n    a := x;\n  END_ALIAS;\n  RETURN (v);\nEND_FUNCTION;")),
    "aggregate-initialiser-repetition": dict(
        avoid=["agg-rep-expr", "agg-rep-01"],
        probe=_schema("FUNCTION f(n : INTEGER) : LIST OF INTEGER;\n  RETURN ([5 : n + 1, 7]);\nEND_FUNCTION;")),
    "second-pass:aggregate-initialiser-repetition": dict(
        avoid=["agg-rep-01", "agg-rep-expr"],
        probe=_schema("CONSTANT\n  c : LIST OF INTEGER := [4 : 1];\n  d : LIST OF INTEGER := [0, 0, 1];\nEND_CONSTANT;")),
    "exppp-crash:EXPRstring<-EXPRop_string": dict(
        avoid=["case-label-op"],
        probe=_schema("FUNCTION f(x : INTEGER) : INTEGER;\n  CASE x OF\n    -1 : RETURN (0);\n  END_CASE;\n  RETURN (1);\nEND_FUNCTION;")),
    "parentheses-dropped-regrouping:+": dict(
        avoid=["same-op-right"],
        probe=_schema("FUNCTION f(l : LIST OF INTEGER; a, b : INTEGER) : LIST OF INTEGER;\n  RETURN (l + (a + b));\nEND_FUNCTION;")),
    "parentheses-dropped-regrouping:*": dict(
        avoid=["same-op-right"],
        probe=_schema("FUNCTION f(a, b, c : REAL) : REAL;\n  RETURN (a * (b * c));\nEND_FUNCTION;")),
    "parentheses-dropped-regrouping:AND": dict(
        avoid=["same-op-right"],
        probe=_schema("FUNCTION f(a, b, c : LOGICAL) : LOGICAL;\n  RETURN (a AND (b AND c));\nEND_FUNCTION;")),
    "parentheses-dropped-regrouping:OR": dict(
        avoid=["same-op-right"],
        probe=_schema("FUNCTION f(a, b, c : LOGICAL) : LOGICAL;\n  RETURN (a OR (b OR c));\nEND_FUNCTION;")),
    "parentheses-dropped-regrouping:XOR": dict(
        avoid=["same-op-right"],
        probe=_schema("FUNCTION f(a, b, c : LOGICAL) : LOGICAL;\n  RETURN (a XOR (b XOR c));\nEND_FUNCTION;")),
    "printed-relational-chain-not-iso": dict(
        avoid=["same-op-right"],
        probe=_schema("FUNCTION f(a : LOGICAL; b, c : INTEGER) : LOGICAL;\n  RETURN (a = (b = c));\nEND_FUNCTION;")),
    "supertype-expression-regrouped": dict(
        avoid=["super-mixed"],
        probe=_schema("ENTITY a SUPERTYPE OF (b ANDOR c AND d);\nEND_ENTITY;\nENTITY b SUBTYPE OF (a);\nEND_ENTITY;\n"
                      "ENTITY c SUBTYPE OF (a);\nEND_ENTITY;\nENTITY d SUBTYPE OF (a);\nEND_ENTITY;")),
    "renamed-import-printed-under-original-name": dict(
        avoid=["rename-type"],
        probe="SCHEMA probe;\nUSE FROM other (thing AS widget);\nENTITY e;\n  w : widget;\nEND_ENTITY;\nEND_SCHEMA;\n"
              "SCHEMA other;\nENTITY thing;\nEND_ENTITY;\nEND_SCHEMA;\n"),
    "output-option-o-keeps-only-last-schema": dict(
        avoid=[],
        probe="SCHEMA probe;\nENTITY e;\nEND_ENTITY;\nEND_SCHEMA;\nSCHEMA other;\nENTITY thing;\nEND_ENTITY;\nEND_SCHEMA;\n",
        single_o=True),
}


def open_sigs(findings):
    return {e["sig"]: e for e in findings.open_for(PROP) if e.get("sig")}


# ------------------------------------------------------------------------------------------------------------
# drawing cases

def opt_strategy():
    return st.fixed_dictionaries({"l": st.one_of(st.sampled_from(FIXED_L), st.integers(10, 99999)),
                                  "t": st.sampled_from([0, 1]), "c": st.sampled_from([0, 0, 1])})


def draw_opts(seed, n, nopts):
    out = []

    @hseed(seed)
    @settings(max_examples=n, database=None, deadline=None, phases=[Phase.generate], suppress_health_check=list(HealthCheck))
    @given(st.lists(opt_strategy(), min_size=nopts, max_size=nopts))
    def collect(opts):
        out.append(opts)
    collect()
    while len(out) < n:           # the engine stops early when it has exhausted a small space; never the case here
        out.append(out[len(out) % max(1, len(out))] if out else [{"l": None, "t": 0, "c": 0}])
    return out


def draw_cases(seed, n, cfg, nopts):
    """n (schema, option sets) pairs: schemas and option sets are two separate Hypothesis runs (drawn together, the
    engine's mutation step keeps re-using one schema while it varies the options)"""
    ss = explang.draw_many(common.sub_seed(seed, "schemas"), n, cfg)
    oo = draw_opts(common.sub_seed(seed, "opts"), len(ss), nopts)
    return list(zip(ss, oo))


def _gen_chunk(arg):
    seed, n, cfg, nopts = arg
    return draw_cases(seed, n, cfg, nopts)


def dedupe_opts(opts):
    seen, res = set(), []
    for o in opts:
        k = core.opt_name(o)
        if k not in seen:
            seen.add(k)
            res.append(o)
    return res


# ------------------------------------------------------------------------------------------------------------
# one schema, several option sets (worker)

def run_schema(arg):
    """-> dict(results=[per option set], cross=[...])"""
    idx, text, opts_list, root, shipped, tags = arg
    wd = os.path.join(root, "c%05d" % idx)
    shutil.rmtree(wd, ignore_errors=True)
    os.makedirs(wd)
    res = {"idx": idx, "results": [], "cross": [], "accepted": True, "tags": tags}
    src = os.path.join(wd, "src.exp")
    with open(src, "w", encoding="latin-1") as f:
        f.write(text)
    rc, msg = core.check_express("plain", src, wd)
    if rc != 0:
        res["accepted"] = False
        res["reject_msg"] = msg[:500]
        shutil.rmtree(wd, ignore_errors=True)
        return res
    try:
        parsed = expparse.parse_file(text, robust=shipped)
    except (expparse.Unparsed, exptok.TokError) as e:
        res["results"].append({"opts": opts_list[0], "stage": "machinery", "sig": "source-unparsed", "detail": "independent parser cannot read the source: %s" % e,
                               "nontrivial": False, "feats": [], "ncmp": 0, "nskip": 0})
        shutil.rmtree(wd, ignore_errors=True)
        return res
    h = common.chash(text)
    p1s = []
    for opts in opts_list:
        o = core.oracle(text, opts, os.path.join(wd, core.opt_name(opts)), shipped=shipped, s_parsed=parsed)
        nt, acc, feats = core.census(parsed[1], text, opts)
        res["results"].append({"opts": opts, "stage": o.stage, "sig": o.sig, "detail": o.detail, "nontrivial": nt, "feats": feats,
                               "canon": common.chash([h, core.opt_name(opts)]), "ncmp": o.ncmp, "nskip": o.nskip,
                               "all_sigs": o.all_sigs, "skipped": sorted(set(str(v)[:60] for v in list(parsed[1].skipped.values())[:5])),
                               "acc": acc})
        if o.p1 is not None and o.stage in (None, "stable", "equivalent"):
            p1s.append((opts, o.p1))
    # (3b) all line lengths give the same tokens modulo literal splitting; -t / -c must not change tokens either
    for opts, p in p1s[1:]:
        try:
            d = core.cross_length(p1s[0][1], p, shipped)
        except exptok.TokError as e:
            d = (0, "untokenizable", str(e))
        if d is not None:
            res["cross"].append({"a": p1s[0][0], "b": opts, "detail": "token %d: with %s: %s | with %s: %s" % (
                d[0], core.opt_name(p1s[0][0]), d[1], core.opt_name(opts), d[2])})
    shutil.rmtree(wd, ignore_errors=True)
    return res


# ------------------------------------------------------------------------------------------------------------
# minimisation of a failing generated case (greedy, bounded): drop declarations / clauses / statements while the
# same signature is reproduced and the source is still accepted

def _variants(schemas):
    """yield smaller copies of the generator AST"""
    import copy
    if len(schemas) > 1:
        for i in range(len(schemas)):
            yield schemas[:i] + schemas[i + 1:]
    for si, s in enumerate(schemas):
        for field in ("decls", "consts", "interfaces"):
            for i in range(len(s[field])):
                c = copy.deepcopy(schemas)
                del c[si][field][i]
                yield c
        for di, d in enumerate(s["decls"]):
            if d[0] == "entity":
                for clause in ("where", "unique", "derive", "inverse", "attrs"):
                    for i in range(len(d[2][clause])):
                        c = copy.deepcopy(schemas)
                        del c[si]["decls"][di][2][clause][i]
                        yield c
                if d[2]["supertype_of"] is not None:
                    c = copy.deepcopy(schemas)
                    c[si]["decls"][di][2]["supertype_of"] = None
                    yield c
            elif d[0] == "type":
                for i in range(len(d[3])):
                    c = copy.deepcopy(schemas)
                    nd = list(c[si]["decls"][di])
                    nd[3] = nd[3][:i] + nd[3][i + 1:]
                    c[si]["decls"][di] = tuple(nd)
                    yield c
            elif d[0] in ("function", "procedure", "rule"):
                bi = 5 if d[0] != "rule" else 4
                hi = 4 if d[0] != "rule" else 3
                body = d[bi]
                for i in range(len(body)):
                    if d[0] == "function" and i == len(body) - 1:
                        continue
                    c = copy.deepcopy(schemas)
                    nd = list(c[si]["decls"][di])
                    nd[bi] = body[:i] + body[i + 1:]
                    c[si]["decls"][di] = tuple(nd)
                    yield c
                for part in ("locals", "decls", "consts"):
                    for i in range(len(d[hi].get(part, []))):
                        c = copy.deepcopy(schemas)
                        del c[si]["decls"][di][hi][part][i]
                        yield c
                if d[0] == "rule":
                    for i in range(len(d[5])):
                        if len(d[5]) > 1:
                            c = copy.deepcopy(schemas)
                            nd = list(c[si]["decls"][di])
                            nd[5] = d[5][:i] + d[5][i + 1:]
                            c[si]["decls"][di] = tuple(nd)
                            yield c


def minimise(ast, layout_seed, opts, sig, wd, budget=250, deadline=None):
    def fails(text):
        src = os.path.join(wd, "m.exp")
        with open(src, "w") as f:
            f.write(text)
        rc, _ = core.check_express("plain", src, wd)
        if rc != 0:
            return False
        o = core.oracle(text, opts, os.path.join(wd, "m"))
        return o.stage is not None and o.sig == sig
    best = ast
    text = explang_render.render_file(best, layout_seed, remarks=False)
    if not fails(text):
        return None     # the failure needs the remarks / layout: keep the original text
    used = 0
    progress = True
    while progress and used < budget:
        progress = False
        for cand in _variants(best):
            used += 1
            if used > budget or (deadline is not None and time.time() > deadline):
                return text
            try:
                t = explang_render.render_file(cand, layout_seed, remarks=False)
            except Exception:
                continue
            if fails(t):
                best, text, progress = cand, t, True
                break
    return text


# ------------------------------------------------------------------------------------------------------------

def case_fails(text, opts, wd, shipped=False, single_o=None):
    """re-run one case from scratch: returns (stage, sig, detail) or None"""
    src = os.path.join(wd, "replay.exp")
    os.makedirs(wd, exist_ok=True)
    with open(src, "w", encoding="latin-1") as f:
        f.write(text)
    rc, msg = core.check_express("plain", src, wd)
    if rc != 0:
        return ("precondition", "source-rejected", "check-express rejects the source: " + msg[:300])
    if single_o:
        return probe_single_o(text, opts, wd)
    o = core.oracle(text, opts, os.path.join(wd, "r"), shipped=shipped)
    if o.stage is None:
        return None
    return (o.stage, o.sig, o.detail)


def probe_single_o(text, opts, wd):
    """`-o file` with several schemas in the input: every schema must be in the output"""
    names, _ = expparse.parse_file(text)
    src = os.path.join(wd, "multi.exp")
    with open(src, "w") as f:
        f.write(text)
    r = core.run_exppp("plain", src, os.path.join(wd, "om"), opts, names, single_o=True)
    if not r["ok"]:
        return ("exppp", r["sig"], r["detail"])
    try:
        pn, _ = expparse.parse_file(r["text"])
    except (expparse.Unparsed, exptok.TokError) as e:
        return ("equivalent", "printed-text-not-iso", str(e))
    if sorted(pn) != sorted(names):
        return ("equivalent", "output-option-o-keeps-only-last-schema",
                "exppp -o FILE on a source with schemas %s writes a file that declares only %s" % (names, pn))
    return None


def report_violation(ev, text, opts, stage, sig, detail, extra_files=None, meta=None):
    files = {"schema.exp": text}
    files.update(extra_files or {})
    m = {"property": PROP, "opts": opts, "stage": stage, "sig": sig, "what": detail[:2000]}
    m.update(meta or {})
    d = common.save_replay(PROP, files, m)
    ev.violations += 1
    common.print_violation(PROP, d, "[%s / %s] options %s\n%s" % (stage, sig, " ".join(core.opt_args(opts)) or "(default)", detail))
    return d


def main(tier, seed):
    t_start = time.time()
    ev = common.Evidence(PROP, "exploration", tier, seed, RULE)
    ev.max_samples = 5
    fpath = os.environ.get("VERIF_FINDINGS")
    findings = common.Findings(fpath) if fpath else common.Findings()
    known = open_sigs(findings)
    rc_final = 0
    printed_known = set()

    def known_hit(sig):
        e = known[sig]
        ev.known_hit(e["id"])
        if e["id"] not in printed_known:
            printed_known.add(e["id"])
            common.print_known(PROP, e["what"])

    build.ensure("plain")
    root = common.scratch("c07")
    ev.assumptions = [
        "the EXPRESS reference is ISO 10303-11:2004 (clause 7 tokens, clause 12 operator precedence, annex A syntax) as implemented by the "
        "independent lib/exptok.py + lib/expparse.py; their agreement with the generator's own model is self-tested (lib/explang_selftest.py) "
        "and re-checked on every generated schema of this run (parse(S) == model(S))",
        "'accepted' means check-express exits 0 (warnings allowed)",
        "neutral normalisations applied to BOTH sides (expparse.Norm): letter case of reserved words/identifiers (7.2, 7.4); remarks (7.1.6); "
        "LIST/BAG/SET without bound_spec == [0:?] (8.2.2-8.2.4); REPEAT increment default BY 1 (13.9.1); interval {a<b<c} == (a<b) AND (b<c) "
        "(12.2.4); unary + is the identity (12.1); null statement has no effect (13.1); integer/real literals compared by value, never across "
        "types (7.5.2, 7.5.3); attribute / local / parameter declarations `a, b : T` == `a : T; b : T` (9.2.1, 9.5.3: each name is declared "
        "with that type); order of declarations inside a scope, of interface items and merging of CONSTANT blocks (the statement: 'declares "
        "exactly the same ...': a map); splitting of string literals joined by + inside one left-to-right chain (the statement), with the "
        "check that source piece boundaries survive",
        "NOT normalised (reported as differences): regrouping of a op (b op c); CASE labels split into several actions; f versus f(); "
        "REAL literal printed as INTEGER; order OPTIONAL/UNIQUE is only counted (class nonstandard:...), not asserted",
        "known shapes (open findings) are excluded from the generator by construction (cfg['avoid']) and exercised by the hand written probes of SHAPES",
    ]

    # ---------------- probes of the known shapes
    for sig, sh in SHAPES.items():
        wd = os.path.join(root, "probe")
        shutil.rmtree(wd, ignore_errors=True)
        r = case_fails(sh["probe"], {"l": None}, wd, single_o=sh.get("single_o"))
        ev.bump("probe-cases")
        if r is None:
            ev.bump("probe-holds")
            if sig in known:
                print("note: open finding %s (%s) no longer reproduces on its probe" % (known[sig]["id"], sig))
            continue
        stage, got, detail = r
        if stage == "precondition":
            print("machinery failure: probe for %s is not accepted by check-express: %s" % (sig, detail))
            rc_final = max(rc_final, 3)
            continue
        if got in known:
            known_hit(got)
            ev.bump("probe-known")
            continue
        report_violation(ev, sh["probe"], {"l": None}, stage, got, detail, meta={"kind": "probe", "single_o": bool(sh.get("single_o"))})
        rc_final = max(rc_final, 1)

    avoid = set()
    for sig in known:
        for a in SHAPES.get(sig, {}).get("avoid", []):
            avoid.add(a)
    for a in sorted(avoid):
        ev.exclude("generator feature '%s' (shape of an open finding)" % a)
    cfg = {"avoid": sorted(avoid)}

    # ---------------- generated schemas
    # number of Hypothesis examples drawn. 7 of 8 chunks use the generator's "fast" mode (one Hypothesis draw seeds all
    # choices of a file: independent examples), 1 of 8 the pure mode (every choice a Hypothesis draw; the engine's
    # mutation step then yields families of similar files, repeated texts are merged)
    n_schemas, nopts = (2800, 3) if tier == "quick" else (14000, 6)
    if os.environ.get("C07_N"):
        n_schemas = int(os.environ["C07_N"])
    nchunks = 32 if tier == "quick" else 96
    per = (n_schemas + nchunks - 1) // nchunks
    t0 = time.time()
    chunk_args = []
    for i in range(nchunks):
        c2 = dict(cfg)
        if i % 8 != 7:
            c2["fast"] = True
        chunk_args.append((common.sub_seed(seed, PROP, "gen", i), per if c2.get("fast") else max(4, per // 3), c2, nopts))
    chunks = common.pmap(common.guarded(_gen_chunk), chunk_args)
    cases = []
    seen = {}
    for status, c in chunks:
        if status != "ok":
            print("machinery failure in the generator:\n" + c)
            ev.write()
            return 3
        for s, opts in c:
            h = common.chash(s["text"])
            if h in seen:
                ev.bump("repeated-schema-merged")
                prev = cases[seen[h]]
                cases[seen[h]] = (prev[0], dedupe_opts(prev[1] + opts)[:2 * nopts])
                continue
            seen[h] = len(cases)
            cases.append((s, dedupe_opts(opts)))
    ev.extra["generation_s"] = round(time.time() - t0, 1)
    # the generator's model must be what the independent parser reads (cross-check on a sample)
    model_bad = []
    for s, _ in cases[:150]:
        try:
            _, dec = expparse.parse_file(s["text"], robust=False)
            if dec.decls != explang_render.expected_decls(s["ast"]):
                model_bad.append(s["text"])
        except (expparse.Unparsed, exptok.TokError) as e:
            model_bad.append(s["text"])
    if model_bad:
        d = common.save_replay(PROP, {"schema.exp": model_bad[0]}, {"kind": "machinery", "what": "parser/model disagreement"})
        print("machinery failure: independent parser and generator model disagree on %d schemas (%s)" % (len(model_bad), d))
        ev.write()
        return 3
    t0 = time.time()
    args = [(i, s["text"], opts, root, False, s["tags"]) for i, (s, opts) in enumerate(cases)]
    results = common.pmap(common.guarded(run_schema), args, chunksize=4)
    ev.extra["generated_run_s"] = round(time.time() - t0, 1)
    rejected = 0
    failures = []        # (case index, result)
    tag_hist = {}
    for (s, opts), (status, r) in zip(cases, results):
        if status != "ok":
            print("machinery failure in a worker:\n" + r)
            rc_final = 3
            continue
        if not r["accepted"]:
            rejected += 1
            if rejected <= 3:
                d = common.save_replay(PROP, {"schema.exp": s["text"]}, {"kind": "generator-rejected", "what": r["reject_msg"]})
                print("generated schema rejected by check-express (generator bug or front-end defect; triage): %s\n   %s" % (d, r["reject_msg"][:300]))
            continue
        ev.bump("schemas-generated")
        for t in s["tags"]:
            tag_hist[t] = tag_hist.get(t, 0) + 1
        for x in r["results"]:
            cls = ["opt:l=%s" % ("default" if x["opts"]["l"] is None else ("fixed-%d" % x["opts"]["l"] if x["opts"]["l"] in FIXED_L else "random")),
                   "opt:t" if x["opts"].get("t") else "opt:no-t", "opt:c" if x["opts"].get("c") else "opt:no-c",
                   "outcome:" + (x["stage"] or "held")] + ["src:" + f for f in x["feats"]]
            sample = None
            if x["nontrivial"] and len(ev.samples) < 3:
                sample = {"options": " ".join(core.opt_args(x["opts"])) or "(default)", "source": s["text"][:1500]}
            ev.case(x.get("canon", common.chash([s["text"], core.opt_name(x["opts"])])), x["nontrivial"], classes=cls, sample=sample)
            if x["stage"] is not None:
                failures.append((s, x))
        for c in r["cross"]:
            failures.append((s, {"opts": c["b"], "stage": "stable", "sig": "tokens-depend-on-options", "detail":
                                 "the printed tokens differ between option sets: " + c["detail"], "cross_a": c["a"]}))
        ev.bump("cross-option-comparisons", max(0, len(r["results"]) - 1))
    n_ok = ev.classes.get("schemas-generated", 0)
    for t, c in sorted(tag_hist.items()):
        ev.classes["gen:" + t] = c
    ev.extra["generated_rejected_by_check_express"] = rejected
    ev.extra["generator_construct_percent"] = {t: round(100.0 * c / max(1, n_ok), 1) for t, c in sorted(tag_hist.items())}
    if rejected > 0.02 * max(1, len(cases)):
        print("machinery failure: %d of %d generated schemas are rejected by check-express" % (rejected, len(cases)))
        rc_final = max(rc_final, 3)

    # failures of generated cases: known shape -> counted; else minimise, confirm 3x, replay
    done_sigs = {}
    min_deadline = time.time() + (60 if tier == "quick" else 240)      # minimisation is best effort and time boxed
    for s, x in failures:
        sig = x["sig"]
        if sig in known:
            known_hit(sig)
            continue
        if done_sigs.get(sig, 0) >= 1:
            done_sigs[sig] += 1
            ev.violations += 1
            continue
        wd = os.path.join(root, "confirm")
        shutil.rmtree(wd, ignore_errors=True)
        os.makedirs(wd)
        text = s["text"]
        if x["sig"] == "tokens-depend-on-options":
            ok = True
            for _ in range(3):
                oa = core.oracle(text, x["cross_a"], os.path.join(wd, "a"), stages=())
                ob = core.oracle(text, x["opts"], os.path.join(wd, "b"), stages=())
                if not (oa.p1 and ob.p1 and core.cross_length(oa.p1, ob.p1)):
                    ok = False
            if ok:
                done_sigs[sig] = 1
                report_violation(ev, text, x["opts"], "stable", sig, x["detail"], meta={"kind": "cross", "opts_a": x["cross_a"]})
                rc_final = max(rc_final, 1)
            else:
                ev.inconclusive.append("cross-option difference did not reproduce")
            continue
        small = None
        try:
            if time.time() < min_deadline:
                small = minimise(s["ast"], s["model"]["layout_seed"], x["opts"], sig, wd, deadline=min_deadline)
        except Exception as e:          # the minimiser is best effort
            ev.inconclusive.append("minimiser failed: %r" % (e,))
        cand = small if small else text
        ok = True
        last = None
        for _ in range(3):
            last = case_fails(cand, x["opts"], wd)
            if last is None or last[1] != sig:
                ok = False
                break
        if not ok and small:
            cand, ok = text, True
            for _ in range(3):
                last = case_fails(cand, x["opts"], wd)
                if last is None:
                    ok = False
                    break
        if ok:
            done_sigs[sig] = 1
            report_violation(ev, cand, x["opts"], last[0], last[1], last[2], extra_files={"original.exp": text} if cand != text else None,
                             meta={"kind": "generated", "tags": s["tags"]})
            rc_final = max(rc_final, 1)
        else:
            ev.inconclusive.append("failure did not reproduce 3x: %s" % x["detail"][:200])
    if done_sigs:
        ev.extra["violation_signatures"] = done_sigs

    # ---------------- shipped schemas
    data = os.path.join(common.REPO, "data")
    if tier == "quick":
        shipped = [os.path.join(data, p) for p in SHIPPED_QUICK]
    else:
        shipped = sorted(os.path.join(data, d, f) for d in sorted(os.listdir(data)) if os.path.isdir(os.path.join(data, d))
                         for f in sorted(os.listdir(os.path.join(data, d))) if f.endswith(".exp"))
    shipped = [p for p in shipped if os.path.exists(p)]
    sopts = [{"l": None, "t": 0, "c": 0}, {"l": 40, "t": 1, "c": 1}] if tier == "quick" else \
        [{"l": None, "t": 0, "c": 0}, {"l": 10, "t": 1, "c": 0}, {"l": 79, "t": 0, "c": 1}, {"l": 99999, "t": 1, "c": 1}]
    t0 = time.time()
    sargs = []
    for i, p in enumerate(shipped):
        text = open(p, encoding="latin-1").read()
        for j, o in enumerate(sopts):
            sargs.append((100000 + i * 10 + j, text, [o], root, True, ["shipped:" + os.path.basename(p)]))
    sres = common.pmap(common.guarded(run_schema), sargs)
    ev.extra["shipped_run_s"] = round(time.time() - t0, 1)
    ship_summary = {}
    for a, (status, r) in zip(sargs, sres):
        name = a[5][0]
        if status != "ok":
            print("machinery failure in a shipped-schema worker:\n" + r)
            rc_final = 3
            continue
        if not r["accepted"]:
            ev.inconclusive.append("%s is not accepted by check-express: outside the property's domain" % name)
            ev.bump("shipped-not-accepted")
            continue
        for x in r["results"]:
            ev.case(x.get("canon", common.chash([name, core.opt_name(x["opts"])])), x["nontrivial"],
                    classes=["shipped", "outcome:" + (x["stage"] or "held"), "opt:" + core.opt_name(x["opts"])])
            ev.bump("shipped-declarations-compared", x["ncmp"])
            ev.bump("shipped-declarations-skipped-unparsed", x["nskip"])
            ship_summary.setdefault(name, []).append({"opts": core.opt_name(x["opts"]), "outcome": x["stage"] or "held", "sig": x["sig"],
                                                      "compared": x["ncmp"], "skipped": x["nskip"], "skip_reasons": x.get("skipped", [])})
            if x["stage"] is None:
                continue
            if x["stage"] == "machinery":
                ev.inconclusive.append("%s: %s" % (name, x["detail"][:200]))
                continue
            sigs = x.get("all_sigs") or [x["sig"]]
            unknown = [sg for sg in sigs if sg not in known]
            for sg in sigs:
                if sg in known:
                    known_hit(sg)
            if unknown:
                key = "shipped:" + unknown[0]
                if done_sigs.get(key):
                    done_sigs[key] += 1
                    ev.violations += 1
                    continue
                done_sigs[key] = 1
                report_violation(ev, a[1], x["opts"], x["stage"], unknown[0], "%s: %s" % (name, x["detail"]),
                                 meta={"kind": "shipped", "name": name})
                rc_final = max(rc_final, 1)
    ev.extra["shipped"] = ship_summary
    ev.extra["nonstandard_spellings_accepted_by_the_parser"] = dict(expparse.NONSTANDARD)

    # ---------------- distribution requirement: every construct class named in the property >= 2 % of generated schemas
    required = ["op:+", "op:-", "op:*", "op:/", "op:**", "op:DIV", "op:MOD", "op:<", "op:>", "op:<=", "op:>=", "op:<>", "op:=", "op::<>:", "op::=:",
                "op:IN", "op:LIKE", "op:AND", "op:OR", "op:XOR", "un:NOT", "un:-", "op:||", "lit:int", "lit:real", "lit:real-exp", "lit:str", "lit:estr",
                "lit:log", "stmt:if", "stmt:if-else", "stmt:case", "stmt:case-otherwise", "stmt:repeat-incr", "stmt:repeat-while", "stmt:repeat-until",
                "stmt:compound", "stmt:escape", "stmt:skip", "stmt:return-value", "stmt:return", "stmt:assign", "stmt:pcall", "stmt:insert",
                "stmt:remove", "agg-init", "agg-init-rep", "query", "where-labelled", "rule", "tail-remark", "embedded-remark", "nested-remark",
                "constant", "type-simple", "type-enum", "type-select", "type-agg", "type-where", "entity", "attr-optional", "attr-derived",
                "attr-inverse", "unique", "supertype-oneof", "supertype-and", "supertype-andor", "abstract", "function", "procedure", "local",
                "nested-alg", "use-from", "reference-from", "group-qual", "attr-qual", "index", "index-range", "entity-constructor", "const:PI",
                "const:SELF", "const:?", "long-string", "multi-schema"]
    optional_when_avoided = {"where-unlabelled": "where-unlabelled", "lit:bin": "lit-bin", "const:CONST_E": "const-e", "stmt:alias": "alias",
                             "lit:str-quote": "str-quote", "interval": "interval"}
    for t, feat in optional_when_avoided.items():
        if feat not in avoid:
            required.append(t)
    low = [t for t in required if tag_hist.get(t, 0) < 0.02 * max(1, n_ok)]
    if low and n_ok >= 300:
        print("machinery failure: construct classes below 2%% of the generated schemas: %s" % low)
        ev.extra["constructs_below_2_percent"] = low
        rc_final = max(rc_final, 3)

    wall = time.time() - t_start
    if rc_final == 0 and (ev.evaluations < (3000 if tier == "quick" else 20000)):
        print("machinery failure: only %d cases executed" % ev.evaluations)
        rc_final = 3
    ev.write()
    shutil.rmtree(root, ignore_errors=True)
    print("%s %s: %d generated schemas (%d rejected), %d cases, %d distinct non-trivial, %d violations, known=%s, %.0fs" % (
        PROP, tier, n_ok, rejected, ev.evaluations, len(ev.nontrivial), ev.violations, ev.known, wall))
    return rc_final


def replay(path):
    build.ensure("plain")
    meta = json.load(open(os.path.join(path, "meta.json")))
    text = open(os.path.join(path, "schema.exp"), encoding="latin-1").read()
    wd = common.scratch("c07-replay")
    opts = meta.get("opts") or {"l": None}
    if meta.get("kind") == "cross":
        oa = core.oracle(text, meta["opts_a"], os.path.join(wd, "a"), stages=())
        ob = core.oracle(text, opts, os.path.join(wd, "b"), stages=())
        d = core.cross_length(oa.p1, ob.p1) if (oa.p1 and ob.p1) else (0, "printer failed", "printer failed")
        if d:
            common.print_violation(PROP, path, "printed tokens differ between option sets: %s | %s" % (d[1], d[2]))
            return 1
        print("replay passes")
        return 0
    r = case_fails(text, opts, wd, shipped=(meta.get("kind") == "shipped"), single_o=meta.get("single_o"))
    shutil.rmtree(wd, ignore_errors=True)
    if r is not None and r[0] != "precondition":
        common.print_violation(PROP, path, "[%s / %s] %s" % r)
        return 1
    if r is not None:
        print("replay: " + r[2])
    print("replay passes")
    return 0
