"""C06 - the EXPRESS tools are memory-safe, signal-free and terminate on arbitrary bytes.

Engine: generation + mutation through subprocesses of the four SANITIZED binaries (clang ASan+UBSan, build variant 'san').
The tools call exit() deep inside the library, keep parser / dictionary state in globals and install signal handlers, so an
in-process (libFuzzer) harness would leak state between inputs and turn every rejected input into a crash; coverage guidance
is therefore not used (said in the evidence).
Inputs: (a) generated valid schemas, (b) token-level mutants, (c) byte-level mutants of them and of the repo's own schemas,
(d) the pathological lexical shapes the statement names (10^2..10^5 character remarks / literals, 1..200-deep nesting,
NULs, bytes >= 0x80, no final newline), (e) the 17 shipped application-protocol schemas unchanged, (f) exppp -l sweep.
Oracle: see RULE."""
import json
import os
import random
import re
import shutil
import time

import build
import common
import c20_front as F
import mutate_exp as M

PROP = "C06"
LEVEL = "exploration"
RULE = ("Each case = (bytes, tool, options) run once as a subprocess of the ASan+UBSan build (detect_leaks=0: leaks are not in the statement; "
        "allow_user_segv_handler=0, handle_abort=1 so that faults the tools' own handlers would turn into abort() are reported with a stack). "
        "Oracle: no sanitizer report; not ended by a signal; exit status 0, or 1..2 together with at least one stderr line other than the "
        "trailer; CPU time (wait4 rusage) below a generous ceiling (20 s + 40 us/byte; a case above it is re-run alone three times before it "
        "counts); scaling probe for the stretch shapes (n,2n,4n,8n; ratio > 3.2 on all three doublings, twice => super-linear, asserted only "
        "when the largest size the statement names would also break the ceiling, otherwise listed as unasserted). Cases are drawn from "
        "Hypothesis-chosen integers (one PRNG per case). Failures are bucketed by root cause = sanitizer kind + innermost frame inside the "
        "repository; each bucket is minimised and confirmed three times; shapes of buckets that are open known findings are excluded by "
        "construction (counted) except for a few probes. Non-trivial: the tool got past the first token (it printed a diagnostic with a "
        "line number, or accepted the input) and the bytes differ from every seed; distinct by hash(bytes, tool, options).")

SAN_ENV = {"ASAN_OPTIONS": "detect_leaks=0:exitcode=99:allow_user_segv_handler=0:handle_abort=1:handle_sigfpe=1:symbolize=1:abort_on_error=0:detect_stack_use_after_return=0",
           "UBSAN_OPTIONS": "print_stacktrace=1:halt_on_error=1:exitcode=98"}
TOOL_WEIGHTS = [("check-express", 50), ("exppp", 22), ("exp2cxx", 16), ("exp2python", 12)]
F9_SIG = "exp2python-crash-strdup"

# shapes that are excluded by construction while the matching finding is open: sig -> (description, predicate(text, tool, opts))
_TAIL = re.compile(r";[ \t]*--[^\n]{250,}")


def _deep_scopes(text):
    depth = mx = 0
    for t in M.tokenize(text[:400000]):
        if t.kind == "kw":
            lw = t.low
            if lw in ("function", "procedure", "rule", "entity", "type", "schema", "repeat", "alias", "query"):
                depth += 1
                mx = max(mx, depth)
            elif lw.startswith("end_"):
                depth = max(0, depth - 1)
    return mx


_LONG_ID = re.compile(r"[A-Za-z][A-Za-z0-9_]{200,}")
_ITEMS = re.compile(r"(?is)\b(?:enumeration\s+of|select)\s*\(([^)]{5000,})\)")


def _long_id(t, tool, o):
    return tool != "check-express" and bool(_LONG_ID.search(t))


# sig of an open finding -> (shape description, predicate(text, tool, opts)): cases with the shape are not generated while the finding
# is open (two probes per worker are let through so that the finding keeps being re-found)
AVOID = {
    "global-buffer-overflow:SCANprocess_semicolon": ("';' followed by a tail remark of 250+ characters (last_comment_[256])", lambda t, tool, o: bool(_TAIL.search(t))),
    "global-buffer-overflow:PARSERrun": ("scopes nested 19 or more deep (scopes[20])", lambda t, tool, o: _deep_scopes(t) >= 18),
    "global-buffer-overflow:TypeBody_Description": ("ENUMERATION / SELECT item list longer than 5000 characters, exp2cxx",
                                                    lambda t, tool, o: tool == "exp2cxx" and bool(_ITEMS.search(t))),
    "signal-6:ENTITYPrint": ("identifier longer than 200 characters, code generators / pretty printer", _long_id),
    "stack-buffer-overflow:EXPRstring": ("identifier longer than 200 characters, code generators / pretty printer", _long_id),
    "ub:index N out of bounds for type 'char[N]':ClassName": ("identifier longer than 200 characters, code generators / pretty printer", _long_id),
    "ub:index N out of bounds for type 'char[N]':StrToLower": ("identifier longer than 200 characters, code generators / pretty printer", _long_id),
}


def env():
    e = dict(os.environ)
    e.update(SAN_ENV)
    return e


# ----------------------------------------------------------------------------------------------------------------
# oracle

_ASAN = re.compile(r"==\d+==ERROR: (?:AddressSanitizer|LeakSanitizer): ([^\n]*)")
_UBSAN = re.compile(r"([^\s:]+):(\d+):(\d+): runtime error: ([^\n]*)")
_FRAME = re.compile(r"#\d+ 0x[0-9a-f]+ in ([^\s(]+)[^\n]*? (/\S+?)(?::\d+)*\n")


def san_report(err):
    """-> (kind, frame) or None"""
    m = _ASAN.search(err)
    kind = None
    if m:
        msg = m.group(1)
        k = re.match(r"([a-zA-Z\-]+)", msg)
        kind = k.group(1) if k else msg[:30]
        if kind in ("SEGV", "ABRT", "FPE", "BUS", "ILL"):
            kind = "signal-" + kind
        if "stack-overflow" in msg:
            kind = "stack-overflow"
        if kind.startswith("attempting"):
            kind = "bad-free"
    u = _UBSAN.search(err)
    if u and (not m or u.start() < m.start()):
        msg = u.group(4)
        msg = re.sub(r"0x[0-9a-f]+", "ADDR", msg)
        msg = re.sub(r"-?\d+", "N", msg)
        kind = "ub:" + msg[:60]
    if kind is None:
        return None
    frame = None
    for fm in _FRAME.finditer(err):
        fn, path = fm.group(1), fm.group(2)
        if "/src/" in path and "compiler-rt" not in path and not fn.startswith("__"):
            if fn in ("ERRORabort", "ERRORnospace"):
                continue
            frame = fn
            break
    if frame is None and u:
        frame = os.path.basename(u.group(1)) + ":" + u.group(2)
    return kind, frame or "?"


def gdb_frame(tool, args, cwd):
    """innermost repository frame of a death without sanitizer report (the tools' own SIGSEGV handler calls abort())"""
    import subprocess
    try:
        g = subprocess.run(["gdb", "-batch", "-ex", "set disable-randomization off", "-ex", "run", "-ex", "bt 30", "--args", build.tool("san", tool)] + args,
                           cwd=cwd, capture_output=True, timeout=180, env=env())
    except (subprocess.TimeoutExpired, OSError):
        return "?"
    out = g.stdout.decode("latin-1")
    for m in re.finditer(r"#\d+\s+(?:0x[0-9a-f]+ in )?([^\s(]+) \([^\n]*?\) at ([^\s:]+):\d+", out):
        fn, path = m.group(1), m.group(2)
        if "/src/" in path and "compiler-rt" not in path and fn not in ("ERRORabort", "ERRORnospace"):
            return fn
    return "?"


def ceiling(nbytes):
    return 20.0 + 40e-6 * nbytes


def judge(r, nbytes):
    """-> (sig, detail) or None"""
    rep = san_report(r.err)
    if rep:
        return "%s:%s" % rep, "sanitizer report (%s) in %s; %s" % (rep[0], rep[1], r.status)
    if r.timeout:
        if getattr(r, "flood", False):
            return "unbounded-output", "stopped after printing more than %d MB for %d bytes of input (cpu %.1f s)" % (F.OUTPUT_CAP >> 20, nbytes, r.cpu)
        if r.cpu_exceeded:
            return "hang", "still running after %.0f s of CPU (ceiling %.0f s for %d bytes)" % (r.cpu, ceiling(nbytes), nbytes)
        return "inconclusive-wall-guard", "wall-clock guard hit after %.1f s of CPU (machine load); not a verdict" % r.cpu
    if r.sig:
        m = re.search(r"@@gdb-frame (\S+)", r.err)
        return "signal-%d:%s" % (r.sig, m.group(1) if m else "?"), "ended by %s; stderr: %s" % (r.status, r.err[-200:])
    if r.cpu > ceiling(nbytes):
        return "hang", "cpu %.1fs > ceiling %.1fs" % (r.cpu, ceiling(nbytes))
    if r.rc == 0:
        return None
    if r.rc in (98, 99):
        return "sanitizer-exit:?", "sanitizer exit code %d without a parsable report: %s" % (r.rc, r.err[-300:])
    if r.rc > 2:
        return "exit-status-%d" % r.rc, "exit status %d; stderr: %s" % (r.rc, r.err[-200:])
    lines = [ln for ln in r.err.split("\n") if ln.strip() and ln.strip() not in F.TRAILERS]
    if not lines:
        return "rejected-without-diagnostic", "exit status %d without any diagnostic on stderr (stderr: %r)" % (r.rc, r.err[-100:])
    return None


def run_case(sc, tool, data, opts=(), timeout=None, keep=False):
    p = sc.put("i%d_%d.exp" % (os.getpid(), sc.n), data)
    if b"@@SELF@@" in data:
        # a file may INCLUDE existing files - the only one a generated case can name is itself
        with open(p, "wb") as fh:
            fh.write(data.replace(b"@@SELF@@", p.encode()))
    d = sc.fresh("w")
    args = list(opts) + ([p] if tool != "exppp" or "-o" in opts else ["-o", "out.exp", p])
    # termination is judged on CPU time (polled from /proc): the wall-clock guard only protects the campaign and is never a verdict
    r = F.run_tool(build.tool("san", tool), args, cwd=d, timeout=timeout or 900, cpu_limit=ceiling(len(data)), env=env(), light=True)
    if r.sig and not r.timeout and san_report(r.err) is None:
        r.err += "\n@@gdb-frame %s\n" % gdb_frame(tool, args, d)
    shutil.rmtree(d, ignore_errors=True)
    if not keep:
        try:
            os.remove(p)
        except OSError:
            pass
    return r


# ----------------------------------------------------------------------------------------------------------------
# case generation

def pick_tool(rnd):
    x = rnd.randrange(100)
    for t, w in TOOL_WEIGHTS:
        if x < w:
            return t
        x -= w
    return "check-express"


STRETCH_SIZES = [100, 1000, 10000, 100000]
NEST_SIZES = [1, 5, 19, 20, 21, 50, 100, 200]


def gen_case(rnd, seeds, big_seeds):
    """-> (kind, bytes, tool, opts)"""
    tool = pick_tool(rnd)
    c = rnd.randrange(100)
    seed = rnd.choice(seeds)
    if c < 8:
        return "a:valid", seed.encode("latin-1"), tool, ()
    if c < 38:
        text = seed
        for _ in range(rnd.choice([1, 1, 1, 2, 3])):
            text, kind = M.token_mutant(text, rnd)
        return "b:" + kind, text.encode("latin-1"), tool, ()
    if c < 46:
        # declarations referring to each other in a ring (constants, derived attributes, types, functions, supertypes, interface
        # clauses ...), used where the tools evaluate or follow the reference
        text, kind = M.ref_cycle(seed, rnd)
        # the back ends follow references the checker only records: all four tools equally often here
        return "g:" + kind, text.encode("latin-1"), rnd.choice(["check-express", "exppp", "exp2cxx", "exp2python"]), ()
    if c < 52:
        # one semantic single-fault template (the resolver's error paths: undefined / duplicate / cyclic names ...)
        names = sorted(M.TEMPLATES)
        for _ in range(4):
            tn = rnd.choice(names)
            try:
                m = M.make(tn, seed, rnd.randrange(1 << 48))
            except Exception:
                m = None
            if m is not None:
                return "h:template:" + tn, m["text"].encode("latin-1", "replace"), tool, ()
        return "a:valid", seed.encode("latin-1"), tool, ()
    if c < 72:
        data = seed.encode("latin-1")
        for _ in range(rnd.choice([1, 1, 2])):
            data, kind = M.byte_mutant(data, rnd)
        return "c:" + kind, data, tool, ()
    if c < 76 and big_seeds:
        # sampled positions in a shipped schema (large): one byte or token level edit
        data = rnd.choice(big_seeds)
        if rnd.random() < 0.5:
            data, kind = M.byte_mutant(data, rnd)
        else:
            i = rnd.randrange(len(data))
            j = data.find(b"\n", i)
            data, kind = data[:i] + data[j if j > 0 else i:], "line-tail-delete"
        return "e:shipped-mutant:" + kind, data, "check-express", ()
    if c < 94:
        name = rnd.choice(sorted(M.STRETCH))
        mx = M.STRETCH[name][1]
        sizes = [s for s in (NEST_SIZES if mx <= 1000 else STRETCH_SIZES) if s <= mx]
        n = rnd.choice(sizes + [rnd.randrange(1, mx + 1)])
        text = M.stretch(name, n)
        if rnd.random() < 0.15:
            text = text.rstrip("\n")
        return "d:" + name, text.encode("latin-1"), tool, ()
    # exppp line length sweep on a valid input
    ll = rnd.choice([10, 11, 12, 20, 40, 72, 80, 200, 1000, 9999, 10000, 10001, 50000, 99999])
    return "f:exppp-l", seed.encode("latin-1"), "exppp", ("-l", str(ll))


def has_attribute(text):
    return re.search(r"(?is)\bentity\b[^;]*;\s*(?!end_entity)[a-z]", text) is not None


def f9_probe():
    """is finding F9 (exp2python: strdup undeclared, pointer truncated) still in the tree?"""
    sc = F.Scratch("c06_f9_%d" % os.getpid())
    try:
        r = run_case(sc, "exp2python", b"SCHEMA f9probe;\nENTITY e;\n  a : INTEGER;\nEND_ENTITY;\nEND_SCHEMA;\n")
        return judge(r, 60) is not None
    finally:
        sc.close()


def campaign_chunk(arg):
    idx, rseeds, seeds, big_seeds, tier, seed, open_sigs, f9_present = arg
    sc = F.Scratch("c06_%d" % idx)
    ev = common.Evidence(PROP, LEVEL, tier, seed, RULE)
    fails = []
    seedset = set(seeds)
    probes = {}
    try:
        for rs in rseeds:
            if len(fails) >= 25:
                # this tree fails wholesale: enough material for the verdict, the rest of the chunk would only burn time
                # (every sanitizer report costs a symbolizer start)
                ev.bump("cases-not-run-after-25-failures-in-one-worker", 1)
                continue
            rnd = random.Random(rs)
            kind, data, tool, opts = gen_case(rnd, seeds, big_seeds)
            text = data.decode("latin-1")
            skip = False
            for sig, (desc, pred) in AVOID.items():
                if sig in open_sigs and pred(text, tool, opts):
                    probes[sig] = probes.get(sig, 0) + 1
                    if probes[sig] > 1:
                        ev.exclude("shape of open finding excluded: " + desc)
                        skip = True
            if F9_SIG in open_sigs and f9_present and tool == "exp2python" and has_attribute(text):
                probes[F9_SIG] = probes.get(F9_SIG, 0) + 1
                if probes[F9_SIG] > 1:
                    ev.exclude("exp2python on input with an entity attribute (finding %s)" % F9_SIG)
                    tool = rnd.choice(["check-express", "exppp", "exp2cxx"])
            if skip:
                continue
            r = run_case(sc, tool, data, opts)
            v = judge(r, len(data))
            past_first = (r.rc == 0) or re.search(r":\d+: (--ERROR|WARNING)", r.err) is not None
            nt = past_first and text not in seedset
            cls = ["class:" + kind.split(":")[0], "kind:" + kind, "tool:" + tool, "outcome:" + (v[0].split(":")[0] if v else ("accepted" if r.rc == 0 else "rejected"))]
            sample = None
            if nt and len(ev.samples) < 2 and kind[0] in "bc":
                sample = {"kind": kind, "tool": tool, "status": r.status, "stderr_head": r.err[:200], "input_head": text[:300]}
            ev.case(common.chash([text, tool, list(opts)]), nt, classes=cls, sample=sample)
            if v and v[0] == "inconclusive-wall-guard":
                ev.inconclusive.append("[%s %s] %s" % (kind, tool, v[1]))
                v = None
            if v:
                sig = v[0]
                if f9_present and tool == "exp2python" and sig.startswith("signal-"):
                    sig = F9_SIG      # while F9 is in the tree every death of exp2python by a signal (truncated strdup() pointer -> SEGV -> the
                    # tool's handler -> abort) is attributed to it; sanitizer reports keep their own buckets
                fails.append({"sig": sig, "what": "[%s %s %s] %s" % (kind, tool, " ".join(opts), v[1]), "data": data, "tool": tool, "opts": list(opts),
                              "kind": kind})
        return {"ev": ev.partial(), "fails": fails}
    finally:
        sc.close()


# ----------------------------------------------------------------------------------------------------------------
# shipped schemas

def shipped_job(arg):
    path, tool = arg
    sc = F.Scratch("c06_ship_%d_%s" % (os.getpid(), tool))
    try:
        data = open(path, "rb").read()
        d = sc.fresh("w")
        args = [path] if tool != "exppp" else ["-o", "out.exp", path]
        r = F.run_tool(build.tool("san", tool), args, cwd=d, timeout=3600, cpu_limit=ceiling(len(data) * 50), env=env(), light=True)
        v = judge(r, len(data) * 50)
        if v and v[0] == "inconclusive-wall-guard":
            v = None
        if v is None and r.rc != 0:
            v = ("shipped-rejected", "shipped schema rejected: %s; stderr: %s" % (r.status, r.err[-300:]))
        return {"path": path, "tool": tool, "status": r.status, "cpu": round(r.cpu, 1), "v": v, "bytes": len(data)}
    finally:
        sc.close()


# ----------------------------------------------------------------------------------------------------------------
# scaling probe

def scaling_probe(sc, name, tool, base_n):
    """-> dict(times=[...], ratios=[...], superlinear=bool)"""
    runs = []
    for rep in range(2):
        ts = []
        for k in range(4):
            data = M.stretch(name, base_n * (1 << k)).encode("latin-1")
            r = run_case(sc, tool, data, timeout=900)
            if r.timeout or r.sig or san_report(r.err):
                return {"aborted": r.status, "n": base_n * (1 << k)}
            ts.append(max(r.cpu, 1e-3))
        runs.append(ts)
    ratios = [[ts[i + 1] / ts[i] for i in range(3)] for ts in runs]
    sup = all(all(x > 3.2 for x in rr) for rr in ratios) and all(ts[0] >= 0.02 for ts in runs)
    return {"n": base_n, "times": [[round(t, 3) for t in ts] for ts in runs], "ratios": [[round(x, 2) for x in rr] for rr in ratios], "superlinear": sup}


def probe_job(arg):
    name, tool = arg
    sc = F.Scratch("c06_probe_%d" % os.getpid())
    try:
        mx = M.STRETCH[name][1]
        base = max(1, mx // 8)
        res = scaling_probe(sc, name, tool, base)
        res.update({"shape": name, "tool": tool, "max": mx})
        return res
    finally:
        sc.close()


# ----------------------------------------------------------------------------------------------------------------

def recheck(f, sc=None):
    own = sc is None
    sc = sc or F.Scratch("c06_confirm_%d" % os.getpid())
    try:
        r = run_case(sc, f["tool"], f["data"], tuple(f["opts"]))
        return judge(r, len(f["data"]))
    finally:
        if own:
            sc.close()


def same_bucket(v, sig):
    if v is None:
        return False
    if sig == F9_SIG:
        return v[0].startswith("signal-")
    return v[0] == sig


def minimise(f, budget=100):
    """line-level then chunk-level ddmin keeping the same bucket"""
    sig = f["sig"]
    data = f["data"]
    sc = F.Scratch("c06_min_%d" % os.getpid())
    calls = [0]

    def fails(d):
        calls[0] += 1
        if calls[0] > budget:
            return False
        g = dict(f)
        g["data"] = d
        return same_bucket(recheck(g, sc), sig)
    try:
        if len(data) > 300000:
            return data
        for sep in (b"\n", None):
            parts = data.split(sep) if sep else [data[i:i + 1] for i in range(len(data))] if len(data) < 400 else None
            if parts is None:
                break
            n = 2
            while len(parts) >= 2 and calls[0] <= budget:
                chunk = max(1, len(parts) // n)
                reduced = False
                for i in range(0, len(parts), chunk):
                    cand = parts[:i] + parts[i + chunk:]
                    d = (sep or b"").join(cand)
                    if cand and fails(d):
                        parts = cand
                        n = max(n - 1, 2)
                        reduced = True
                        break
                if not reduced:
                    if chunk == 1:
                        break
                    n = min(len(parts), n * 2)
            data = (sep or b"").join(parts)
        return data
    finally:
        sc.close()


def main(tier, seed):
    build.ensure("san")
    ev = common.Evidence(PROP, LEVEL, tier, seed, RULE)
    ev.assumptions.append("no coverage guidance: the tools exit() inside the library and keep unresettable global state, so each input is a fresh "
                          "subprocess of the sanitized binary; -fsanitize=function is off in the shared san build (lib/build.py, finding F39) and does "
                          "not instrument C code with clang 14 anyway")
    findings = common.Findings(os.environ.get("VERIF_FINDINGS"))
    open_sigs = set(e["sig"] for e in findings.open_for(PROP))
    rc = 0
    fails = []
    f9_present = f9_probe()
    ev.extra["finding_F9_present_in_tree"] = f9_present

    # (e) shipped schemas
    data = M.shipped(common.REPO, "data")
    data.sort(key=lambda p: os.path.getsize(p))
    jobs = [(p, "check-express") for p in data]
    others = data if tier == "thorough" else data[:4]
    for p in others:
        for t in ("exppp", "exp2cxx", "exp2python"):
            if t == "exp2python" and F9_SIG in open_sigs and f9_present:
                ev.exclude("exp2python on shipped schema (finding %s)" % F9_SIG)
                continue
            jobs.append((p, t))
    jobs.sort(key=lambda j: -os.path.getsize(j[0]))
    t0 = time.time()
    ship = common.pmap(common.guarded(shipped_job), jobs)
    ev.extra["shipped"] = []
    for (p, t), (status, res) in zip(jobs, ship):
        if status != "ok":
            print("machinery error (shipped):\n" + res)
            rc = 3
            continue
        ev.extra["shipped"].append({"schema": os.path.basename(p), "tool": t, "status": res["status"], "cpu_s": res["cpu"]})
        ev.case(common.chash([p, t]), False, classes=["class:e", "kind:e:shipped", "tool:" + t, "outcome:" + ("clean" if not res["v"] else res["v"][0].split(":")[0])])
        if res["v"]:
            if f9_present and t == "exp2python" and res["v"][0].startswith("signal-"):
                res["v"] = (F9_SIG, res["v"][1])
            fails.append({"sig": res["v"][0], "what": "[shipped %s %s] %s" % (os.path.basename(p), t, res["v"][1]), "data": open(p, "rb").read(),
                          "tool": t, "opts": [], "kind": "e:shipped", "path": p})
    ev.extra["shipped_wall_s"] = round(time.time() - t0, 1)

    # seeds for the campaign
    n_src = 60 if tier == "quick" else 300
    srcs = M.sources(common.sub_seed(seed, PROP, "schemas"), n_src, {"expgen": {"max_ent": 7, "max_typ": 5}})
    seeds = [s["text"] for s in srcs]
    for p in M.shipped(common.REPO, "unitary"):
        try:
            seeds.append(open(p, encoding="latin-1").read())
        except OSError:
            pass
    big = [open(p, "rb").read() for p in data[:3]] if tier == "thorough" else [open(data[0], "rb").read()]
    n_cases = 14000 if tier == "quick" else 150000
    rseeds = M._hyp_collect(__import__("hypothesis").strategies.integers(0, 2 ** 48), common.sub_seed(seed, PROP, "cases"), n_cases)
    rseeds = list(dict.fromkeys(rseeds))
    chunks = [rseeds[i::64] for i in range(64)]
    res = common.pmap(common.guarded(campaign_chunk), [(i, c, seeds, big, tier, seed, open_sigs, f9_present) for i, c in enumerate(chunks) if c])
    for status, r in res:
        if status != "ok":
            print("machinery error in a C06 worker:\n" + r)
            rc = 3
            continue
        ev.merge(r["ev"])
        fails += r["fails"]

    # scaling probes
    probes = [(name, "check-express") for name in sorted(M.STRETCH)]
    if tier == "thorough":
        probes += [(name, "exppp") for name in sorted(M.STRETCH)]
    pr = common.pmap(common.guarded(probe_job), probes, nproc=max(2, common.NPROC // 2))
    ev.extra["scaling"] = []
    for (name, tool), (status, r) in zip(probes, pr):
        if status != "ok":
            print("machinery error (probe):\n" + r)
            rc = 3
            continue
        ev.extra["scaling"].append(r)
        ev.case(common.chash(["probe", name, tool]), True, classes=["class:d", "kind:d:scaling-probe", "tool:" + tool])
        if r.get("superlinear"):
            worst = max(ts[-1] for ts in r["times"])
            if worst > ceiling(0):
                fails.append({"sig": "superlinear:" + name, "what": "[scaling %s %s] cpu times %s at n=%d..%d" % (name, tool, r["times"], r["n"], r["n"] * 8),
                              "data": M.stretch(name, r["max"]).encode("latin-1"), "tool": tool, "opts": [], "kind": "d:" + name})
            else:
                ev.inconclusive.append("super-linear growth within the ceiling (unasserted): %s %s times %s" % (name, tool, r["times"]))
        elif "aborted" in r:
            ev.inconclusive.append("scaling probe %s %s aborted at n=%s: %s (the failing case itself is reported by the campaign)" % (name, tool, r.get("n"), r["aborted"]))

    # verdicts: one per root cause
    by_sig = {}
    for f in fails:
        by_sig.setdefault(f["sig"], []).append(f)
    ev.extra["buckets"] = {s: len(v) for s, v in sorted(by_sig.items())}
    reported = 0
    for sig in sorted(by_sig):
        fs = sorted(by_sig[sig], key=lambda f: len(f["data"]))
        k = findings.match(PROP, sig)
        if k:
            ev.known_hit(k["id"], len(fs))
            continue
        if reported >= 10:
            ev.violations += 1
            ev.bump("violations-not-minimised")
            rc = max(rc, 1)
            continue
        reported += 1
        f = dict(fs[0])
        if sig == "hang" or sig.startswith("superlinear"):
            ok = all(same_bucket(recheck(f), sig) for _ in range(3)) if sig == "hang" else True
        else:
            try:
                f["data"] = minimise(f)
            except Exception as e:
                ev.inconclusive.append("minimisation failed: %s" % e)
            ok = all(same_bucket(recheck(f), sig) for _ in range(3))
        if not ok:
            ev.inconclusive.append("failure did not reproduce 3x alone: %s %s" % (sig, f["what"][:200]))
            continue
        d = common.save_replay(PROP, {"input.exp": f["data"], "case.json": json.dumps({"tool": f["tool"], "opts": f["opts"], "sig": sig, "kind": f["kind"]})},
                               {"property": PROP, "sig": sig, "what": f["what"], "seed": seed, "tier": tier, "occurrences": len(fs),
                                "kinds": sorted(set(x["kind"] for x in fs))[:12], "tools": sorted(set(x["tool"] for x in fs))})
        ev.violations += 1
        common.print_violation(PROP, d, "%s (%d cases; tools %s; kinds %s): %s" % (sig, len(fs), sorted(set(x["tool"] for x in fs)),
                                                                                    sorted(set(x["kind"] for x in fs))[:5], f["what"]))
        rc = max(rc, 1)
    for fid in ev.known:
        e = [x for x in findings.entries if x.get("id") == fid]
        common.print_known(PROP, e[0]["what"] if e else fid)
    min_cases = 8000 if tier == "quick" else 80000
    if ev.evaluations < min_cases and rc == 0:
        print("machinery failure: only %d cases executed" % ev.evaluations)
        rc = 3
    ev.write()
    print("%s %s: %d cases, %d distinct non-trivial, %d buckets, %d violations, known=%s, %.0fs"
          % (PROP, tier, ev.evaluations, len(ev.nontrivial), len(by_sig), ev.violations, ev.known, time.time() - ev.t0))
    return rc


def replay(path):
    build.ensure("san")
    c = json.load(open(os.path.join(path, "case.json")))
    c["data"] = open(os.path.join(path, "input.exp"), "rb").read()
    if c["sig"].startswith("superlinear"):
        name = c["sig"].split(":", 1)[1]
        sc = F.Scratch("c06_replay")
        r = scaling_probe(sc, name, c["tool"], max(1, M.STRETCH[name][1] // 8))
        sc.close()
        if r.get("superlinear"):
            common.print_violation(PROP, path, "still super-linear: %s" % r)
            return 1
        print("replay passes")
        return 0
    v = recheck(c)
    if v:
        common.print_violation(PROP, path, "%s: %s" % v)
        return 1
    print("replay passes")
    return 0
