"""C03 - the reader never reports a schema-violating exchange file as clean.
Generated: conforming (schema, population); then EVERY applicable single fault from the statement's list, enumerated over
all positions of the population (every instance / part / attribute occurrence).
Oracle: (a) the read ends with severity <= INCOMPLETE ("worse than a user message") and p21read exits non-zero;
(b) confinement: every other instance (that does not refer to the faulted one) is loaded with the values it has in the file."""
import copy
import json
import os
import re
import shutil

from hypothesis import strategies as st

import common
import farm
import farmcheck
import zoo
import expmodel
import p21gen
import p21render
import p21parse
from farm import Found
import c01
import c15

PROP = "C03"
RULE = ("For each generated conforming population every applicable single fault of the statement's classes is enumerated (not "
        "sampled) over every instance, part and attribute occurrence: parameter removed / duplicated, literal of another kind "
        "(per expected kind x offending kind), undeclared or abstract entity keyword, undeclared enumeration item, '*' on a "
        "non-derived attribute, value on a derived one, required aggregate '$', reference to an absent id, reference to an "
        "instance of an unrelated type, select value outside the select list, duplicate instance id, missing ';', missing "
        "')', unterminated string. The faulted file is read by the driver and by p21read. Non-trivial: the fault is not in "
        "the only attribute of a one-attribute simple instance (the shape of the existing tests); distinct by (schema, "
        "population, fault class, position).")

NOT_ITEM = "ZZQ_NOT_AN_ITEM"
NOT_ENTITY = "zzq_not_an_entity"

# offending tokens per expected kind (each is outside the Part 21 grammar for that kind / outside the schema)
WRONG = {
    "INTEGER": ["'str'", "1.5", ".T.", "(1)", '"0A"'],
    "REAL": ["'str'", "5", ".T.", "(1.)"],
    "NUMBER": ["'str'", ".T.", "(1.)"],
    "STRING": ["5", "1.5", ".T.", "('a')"],
    "BOOLEAN": ["5", "'str'", "1.5"],
    "LOGICAL": ["5", "'str'"],
    "BINARY": ["5", "'str'", ".T."],
    "ENUMERATION": ["5", "'str'", "." + NOT_ITEM + "."],
    "ENTITY": ["5", "'str'", ".T."],
    "AGGREGATE": ["5", "'str'"],
    "SELECT": ["ZZQ_NOT_A_MEMBER(5)"],
}
MARK = "@@FAULT@@"


def gen_faults(sch, pop):
    """Yield fault descriptors: dict(cls, target, ...)."""
    ids = [i["id"] for i in pop["instances"]]
    absent = max(ids + [0]) + 777
    for (target, sl, pos, inherited, cx, nslots) in c15.enumerate_targets_all(sch, pop):
        kind = c15.slot_kind(sch, sl)
        ii, pi, si = target
        inst = pop["instances"][ii]
        base = {"target": list(target), "kind": kind, "pos": pos, "inherited": inherited, "complex": cx, "nslots": nslots}
        if sl["derived"]:
            yield dict(base, cls="value-on-derived", token={"INTEGER": "5", "REAL": "1.5", "NUMBER": "2.5", "STRING": "'v'", "BOOLEAN": ".T.", "LOGICAL": ".T."}.get(kind, "5"))
            continue
        if not last_slot_optional(sch, inst, pi):
            # with an OPTIONAL last attribute a removed parameter is indistinguishable from "the last value is empty",
            # which C15 says is accepted for OPTIONAL attributes - not asserted here
            yield dict(base, cls="param-removed")
        yield dict(base, cls="param-duplicated")
        cur = inst["parts"][pi]["vals"][si]
        for tok in WRONG.get(kind, []):
            yield dict(base, cls="wrong-kind:%s<-%s" % (kind, tok_kind(tok)), token=tok)
        if kind == "ENUMERATION":
            # near misses of declared items: a proper prefix, an extension, an item of another enumeration
            items = [i.upper() for i in sch.resolve(sl["type"])[2]]
            near = []
            for it in items:
                for cand in (it[:-1], it[:1], it + "X", it + "_"):
                    if cand and cand not in items and cand not in near and (cand[0].isalpha()):
                        near.append(cand)
            for t2 in sch.d["types"]:
                if t2["kind"] == "enum":
                    for it in t2["items"]:
                        if it.upper() not in items and it.upper() not in near:
                            near.append(it.upper())
            for cand in near[:6]:
                yield dict(base, cls="enum-item-near-miss", token="." + cand + ".")
        if kind in ("BOOLEAN", "LOGICAL"):
            for cand in ([".TRUE.", ".X.", ".TF."] + ([".U."] if kind == "BOOLEAN" else [])):
                yield dict(base, cls="%s-item-near-miss" % kind.lower(), token=cand)
        yield dict(base, cls="star-on-non-derived", token="*")
        if kind == "AGGREGATE" and not sl["optional"]:
            yield dict(base, cls="required-aggregate-null", token="$")
        if kind == "ENTITY":
            yield dict(base, cls="ref-absent", token="#%d" % absent)
            ent = sch.resolve(sl["type"])[1]
            wrong = [o for o in pop["instances"] if ent not in sch.closure([p["ent"] for p in o["parts"]]) and o["id"] != inst["id"]]
            if cx:
                # in an externally mapped instance the slot may be narrowed by a re-declaration that another part brings along
                # (r_3 re-declares beta.edgex : r_3): an instance that still fits the type written in the declaring entity is a
                # violation only through that re-declaration - its own class, see finding F83
                decl = [a for a in sch.ent(inst["parts"][pi]["ent"])["attrs"] if a["name"].lower() == sl["name"].lower() and not a.get("redecl")]
                if decl and decl[0]["type"].get("k") == "named" and sch.is_entity(decl[0]["type"]["name"]):
                    orig = decl[0]["type"]["name"].lower()
                    narrowed_only = [o for o in wrong if orig in sch.closure([p["ent"] for p in o["parts"]])]
                    wrong = [o for o in wrong if o not in narrowed_only]
                    if narrowed_only:
                        yield dict(base, cls="ref-wrong-type-by-redeclaration-in-complex", token="#%d" % narrowed_only[0]["id"])
            if wrong:
                yield dict(base, cls="ref-wrong-type", token="#%d" % wrong[0]["id"])
        if kind == "AGGREGATE" and cur[0] == "agg":
            r = sch.resolve(sl["type"])[1]
            ek = sch.resolve(r["of"])
            if ek[0] == "entity":
                yield dict(base, cls="ref-absent-in-aggregate", token="(#%d)" % absent)
                wrong = [o for o in pop["instances"] if ek[1] not in sch.closure([p["ent"] for p in o["parts"]]) and o["id"] != inst["id"]]
                if wrong:
                    yield dict(base, cls="ref-wrong-type-in-aggregate", token="(#%d)" % wrong[0]["id"])
            elif ek[0] == "simple" and ek[1] in ("INTEGER", "STRING", "BOOLEAN"):
                bad = {"INTEGER": "'str'", "STRING": "5", "BOOLEAN": "5"}[ek[1]]
                n = r["hi"] - r["lo"] + 1 if r["agg"] == "ARRAY" else max(1, r["lo"])
                yield dict(base, cls="wrong-kind-in-aggregate:%s" % ek[1], token="(" + ",".join([bad] * n) + ")")
        if kind == "SELECT" and cur[0] == "typed":
            # violations INSIDE a typed select value: a literal of the wrong kind for the named member (reached directly or through
            # nested selects), and the keyword of a defined type that is not in the select list
            mk = sch.resolve({"k": "named", "name": cur[1].lower()})
            base_kind = mk[1] if mk[0] == "simple" else {"enum": "ENUMERATION", "agg": "AGGREGATE"}.get(mk[0])
            nested = cur[1].lower() not in sch.select_direct_members(sch.resolve(sl["type"])[1])
            for tok in WRONG.get(base_kind, [])[:3]:
                if base_kind == "NUMBER" or (base_kind == "REAL" and tok_kind(tok) == "INTEGER"):
                    continue        # (integer form where a real is expected: finding F24's territory, not a clear violation here)
                yield dict(base, cls="typed-select-value-wrong-kind:%s<-%s%s" % (base_kind, tok_kind(tok), ":nested-select" if nested else ""),
                           token="%s(%s)" % (cur[1], tok))
            sel_leaves = sch.select_leaves(sch.resolve(sl["type"])[1])
            def chain(n):
                out = set()
                while n in sch.types and n not in out:
                    out.add(n)
                    t_ = sch.types[n]
                    if t_["kind"] != "defined" or t_["of"]["k"] != "named":
                        break
                    n = t_["of"]["name"].lower()
                return out
            leaf_chains = set()
            for lf in sel_leaves:
                leaf_chains |= chain(lf)
            # (a type on the rename chain of a member is left alone: whether a specialisation may stand for the member is arguable)
            others = [t["name"] for t in sch.d["types"] if t["kind"] == "defined" and not (chain(t["name"].lower()) & leaf_chains)
                      and sch.resolve({"k": "named", "name": t["name"].lower()})[0] == "simple"]
            if others:
                ok = sch.resolve({"k": "named", "name": others[0].lower()})[1]
                lit = {"INTEGER": "1", "REAL": "1.5", "NUMBER": "1.5", "STRING": "'v'", "BOOLEAN": ".T.", "LOGICAL": ".T.", "BINARY": '"0A"'}[ok]
                yield dict(base, cls="typed-select-value-type-outside-list", token="%s(%s)" % (others[0].upper(), lit))
        if kind == "SELECT":
            leaves = sch.select_leaves(sch.resolve(sl["type"])[1])
            wrong = [o for o in pop["instances"] if not any(l in sch.closure([p["ent"] for p in o["parts"]]) for l in leaves if sch.is_entity(l)) and o["id"] != inst["id"]]
            if wrong:
                yield dict(base, cls="select-ref-outside-list", token="#%d" % wrong[0]["id"])
    for ii, inst in enumerate(pop["instances"]):
        where = "first" if ii == 0 else ("last" if ii == len(pop["instances"]) - 1 else "middle")
        for pi, part in enumerate(inst["parts"]):
            yield {"cls": "keyword-undeclared", "inst": ii, "part": pi, "ipos": where, "complex": inst["complex"]}
            abstract = [e for e in sch.order if sch.ent(e)["abstract"]]
            if abstract and not inst["complex"]:
                yield {"cls": "keyword-abstract", "inst": ii, "part": pi, "ipos": where, "complex": False, "ent": abstract[0]}
        if len(pop["instances"]) > 1:
            other = pop["instances"][(ii + 1) % len(pop["instances"])]
            yield {"cls": "duplicate-id", "inst": ii, "dup_of": other["id"], "ipos": where, "complex": inst["complex"]}
        yield {"cls": "missing-semicolon", "inst": ii, "ipos": where, "complex": inst["complex"]}
        yield {"cls": "missing-close-paren", "inst": ii, "ipos": where, "complex": inst["complex"]}
        if any(v[0] == "s" for p in inst["parts"] for v in p["vals"]):
            yield {"cls": "unterminated-string", "inst": ii, "ipos": where, "complex": inst["complex"]}


def last_slot_optional(sch, inst, pi):
    part = inst["parts"][pi]
    if inst["complex"]:
        slots = sch.part_slots(part["ent"], [p["ent"] for p in inst["parts"]])
    else:
        slots = sch.p21_slots(part["ent"])
    return bool(slots) and (slots[-1]["optional"] and not slots[-1]["derived"])


def tok_kind(tok):
    if tok.startswith("'"):
        return "STRING"
    if tok.startswith("."):
        return "ENUM"
    if tok.startswith("("):
        return "AGGREGATE"
    if tok.startswith('"'):
        return "BINARY"
    if tok.startswith("#"):
        return "REF"
    if "." in tok:
        return "REAL"
    if tok[0].isalpha():
        return "TYPED"
    return "INTEGER"


def apply_fault(pop, fault, layout, feats):
    """Returns (text, faulted_ids, truncating). faulted_ids: ids whose own record is faulted."""
    pop2 = copy.deepcopy(pop)
    cls = fault["cls"]
    if "target" in fault:
        ii, pi, si = fault["target"]
        inst = pop2["instances"][ii]
        vals = inst["parts"][pi]["vals"]
        if cls == "param-removed":
            del vals[si]
            return p21render.render(pop2, layout, feats=feats), [inst["id"]], False
        if cls == "param-duplicated":
            vals.insert(si, copy.deepcopy(vals[si]))
            return p21render.render(pop2, layout, feats=feats), [inst["id"]], False
        vals[si] = ["s", MARK]
        text = p21render.render(pop2, layout, feats=feats)
        assert text.count("'" + MARK + "'") == 1
        return text.replace("'" + MARK + "'", fault["token"]), [inst["id"]], False
    ii = fault["inst"]
    inst = pop2["instances"][ii]
    if cls == "keyword-undeclared":
        inst["parts"][fault["part"]]["ent"] = NOT_ENTITY
        return p21render.render(pop2, layout, feats=feats - {"part-order"}), [inst["id"]], False
    if cls == "keyword-abstract":
        inst["parts"][fault["part"]]["ent"] = fault["ent"]
        return p21render.render(pop2, layout, feats=feats), [inst["id"]], False
    if cls == "duplicate-id":
        old = inst["id"]
        inst["id"] = fault["dup_of"]
        return p21render.render(pop2, layout, feats=feats), [old, fault["dup_of"]], False
    # textual faults on the canonical layout: each instance is one line "#id=...;"
    text = p21render.render(pop2, 0)
    lines = text.split("\n")
    key = "#%d=" % inst["id"]
    k = [n for n, l in enumerate(lines) if l.startswith(key)][0]
    line = lines[k]
    if cls == "missing-semicolon":
        line = line[:-1]
    elif cls == "missing-close-paren":
        line = line[:-2] + ";"
    elif cls == "unterminated-string":
        # drop the closing quote of the first string literal of the record (found with the reference parser's scanner: an
        # apostrophe may also be the argument of a \S\ directive)
        a = line.index("'")
        j = p21parse._scan_string(line, a) - 1
        line = line[:j] + line[j + 1:]
    lines[k] = line
    return "\n".join(lines), [inst["id"]], True


def oracle(lib, pop, text, faulted_ids, truncating, wd, tag):
    f = os.path.join(wd, tag + ".p21")
    with open(f, "w") as fh:
        fh.write(text)
    probs = []
    try:
        r = farm.drv(lib, ["read", f], cwd=wd, timeout=20)
        if r["rc"] != 0 or r["json"] is None:
            return ["driver died: rc=%s stderr=%s" % (r["rc"], r["err"][-400:])]
        js = r["json"]
        sev = js["read"]["sev"]
        rc, out, err, _ = common.run([lib["exes"]["p21read"], f, os.path.join(wd, tag + ".pr")], cwd=wd, timeout=20)
        if sev > 1:
            probs.append("read of the faulted file ended with severity %d (not worse than a user message)" % sev)
        if rc == 0:
            probs.append("p21read exit status 0 on the faulted file")
        elif rc is None or rc < 0 or rc > 1:
            probs.append("p21read ended abnormally: %s" % rc)
        # confinement
        got = {g["id"]: g for g in js["instances"]}
        order = [i["id"] for i in pop["instances"]]
        first_faulted = min(order.index(x) for x in faulted_ids if x in order) if any(x in order for x in faulted_ids) else 0
        texts = []
        for n, other in enumerate(pop["instances"]):
            if other["id"] in faulted_ids:
                continue
            if any(x in faulted_ids for x in p21gen.inst_refs(other)):
                continue
            if truncating and (n > first_faulted or any(order.index(x) >= first_faulted for x in p21gen.inst_refs(other) if x in order)):
                continue     # the unterminated record textually absorbs what follows; only earlier instances (that refer
                             # to earlier instances only) are asserted
            if other["id"] not in got:
                probs.append("conforming instance #%d missing after the read" % other["id"])
                continue
            texts.append((other, got[other["id"]]["text"]))
        if texts:
            try:
                parsed = c15.parse_instance_texts([t for _o, t in texts])
                for (other, _t), g in zip(texts, parsed):
                    probs += ["conforming instance changed: " + x for x in p21gen.cmp_instance(other, g)]
            except p21parse.P21SyntaxError as e:
                probs.append("other instances do not serialise to valid Part 21: %s" % e)
        return probs
    finally:
        for p in (f, os.path.join(wd, tag + ".pr")):
            try:
                os.remove(p)
            except OSError:
                pass


def delimiter_in_faulted_string(pop, faulted_ids):
    def strs(v):
        if v[0] == "s":
            yield v[1]
        elif v[0] == "agg":
            for x in v[1]:
                for y in strs(x):
                    yield y
        elif v[0] == "typed":
            for y in strs(v[2]):
                yield y
    for inst in pop["instances"]:
        if inst["id"] in faulted_ids:
            for p in inst["parts"]:
                for v in p["vals"]:
                    for t in strs(v):
                        if any(ch in t for ch in "(),;'"):
                            return True
    return False


def case(ctx, x):
    pop, layout = x
    ev = ctx.ev
    for k, v in pop.pop("excluded", {}).items():
        ev.exclude(k, v)
    is_probe = pop.pop("probe", None)
    if is_probe:
        ev.bump("probe-population(strings with delimiters allowed)")
    if not pop["instances"]:
        return
    sch = expmodel.Schema(ctx.lib["schema"])
    # layout: white space and part order only. Comments are C01's subject; the reader's skip/recovery scanning is not
    # comment aware (finding F20 family) and would blur the confinement oracle here.
    feats = {"ws", "part-order"}
    pop_hash = c01.pop_canon(ctx, pop)
    seen_cls = {}
    for fault in gen_faults(sch, pop):
        cell = (fault["cls"], fault.get("pos", fault.get("ipos")), fault.get("complex"), fault.get("inherited", False))
        if ctx.tier == "quick":
            if seen_cls.get(cell, 0) >= 1:
                ev.exclude("repeat of the same (fault class, position class, complex, inherited) cell within one population (quick tier)")
                continue
        seen_cls[cell] = seen_cls.get(cell, 0) + 1
        text, faulted, trunc = apply_fault(pop, fault, layout, feats)
        tag = ctx.tag()
        nt = not (fault.get("nslots") == 1 and not fault.get("complex"))
        classes = ["fault:" + fault["cls"].split(":")[0], "position:%s" % (fault.get("pos") or fault.get("ipos"))]
        if fault.get("complex"):
            classes.append("in-complex-instance")
        if fault.get("inherited"):
            classes.append("inherited-attribute")
        ev.bump("cell:%s/%s%s" % (fault["cls"], fault.get("pos") or fault.get("ipos"), "/complex" if fault.get("complex") else ""))
        sample = None
        if nt and len(ev.samples) < 4 and ctx.n % 37 == 0:
            sample = {"fault": fault["cls"], "file_tail": text[-500:]}
        ev.case(common.chash([pop_hash, json.dumps(fault, sort_keys=True)]), nt, classes=classes, sample=sample)
        probs = oracle(ctx.lib, pop, text, faulted, trunc, ctx.wd, tag)
        if probs:
            sig = "%s:%s" % (fault["cls"], c01.signature(probs))
            if is_probe and "recovery-not-string-aware" in ctx.open_sigs and delimiter_in_faulted_string(pop, faulted) \
                    and all(p.startswith("conforming instance") for p in probs):
                ctx.known("recovery-not-string-aware")
                continue
            if fault.get("complex") and "target" in fault and "complex-nonhead-part-errors-dropped" in ctx.open_sigs \
                    and all(p.startswith("read of the faulted file ended") or p.startswith("p21read exit status 0") for p in probs):
                inst = pop["instances"][fault["target"][0]]
                head = min(p["ent"].lower() for p in inst["parts"])
                if inst["parts"][fault["target"][1]]["ent"].lower() != head and ctx.known("complex-nonhead-part-errors-dropped"):
                    continue
            if fault.get("complex") and fault["cls"] == "unterminated-string" and "complex-nonhead-part-errors-dropped" in ctx.open_sigs \
                    and all(p.startswith("read of the faulted file ended") or p.startswith("p21read exit status 0") for p in probs):
                # the string that lost its closing quote is the first one of the record: the error is raised while its part is read
                inst = pop["instances"][fault["inst"]]
                head = min(p["ent"].lower() for p in inst["parts"])
                m = re.search(r"#%d\s*=\s*\(" % inst["id"], text)
                seg = text[m.end():] if m else ""
                q = seg.find("'")
                kws = re.findall(r"([A-Za-z_][A-Za-z0-9_]*)\s*\(", seg[:q]) if q >= 0 else []
                if kws and kws[-1].lower() != head and ctx.known("complex-nonhead-part-errors-dropped"):
                    continue
            if ctx.known(sig) or ctx.known(fault["cls"]):
                continue
            raise Found({"what": "[%s] " % fault["cls"] + "; ".join(probs[:3]), "sig": sig, "pop": pop, "text": text,
                         "faulted": faulted, "trunc": trunc, "fault": fault})


def main(tier, seed):
    n_schemas, n_ex = (12, 40) if tier == "quick" else (60, 100)
    cfg = {"max_inst": 5, "min_inst": 1} if tier == "quick" else {"max_inst": 10, "min_inst": 1}
    probe = None
    if any(e["sig"] == "recovery-not-string-aware" for e in common.Findings().open_for(PROP)):
        cfg["plain_strings"] = True
        probe = {"plain_strings": False}
    return farmcheck.run(PROP, "fault_enumeration", RULE, tier, seed, n_schemas, n_ex,
                         make_strategy=lambda lib: st.tuples(p21gen.populations(lib["schema"], cfg, probe), st.integers(0, 10**6)),
                         case_fn=case,
                         confirm_fn=lambda lib, f, wd: bool(oracle(lib, f["pop"], f["text"], f["faulted"], f["trunc"], wd, "confirm")),
                         replay_files=lambda f: {"input.p21": f["text"], "case.json": json.dumps({"pop": f["pop"], "faulted": f["faulted"], "trunc": f["trunc"], "fault": f["fault"]})},
                         schema_cfg=c01.SCHEMA_CFG, extra_schemas=[zoo.ZOO], min_cases=300)


def replay(path):
    lib, root = farmcheck.replay_lib(path, name="c03-replay")
    if not lib["ok"]:
        common.print_violation(PROP, path, "schema does not build")
        return 1
    c = json.load(open(os.path.join(path, "case.json")))
    probs = oracle(lib, c["pop"], open(os.path.join(path, "input.p21")).read(), c["faulted"], c["trunc"], root, "replay")
    shutil.rmtree(root, ignore_errors=True)
    if probs:
        common.print_violation(PROP, path, "; ".join(probs[:5]))
        return 1
    print("replay passes")
    return 0
