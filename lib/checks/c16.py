"""C16 - working-session files round-trip populations with per-instance state.
Generated: (schema, population) - conforming, and partially filled (some required attributes of kinds without a lenient
filler set to `$`) - x a state per instance from {C, I, N, D} (I forced for partially filled ones; D only for instances
nobody references) x 2 save/load cycles.
Oracle: W1 is a syntactically valid working-session file that lists every instance with its state letter and model values;
after ReadWorkingFile the session holds exactly the non-deleted instances, each with the state it was saved with and the
model's values; saving again gives W1 minus the deleted instances' lines, byte for byte (time stamp aside), and a further
cycle reproduces that file exactly."""
import copy
import json
import os
import re
import shutil

from hypothesis import strategies as st

import common
import farm
import farmcheck
import zoo
import expmodel
import p21gen
import p21render
import p21parse
from farm import Found
import c01
import c15

PROP = "C16"
RULE = ("Hypothesis draws schema, conforming population, a set of required non-fillable attribute occurrences to blank with '$' "
        "(partially filled instances), a state letter per instance and a layout; the real library reads the exchange file, "
        "assigns the states, writes a working-session file, reads it back in a fresh session, writes again, and once more. "
        "Non-trivial: >=2 different states among the instances and >=1 deleted or incomplete instance. Distinct by "
        "hash(schema, population, blanks, states).")


def mask(text):
    return c01.mask_ts(text)


def oracle(lib, pop_exp, text, states, wd, tag, strict=False):
    """pop_exp: expected model (with blanks applied); states: {id: letter}."""
    f = os.path.join(wd, tag + ".p21")
    w = [os.path.join(wd, "%s.w%d" % (tag, i)) for i in (1, 2, 3)]
    with open(f, "w") as fh:
        fh.write(text)
    for p in w:
        if os.path.exists(p):
            os.remove(p)
    st_arg = ",".join("%d:%s" % (i, s) for i, s in sorted(states.items()))
    # strict: False = reload in a fresh lenient session, True = in a fresh strict session, "same" = into the session the file was saved from
    r = farm.drv(lib, ["ws", f, st_arg or "0:C"] + w + (["-same"] if strict == "same" else (["-s"] if strict else [])), cwd=wd, timeout=30)
    probs = []
    try:
        if r["rc"] != 0 or r["json"] is None:
            return ["driver died: rc=%s stderr=%s" % (r["rc"], r["err"][-400:])]
        js = r["json"]
        assigned = {i["id"]: i["state"] for i in js["assigned"]}
        if assigned != {k: v for k, v in states.items()}:
            if os.environ.get("VERIF_C16_DUMP"):
                import shutil as _sh
                _sh.copy(f, os.path.join(os.environ["VERIF_C16_DUMP"], "c16_%d_%s.p21" % (os.getpid(), tag)))
                _sh.copy(lib["exp"], os.path.join(os.environ["VERIF_C16_DUMP"], "c16_%d.exp" % os.getpid()))
                open(os.path.join(os.environ["VERIF_C16_DUMP"], "c16_%d_%s.json" % (os.getpid(), tag)), "w").write(json.dumps({"assigned": sorted(assigned.items()), "states": sorted(states.items()), "strict": strict}))
                open(os.path.join(os.environ["VERIF_C16_DUMP"], "c16_%d_%s.err" % (os.getpid(), tag)), "w").write(st_arg + "\n" + r["err"][-3000:] + "\n" + r["out"][-3000:])
            return ["machinery: states could not be assigned as drawn: %s vs %s" % (assigned, states)]
        try:
            w1 = open(w[0], encoding="latin-1").read()
            p1 = p21parse.parse(w1)
        except (OSError, p21parse.P21SyntaxError) as e:
            return ["first working-session file missing or not valid: %s" % e]
        if p1["kind"] != "working":
            probs.append("saved file is not a working-session file")
        # (2) W1 lists every instance with its state and its values
        probs += ["W1: " + x for x in p21gen.cmp_population(pop_exp, p1)]
        for g in p1["data"]:
            if states.get(g["id"]) != g["state"]:
                probs.append("W1: instance #%d saved with state %s, expected %s" % (g["id"], g["state"], states.get(g["id"])))
        # (3) after reload: exactly the non-deleted instances, each with its state
        live = [i for i in pop_exp["instances"] if states[i["id"]] != "D"]
        after = js.get("after1")
        if after is None:
            return probs + ["reload did not happen"]
        got_states = [(i["id"], i["state"]) for i in after]
        want_states = [(i["id"], states[i["id"]]) for i in live]
        if got_states != want_states:
            probs.append("after reload: instances/states %s, expected %s" % (got_states, want_states))
        else:
            # (4) values after reload
            try:
                parsed = c15.parse_instance_texts([i["text"] for i in after])
                for e, g in zip(live, parsed):
                    probs += ["after reload: " + x for x in p21gen.cmp_instance(e, g)]
            except p21parse.P21SyntaxError as e:
                probs.append("reloaded instances do not serialise to valid Part 21: %s" % e)
        # (5) second save == first save minus the deleted instances; third == second
        try:
            w2 = open(w[1], encoding="latin-1").read()
            w3 = open(w[2], encoding="latin-1").read()
        except OSError as e:
            return probs + ["later working-session file missing: %s" % e]
        try:
            p2 = p21parse.parse(w2)
            exp2 = copy.deepcopy(pop_exp)
            exp2["instances"] = live
            pr = p21gen.cmp_population(exp2, p2)
            probs += ["W2: " + x for x in pr]
            if not pr:
                # byte comparison: W1 without the D-instances must equal W2
                if not any(s == "D" for s in states.values()):
                    if mask(w1) != mask(w2):
                        probs.append("second save differs from first: " + c01.first_diff(mask(w1), mask(w2)))
                else:
                    if mask(strip_deleted(w1)) != mask(w2):
                        probs.append("second save differs from first minus deleted instances: " + c01.first_diff(mask(strip_deleted(w1)), mask(w2)))
            if mask(w3) != mask(w2):
                probs.append("third save differs from second: " + c01.first_diff(mask(w2), mask(w3)))
        except p21parse.P21SyntaxError as e:
            probs.append("second working-session file not valid: %s" % e)
        return probs
    finally:
        for p in [f] + w:
            try:
                os.remove(p)
            except OSError:
                pass


_DEL = re.compile(r"^D#\d+=.*?;\n", re.S | re.M)


def strip_deleted(w):
    """Remove the records of deleted instances (the writer starts each record on a new line with the state letter;
    a record ends with ';' outside strings, followed by a newline)."""
    rx = re.compile(r"^D(?:/\*.*?\*/\s*)*#\d+=", re.M | re.S)   # the writer puts saved comments after the letter
    i = 0
    while True:
        m = rx.search(w, i)
        if not m:
            return w
        k = m.end()
        n = len(w)
        while k < n:
            c = w[k]
            if c == "'":
                # (the reference parser's scanner: an apostrophe may also be the argument of a \S\ directive)
                k = p21parse._scan_string(w, k)
                continue
            if c == ";":
                break
            k += 1
        k += 1
        if k < n and w[k] == "\n":
            k += 1
        w = w[:m.start()] + w[k:]
        i = m.start()


FILLABLE = ("INTEGER", "REAL", "NUMBER", "STRING")


@st.composite
def cases(draw, schema, cfg):
    pop = draw(p21gen.populations(schema, cfg))
    sch = expmodel.Schema(schema)
    layout = draw(st.integers(0, 10**6))
    # blanks: required, non-derived slots of kinds that have no lenient filler
    cands = []
    for (target, sl, pos, inh, cx, n) in c15.enumerate_targets(sch, pop):
        if not sl["optional"] and c15.slot_kind(sch, sl) not in FILLABLE:
            cands.append(target)
    blanks = []
    if cands and draw(st.integers(0, 9)) < 5:
        k = draw(st.integers(1, min(3, len(cands))))
        blanks = draw(st.lists(st.sampled_from(cands), min_size=k, max_size=k, unique=True))
    partial_ids = set(pop["instances"][t[0]]["id"] for t in blanks)
    referenced = set(r for i in pop["instances"] for r in p21gen.inst_refs(i))
    states = {}
    for inst in pop["instances"]:
        # any state may be saved with any instance - also "complete" with an instance whose required attributes are
        # still missing: the statement says the saved state is restored "including instances whose required
        # attributes are still missing"
        choices = ["C", "C", "I", "N"] + (["D", "D"] if inst["id"] not in referenced else [])
        states[inst["id"]] = draw(st.sampled_from(choices))
    return {"pop": pop, "layout": layout, "blanks": [list(b) for b in blanks], "states": states,
            "strict": draw(st.sampled_from([False, True, "same", "same"])), "partial_ids": sorted(partial_ids)}


def apply_blanks(pop, blanks):
    p = copy.deepcopy(pop)
    for (ii, pi, si) in blanks:
        p["instances"][ii]["parts"][pi]["vals"][si] = ["null"]
    return p


def case(ctx, x):
    pop = x["pop"]
    ev = ctx.ev
    for k, v in pop.pop("excluded", {}).items():
        ev.exclude(k, v)
    pop.pop("probe", None)
    tag = ctx.tag()
    pop_exp = apply_blanks(pop, x["blanks"])
    feats = c01.layout_feats(ctx) - {"comment-inner"}
    text = p21render.render(pop_exp, x["layout"], feats=feats)
    states = {int(k): v for k, v in x["states"].items()}
    letters = set(states.values())
    nt = len(letters) >= 2 and ("D" in letters or "I" in letters)
    classes = ["state:" + s for s in sorted(letters)]
    if x["blanks"]:
        classes.append("partially-filled")
    if not pop["instances"]:
        classes.append("empty-population")
    sample = None
    if nt and len(ev.samples) < 2:
        sample = {"states": {str(k): v for k, v in states.items()}, "file": text[-800:]}
    ev.case(common.chash([c01.pop_canon(ctx, pop), x["blanks"], sorted(states.items())]), nt, classes=classes, sample=sample)
    strict = x.get("strict") if x.get("strict") == "same" else bool(x.get("strict"))
    classes2 = ["reload-into-the-same-session" if strict == "same" else ("reload-strict" if strict else "reload-lenient")]
    if any(states[i] != "I" for i in x.get("partial_ids", []) if i in states):
        classes2.append("partially-filled-saved-as-C/N/D")
    for c_ in classes2:
        ev.bump(c_)
    probs = oracle(ctx.lib, pop_exp, text, states, ctx.wd, tag, strict)
    if probs:
        sig = c01.signature(probs)
        if ctx.known(sig):
            return
        raise Found({"what": "; ".join(probs[:4]), "sig": sig, "pop_exp": pop_exp, "text": text, "states": {str(k): v for k, v in states.items()}, "strict": strict})


def main(tier, seed):
    n_schemas, n_ex = (12, 250) if tier == "quick" else (60, 400)
    cfg = {"max_inst": 8} if tier == "quick" else {"max_inst": 20}
    return farmcheck.run(PROP, "exploration", RULE, tier, seed, n_schemas, n_ex,
                         make_strategy=lambda lib: cases(lib["schema"], cfg), case_fn=case,
                         confirm_fn=lambda lib, f, wd: bool(oracle(lib, f["pop_exp"], f["text"], {int(k): v for k, v in f["states"].items()}, wd, "confirm", f.get("strict", False))),
                         replay_files=lambda f: {"input.p21": f["text"], "case.json": json.dumps({"pop_exp": f["pop_exp"], "states": f["states"], "strict": f.get("strict", False)})},
                         schema_cfg=c01.SCHEMA_CFG, extra_schemas=[zoo.ZOO])


def replay(path):
    lib, root = farmcheck.replay_lib(path, name="c16-replay")
    if not lib["ok"]:
        common.print_violation(PROP, path, "schema does not build")
        return 1
    c = json.load(open(os.path.join(path, "case.json")))
    probs = oracle(lib, c["pop_exp"], open(os.path.join(path, "input.p21")).read(), {int(k): v for k, v in c["states"].items()}, root, "replay", c.get("strict", False))
    shutil.rmtree(root, ignore_errors=True)
    if probs:
        common.print_violation(PROP, path, "; ".join(probs[:5]))
        return 1
    print("replay passes")
    return 0
