"""C12 - generators, pretty printer and schema scanner are deterministic functions of their input.

Generated: EXPRESS files (lib/c17gen.files: 1-3 schemas, every type shape, many declarations) whose aggregate bounds are
also CONSTANTs, constants defined by expressions, arithmetic expressions, function calls, attributes of the entity
(plain and SELF\\e.a) - the shapes that reach run-time dependent code paths; plus the shipped schemas /repo/data/*/*.exp.
Executed: each of exp2cxx, exp2python, exppp, schema_scanner is run K=4 times on the same bytes: run 0 = baseline (fresh
empty cwd, absolute path, ASLR on, small environment); run 1 = plain repetition in another fresh directory (ASLR on:
two runs with a randomised address space); runs 2,3 = configurations drawn by Hypothesis from
{setarch -R on/off} x {cwd shallow/deep} x {input named by absolute path, relative path, a/./sub/../ path, symlink} x
{environment padded with 0 / 4 kB / 64 kB} x {LC_ALL unset, C, C.UTF-8, POSIX} x {TZ} x {output directory fresh /
already holding the output of an earlier run of the same file} x {a different schema processed in a sibling directory
just before}.
Oracle: the exit status and the recursive byte content of the output tree (relative file names + contents) are equal in
all runs.  schema_scanner by design writes the schema path it was given into SCHEMA_TARGETS("...") and prints
<cwd>/<dir>: exactly these two places are normalised, and the file stem is the same under every naming so that the
directory name it derives does not change; everything else in its CMakeLists.txt is compared byte for byte.
Supporting evidence only (reported as classes, never a verdict): a generated file that contains the scratch cwd / input
directory token, or an integer literal of >= 7 digits that does not occur in the schema text."""
import json
import os
import platform
import re
import shutil

from hypothesis import strategies as st

import common
import c17
import c17gen
import c17run
from farm import Found

PROP = "C12"
RULE = ("Hypothesis draws an EXPRESS file (1-3 schemas, codegen profile with every type shape; aggregate upper bounds replaced by "
        "CONSTANTs, arithmetic expressions, function calls, entity attributes) and two run configurations; exp2cxx, exp2python, "
        "exppp and schema_scanner are each run 4 times (baseline, plain repeat with ASLR on, two drawn configurations over ASLR "
        "on/off, cwd depth, absolute/relative/dot-dot/symlink input path, environment size, LC_ALL, TZ, dirty output directory, "
        "earlier run of another schema) and the output trees are compared byte for byte. One evaluation = one (file, tool, "
        "configuration) compared with the baseline; non-trivial: the tool wrote >= 1 file and the configuration differs from "
        "the baseline in >= 1 dimension (a plain repeat differs in cwd and address-space layout). Distinct by hash(file, tool, "
        "configuration). Shipped schemas: exp2cxx/exppp/scanner(/exp2python) x {ASLR on, on, off}.")

TIMEOUT = 120         # shipped schemas
TIMEOUT_GEN = 30      # generated files (they take ~30 ms); a hit is reported as inconclusive, never as a verdict
TOOLS = ("exp2cxx", "exp2python", "exppp", "exppp-o", "schema_scanner")
SIG_F8 = "exp2cxx:aggregate-bound-printed-from-pointer"
EXCL_F8 = "aggregate bound given by a CONSTANT or by an entity attribute (open finding: exp2cxx prints a pointer as SetBound value)"

OTHER_SCHEMA = """SCHEMA earlier_run;
TYPE tag = ENUMERATION OF (aa, bb); END_TYPE;
ENTITY thing; t : tag; n : LIST [0:?] OF INTEGER; END_ENTITY;
ENTITY sub SUBTYPE OF (thing); END_ENTITY;
END_SCHEMA;
"""

ARCH = platform.machine()

CONFIGS = st.fixed_dictionaries({
    "aslr_off": st.booleans(),
    "deep": st.booleans(),
    "naming": st.sampled_from(["abs", "rel", "dotdot", "symlink"]),
    "envpad": st.sampled_from([0, 0, 4096, 65536]),
    "lc_all": st.sampled_from([None, "C", "C.UTF-8", "POSIX"]),
    "tz": st.sampled_from([None, "UTC", "Asia/Kolkata", "America/St_Johns"]),
    "dirty": st.booleans(),
    "earlier": st.booleans(),
})
BASE = {"aslr_off": False, "deep": False, "naming": "abs", "envpad": 0, "lc_all": None, "tz": None, "dirty": False, "earlier": False}


def read_tree(d):
    out = {}
    for root, _dirs, fs in os.walk(d):
        for f in fs:
            p = os.path.join(root, f)
            rel = os.path.relpath(p, d)
            if os.path.islink(p):
                out[rel] = b"-> " + os.readlink(p).encode()
            else:
                with open(p, "rb") as fh:
                    out[rel] = fh.read()
    return out


def run_tool(tool, text, stem, cfg, wd, idx, timeout=TIMEOUT_GEN):
    """One run. Returns dict(rc, tree{rel:bytes}, note)."""
    rd = os.path.join(wd, "r%d" % idx)
    shutil.rmtree(rd, ignore_errors=True)
    ind = os.path.join(rd, "inQ7")
    os.makedirs(os.path.join(ind, "sub"))
    exp = os.path.join(ind, stem + ".exp")
    with open(exp, "wb") as f:
        f.write(text if isinstance(text, bytes) else text.encode("latin-1", "replace"))
    cwd = os.path.join(rd, "cwdZ3", "a", "b", "c", "outdir") if cfg["deep"] else os.path.join(rd, "cwdZ3")
    os.makedirs(cwd)
    if cfg["naming"] == "abs":
        arg = exp
    elif cfg["naming"] == "rel":
        arg = os.path.relpath(exp, cwd)
    elif cfg["naming"] == "dotdot":
        arg = os.path.join(ind, ".", "sub", "..", stem + ".exp")
    else:
        ld = os.path.join(rd, "lnkK5")
        os.makedirs(ld)
        arg = os.path.join(ld, stem + ".exp")
        os.symlink(exp, arg)
    env = {"PATH": "/usr/bin:/bin", "HOME": rd}
    env.update(c17run.TOOL_ENV)
    if cfg["lc_all"]:
        env["LC_ALL"] = cfg["lc_all"]
    if cfg["tz"]:
        env["TZ"] = cfg["tz"]
    if cfg["envpad"]:
        n = cfg["envpad"] // 1024
        for i in range(n):
            env["C12PAD%04d" % i] = "x" * 1000
    pre = ["setarch", ARCH, "-R"] if cfg["aslr_off"] else []
    # "exppp-o" is the pretty printer with -o FILE (one output file chosen by the caller instead of <schema>.exp per schema)
    exe = c17run.TOOLS["exppp" if tool == "exppp-o" else tool]
    xargs = ["-o", "pretty_out.exp"] if tool == "exppp-o" else []
    if cfg["earlier"]:
        sib = os.path.join(os.path.dirname(cwd), "sibling")
        os.makedirs(sib, exist_ok=True)
        oe = os.path.join(ind, "sub", "earlier_run.exp")
        with open(oe, "w") as f:
            f.write(OTHER_SCHEMA)
        common.run([exe, oe], cwd=sib, timeout=timeout, env=env)
        shutil.rmtree(sib, ignore_errors=True)
    if cfg["dirty"]:
        rc0, _o, _e, _t = common.run(pre + [exe] + xargs + [arg], cwd=cwd, timeout=timeout, env=env)
        if rc0 is None:
            return {"rc": None, "tree": {}, "stdout": ""}
    rc, out, err, _t = common.run(pre + [exe] + xargs + [arg], cwd=cwd, timeout=timeout, env=env)
    if rc is None:
        return {"rc": None, "tree": {}, "stdout": ""}
    tree = read_tree(cwd)
    stdout = ""
    if tool == "schema_scanner":
        # by design: prints <cwd>/<dir>, writes the schema path as given into SCHEMA_TARGETS("...")
        stdout = "\n".join(l[len(cwd):] if l.startswith(cwd) else l for l in out.splitlines())
        for k in list(tree):
            if os.path.basename(k) == "CMakeLists.txt":
                tree[k] = re.sub(rb'^(SCHEMA_TARGETS\(")[^"]*(")', rb"\1<SCHEMA FILE AS NAMED>\2", tree[k], flags=re.M)
    res = {"rc": rc, "tree": tree, "stdout": stdout, "tokens": [b"cwdZ3", b"inQ7", b"lnkK5"]}
    shutil.rmtree(rd, ignore_errors=True)
    return res


_BOUND_LINE = re.compile(rb"^\s*\S+->SetBound[12]\( -?\d+ \);\s*$")


def diff_trees(a, b):
    """-> (description, only_bound_lines: bool) or None"""
    if a["rc"] != b["rc"]:
        return "exit status %s vs %s" % (a["rc"], b["rc"]), False
    if a["stdout"] != b["stdout"]:
        return "printed directories differ: %r vs %r" % (a["stdout"][:200], b["stdout"][:200]), False
    ta, tb = a["tree"], b["tree"]
    if sorted(ta) != sorted(tb):
        return "file sets differ: only in baseline %s, only in other %s" % (sorted(set(ta) - set(tb))[:5], sorted(set(tb) - set(ta))[:5]), False
    msgs = []
    only_bounds = True
    for k in sorted(ta):
        if ta[k] != tb[k]:
            la, lb = ta[k].split(b"\n"), tb[k].split(b"\n")
            if len(la) != len(lb):
                only_bounds = False
                msgs.append("%s: %d vs %d lines" % (k, len(la), len(lb)))
                continue
            for i, (x, y) in enumerate(zip(la, lb)):
                if x != y:
                    if not (_BOUND_LINE.match(x) and _BOUND_LINE.match(y)):
                        only_bounds = False
                    if len(msgs) < 4:
                        msgs.append("%s:%d: %r vs %r" % (k, i + 1, x.decode("latin-1")[:120], y.decode("latin-1")[:120]))
    if not msgs:
        return None
    return "; ".join(msgs[:4]), only_bounds


def suspicious(tree, text, tokens):
    """Supporting evidence: classes for path tokens / large integers not in the schema text."""
    out = set()
    tb = text if isinstance(text, bytes) else text.encode("latin-1", "replace")
    for k, v in tree.items():
        for t in tokens:
            if t in v:
                out.add("supporting:output-contains-scratch-path-token")
        for m in re.finditer(rb"(?<![\w.])-?\d{7,}(?![\w.])", v):
            if m.group(0).lstrip(b"-") not in tb and m.group(0) != b"2147483647":     # '?' is written as MAXINT
                out.add("supporting:integer>=7-digits-not-in-schema-text")
                break
    return out


def evaluate(text, stem, cfgs, wd, tools=TOOLS):
    """cfgs: list of 2 drawn configurations. -> dict(probs[(sig,msg)], info)"""
    info = {"cases": [], "timeouts": []}
    probs = []
    runs_cfg = [dict(BASE), dict(BASE)] + [dict(c) for c in cfgs]
    for tool in tools:
        twd = os.path.join(wd, tool)
        base = run_tool(tool, text, stem, runs_cfg[0], twd, 0)
        if base["rc"] is None:
            info["timeouts"].append(tool)
            continue
        sus = suspicious(base["tree"], text, base.get("tokens", []))
        for i in range(1, len(runs_cfg)):
            r = run_tool(tool, text, stem, runs_cfg[i], twd, i)
            if r["rc"] is None:
                info["timeouts"].append(tool)
                continue
            dims = [k for k in BASE if runs_cfg[i][k] != BASE[k]] or ["repeat(fresh cwd, ASLR)"]
            info["cases"].append({"tool": tool, "cfg": runs_cfg[i], "dims": dims, "files": len(base["tree"]), "rc": base["rc"], "sus": sorted(sus)})
            d = diff_trees(base, r)
            if d:
                msg, only_bounds = d
                sig = SIG_F8 if (tool == "exp2cxx" and only_bounds) else "%s:output-differs" % tool
                probs.append((sig, "%s, configuration %s vs baseline: %s" % (tool, {k: runs_cfg[i][k] for k in BASE if runs_cfg[i][k] != BASE[k]} or "plain repeat", msg)))
        shutil.rmtree(twd, ignore_errors=True)
    return {"probs": probs, "info": info}


PYHANG = [False]
EXCL_PYHANG = ("exp2python is not run on a multi-schema file in which a schema renames a simple/aggregate type imported from another "
               "schema (exp2python does not return: SCOPEPrint() waits for the imported type to be PROCESSED; probed at start-up)")
_PYHANG_SRC = "SCHEMA %s;\nUSE FROM %s (t0);\nTYPE r = t0;\nEND_TYPE;\nEND_SCHEMA;\nSCHEMA %s;\nTYPE t0 = STRING;\nEND_TYPE;\nEND_SCHEMA;\n"


def probe_pyhang():
    """Only decides whether exp2python is run on that shape; never a verdict."""
    wd = common.scratch("c12-pyhangprobe")
    hung = False
    for k, (a, b) in enumerate((("a_s", "b_s"), ("b_s", "a_s"), ("a_s", "zz_s"), ("zz_s", "a_s"))):
        d = os.path.join(wd, "p%d" % k)
        os.makedirs(d)
        with open(os.path.join(d, "probe.exp"), "w") as f:
            f.write(_PYHANG_SRC % (a, b, b))
        rc, _o, _e, _t = common.run([c17run.TOOLS["exp2python"], "probe.exp"], cwd=d, timeout=8, env=c17run.tool_env())
        if rc is None:
            hung = True
            break
    shutil.rmtree(wd, ignore_errors=True)
    return hung


def pyhang_shape(f):
    return any(t.endswith("-as-rename_plain") or t.endswith("-as-rename") for t in f["tags"])


def setup():
    c17run.snapshot_tools("c12", "plain", scanner=True)
    PYHANG[0] = probe_pyhang()
    c17.HANG[0] = c17.probe_hang()
    rc, _o, _e, _t = common.run(["setarch", ARCH, "-R", "true"], timeout=20)
    if rc != 0:
        raise RuntimeError("setarch -R is not usable here (rc=%s): the ASLR dimension cannot be exercised" % rc)


def has_f8_shape(f):
    return any(b in ("bound:constant", "bound:attribute", "bound:constant-defined-by-expression")
               for d in f["schemas"] for b in d.get("tags", {}).get("bounds", []))


def make_strategy(ctx):
    cfg = {"p_multi": 30, "p_prone": 30, "expr_bounds": True, "stems": ["the_schema_file"], "data_dirs": [None],
           "max_ent": 12, "max_typ": 10}
    if SIG_F8 in ctx.open_sigs:
        ctx.state["f8_open"] = True
    return st.tuples(c17gen.files(cfg), st.lists(CONFIGS, min_size=2, max_size=2))


def case(ctx, x):
    f, cfgs = x
    ev = ctx.ev
    tools = TOOLS
    if c17.HANG[0] and c17.hang_shape(f):
        ev.exclude(c17.EXCL_HANG)
        return
    if ctx.state.get("f8_open") and has_f8_shape(f):
        probe = common.sub_seed(ctx.seed, "probe", common.chash(c17gen.render(f))) % 100 < 10
        if not probe:
            # open finding: exp2cxx is not run on this shape (counted); the other three tools are
            ev.exclude(EXCL_F8)
            tools = tuple(t for t in TOOLS if t != "exp2cxx")
        else:
            ev.bump("probe-of-open-finding:" + SIG_F8)
    if PYHANG[0] and pyhang_shape(f):
        ev.exclude(EXCL_PYHANG)
        tools = tuple(t for t in tools if t != "exp2python")
    text = c17gen.render(f)
    r = evaluate(text, f["stem"], cfgs, os.path.join(ctx.wd, "case"), tools)
    fh = common.chash(text)
    bclasses = sorted(set(b for d in f["schemas"] for b in d.get("tags", {}).get("bounds", [])))
    for c in r["info"]["cases"]:
        nt = c["files"] > 0
        classes = ["tool:" + c["tool"], "schemas:%d" % len(f["schemas"])] + ["dim:" + d for d in c["dims"]] + c["sus"]
        if c["rc"] != 0:
            classes.append("tool-exit-status-nonzero:%s" % c["tool"])
        if c["tool"] == "exp2cxx":
            classes += bclasses
        sample = None
        if nt and len(ev.samples) < 3 and c["dims"] != ["repeat(fresh cwd, ASLR)"]:
            sample = {"tool": c["tool"], "configuration": c["cfg"], "file": text[:1200]}
        ev.case(common.chash([fh, c["tool"], c["cfg"]]), nt, classes=classes, sample=sample)
    for t in r["info"]["timeouts"]:
        ev.bump("inconclusive:%s-timeout" % t)
        ev.inconclusive.append("%s did not return within %d s on %s" % (t, TIMEOUT_GEN, fh))
    if r["probs"]:
        sigs = []
        for s, _m in r["probs"]:
            if s not in sigs:
                sigs.append(s)
        unknown = [s for s in sigs if not ctx.known(s)]
        if not unknown:
            return
        msgs = [m for s, m in r["probs"] if s in unknown]
        raise Found({"what": "; ".join(msgs[:3]), "sig": unknown[0], "text": text, "stem": f["stem"], "cfgs": cfgs})


def confirm(f, wd):
    r = evaluate(f["text"], f["stem"], f["cfgs"], os.path.join(wd, "c"))
    return any(s == f["sig"] for s, _m in r["probs"])


def replay_files(f):
    return {"input.exp": f["text"], "case.json": json.dumps({"stem": f["stem"], "cfgs": f["cfgs"]})}


# ---------------------------------------------------------------------------------------------------------------------
# shipped schemas

def shipped(tier):
    import glob
    files = sorted(glob.glob(os.path.join(common.REPO, "data", "*", "*.exp")))
    if tier == "quick":
        files = [f for f in files if os.path.basename(os.path.dirname(f)) in ("ap203", "ifc2x3")]
    return files


def shipped_cases(ev, root, tier, findings):
    files = shipped(tier)
    jobs = []
    off = dict(BASE, aslr_off=True)
    for f in files:
        for tool in TOOLS:
            jobs.append((f, tool))

    def one(job):
        f, tool = job
        text = open(f, encoding="latin-1").read()
        stem = os.path.splitext(os.path.basename(f))[0]
        wd = os.path.join(root, "shipped", stem + "-" + tool)
        cfgs = [dict(BASE), dict(BASE), off]
        if tier != "quick":
            cfgs.append(dict(BASE, deep=True, naming="rel", envpad=65536, lc_all="C.UTF-8", dirty=True))
        base = run_tool(tool, text, stem, cfgs[0], wd, 0, TIMEOUT)
        res = {"file": f, "tool": tool, "n": 0, "files": len(base["tree"]), "rc": base["rc"], "probs": [], "timeout": base["rc"] is None}
        if base["rc"] is None:
            return res
        for i in range(1, len(cfgs)):
            r = run_tool(tool, text, stem, cfgs[i], wd, i, TIMEOUT)
            if r["rc"] is None:
                res["timeout"] = True
                continue
            res["n"] += 1
            d = diff_trees(base, r)
            if d:
                msg, only_bounds = d
                res["probs"].append((SIG_F8 if tool == "exp2cxx" and only_bounds else "%s:output-differs" % tool,
                                     "%s on %s, %s: %s" % (tool, os.path.basename(f), "ASLR off" if cfgs[i]["aslr_off"] else "repeat/other configuration", msg)))
        shutil.rmtree(wd, ignore_errors=True)
        return res
    results = common.pmap(common.guarded(one), jobs, max(2, min(12, common.NPROC - 2)))
    founds = []
    for (f, tool), (status, res) in zip(jobs, results):
        if status != "ok":
            raise RuntimeError("shipped schema job failed: " + res)
        tag = "shipped:%s" % os.path.basename(os.path.dirname(f))
        if res["timeout"]:
            ev.bump("inconclusive:%s-timeout" % tool)
            ev.inconclusive.append("%s did not return within %d s on %s" % (tool, TIMEOUT, os.path.basename(f)))
        for k in range(res["n"]):
            ev.case(common.chash([f, tool, k]), res["files"] > 0, classes=["tool:" + tool, tag, "shipped-schema"] +
                    (["tool-exit-status-nonzero:%s" % tool] if res["rc"] != 0 else []))
        for sig, msg in res["probs"]:
            e = findings.match(PROP, sig)
            if e:
                ev.known_hit(e["id"])
                continue
            text = open(f, encoding="latin-1").read()
            founds.append({"what": msg, "sig": sig, "text": text, "stem": os.path.splitext(os.path.basename(f))[0],
                           "cfgs": [dict(BASE, aslr_off=True), dict(BASE)], "shipped": f})
            break
    return founds


def main(tier, seed):
    setup()
    workers = max(2, min(12, common.NPROC - 2))
    n_ex = 90 if tier == "quick" else 350
    findings = common.Findings(c17run.findings_path())
    return c17run.run(PROP, "exploration", RULE, tier, seed, make_strategy, case, confirm, replay_files, workers, n_ex,
                      min_cases=workers * n_ex * 4,
                      extra_cases=lambda ev, root: shipped_cases(ev, root, tier, findings),
                      post=lambda ev: ev.assumptions.extend([
                          "output tree = the files a tool writes below its working directory; stdout/stderr diagnostics are not compared "
                          "(except the directory list the scanner prints, which the build consumes)",
                          "schema_scanner: the SCHEMA_TARGETS(\"<path as given>\") argument and the <cwd> prefix of the printed directory are "
                          "by design functions of how the tool was invoked; they are normalised, and the file stem is kept constant",
                          "ASLR is switched off with setarch -R; 'on' relies on the kernel's default randomisation "
                          "(/proc/sys/kernel/randomize_va_space = %s)" % open("/proc/sys/kernel/randomize_va_space").read().strip()]))


def replay(path):
    setup()
    c = json.load(open(os.path.join(path, "case.json")))
    wd = common.scratch("c12-replay")
    r = evaluate(open(os.path.join(path, "input.exp"), encoding="latin-1").read(), c["stem"], c["cfgs"], os.path.join(wd, "r"))
    shutil.rmtree(wd, ignore_errors=True)
    if r["probs"]:
        common.print_violation(PROP, path, "; ".join(m for s, m in r["probs"][:4]))
        return 1
    print("replay passes")
    return 0
