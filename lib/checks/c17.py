"""C17 - the build-time scanner predicts exactly the files the C++ generator writes.

Generated: EXPRESS files with 1..3 schemas (codegen profile + every defined-type shape: renamed enumerations/selects,
renames of renames, aggregates of defined types, selects of selects, types that generate no code; declaration-site case
noise; names differing by '_' or a suffix like _var; USE FROM / REFERENCE FROM between the schemas of a file), named by a
short / long / schema-named file stem, optionally below a data/<dir>/ directory.
Executed exactly as the build does (cmake/schema_scanner/schemaScanner.cmake, cmake/SC_Run_exp2cxx.cmake): in an empty
directory `schema_scanner <abs path>`; every directory it prints is a schema directory holding the emitted CMakeLists.txt;
`exp2cxx <path named in SCHEMA_TARGETS()>` is then run with that directory as cwd.
Oracle:
 (a) scanner exits 0 and prints one absolute directory per schema of the file, all distinct, each existing below the cwd,
     each with a CMakeLists.txt whose SCHEMA_TARGETS names a different schema of the file;
 (b) directory base name == PROJECT() name == prefix of all six set(<p>_{entity,type,misc}_{hdrs,impls}) lists (+ the unity
     variants, the file_count variable, the install destinations): one library name sdai_<short>;
 (c) exp2cxx exits 0 in that directory; every file the CMakeLists.txt lists (per-entity, per-type, fixed per-schema, unity
     translation units) exists afterwards;
 (d) two-sided: the union over the file's schemas of the listed entity/* and type/* files == the files exp2cxx created under
     entity/ and type/; everything else exp2cxx created is either a listed fixed file or one of the auxiliary headers
     Sdai<S>_unity_entities.h / Sdai<S>_unity_types.h of a schema S of the file (included by the unity .cc files).
"""
import json
import os
import re
import shutil

import build
import common
import c17gen
import c17run
from farm import Found

PROP = "C17"
RULE = ("Hypothesis draws an EXPRESS file: 1-3 codegen-profile schemas, each enriched with renamed enumerations/selects, renames "
        "of renames, aggregates of defined types, selects of selects, simple defined types, suffix/underscore look-alike names "
        "and mixed-case declarations; multi-schema files get USE/REFERENCE FROM clauses plus declarations using the imported "
        "items; the file stem (short, long, schema name) and an optional data/<dir>/ parent are drawn too. schema_scanner and "
        "exp2cxx are run the way the CMake build runs them and the emitted CMakeLists.txt is compared with the files created. "
        "Non-trivial: the file has >=1 defined type for which exp2cxx wrote no file and >=1 for which it did. Distinct by "
        "hash(file text, stem, data dir).")

SIG_SPLIT = "multischema:generator-splits-schema-into-numbered-passes"
SIG_DIRS = "multischema:one-directory-for-several-schemas"
EXCL_SPLIT = "multi-schema file whose schemas depend on each other's enumerations/selects/supertypes (open finding: numbered pass files)"
EXCL_DIRS = "multi-schema file named by a stem/data directory shorter than a schema name (open finding: shared directory)"

TIMEOUT = 30     # seconds per tool run (the inputs take ~20 ms); hit => inconclusive, never a verdict

LISTS = ("entity_hdrs", "type_hdrs", "misc_hdrs", "entity_impls", "type_impls", "misc_impls")


def parse_cmakelists(text):
    """-> dict(project, prefixes(set), lists{name:[files]}, unity{entity_impls,type_impls}, target_path, target_schema,
    install(set), file_count)"""
    r = {"prefixes": set(), "lists": {}, "unity": {}, "install": set(), "problems": []}
    m = re.search(r"^PROJECT\(([^)]*)\)", text, re.M)
    r["project"] = m.group(1).strip() if m else None
    m = re.search(r"^set\((\S+)_file_count (\d+)\)", text, re.M)
    if m:
        r["prefixes"].add(m.group(1))
        r["file_count"] = int(m.group(2))
    um = re.search(r"^if\(SC_UNITY_BUILD\)(.*?)^else\(SC_UNITY_BUILD\)(.*?)^endif\(SC_UNITY_BUILD\)", text, re.M | re.S)
    if not um:
        r["problems"].append("no SC_UNITY_BUILD block")
        unity_txt, nonunity_txt, rest = "", "", text
    else:
        unity_txt, nonunity_txt = um.group(1), um.group(2)
        rest = text[:um.start()] + text[um.end():]
    pat = re.compile(r"set\(\s*(\S+?)_(%s)\b([^)]*)\)" % "|".join(LISTS))
    for src, dest in ((rest, r["lists"]), (nonunity_txt, r["lists"]), (unity_txt, r["unity"])):
        for m in pat.finditer(src):
            r["prefixes"].add(m.group(1))
            if m.group(2) in dest:
                r["problems"].append("list %s set twice" % m.group(2))
            dest[m.group(2)] = m.group(3).split()
    for m in re.finditer(r'DESTINATION "include/schemas/([^"/$]*)', text):
        r["install"].add(m.group(1))
    m = re.search(r'^SCHEMA_TARGETS\("([^"]*)" "([^"]*)"', text, re.M)
    r["target_path"], r["target_schema"] = (m.group(1), m.group(2)) if m else (None, None)
    for k in LISTS:
        if k not in r["lists"]:
            r["problems"].append("list %s missing" % k)
    for k in ("entity_impls", "type_impls"):
        if k not in r["unity"]:
            r["problems"].append("unity list %s missing" % k)
    return r


def list_tree(d):
    out = set()
    for root, _dirs, fs in os.walk(d):
        for f in fs:
            out.add(os.path.relpath(os.path.join(root, f), d))
    return out


def evaluate(text, stem, datadir, schema_names, wd):
    """Run scanner + generator as the build does. Returns dict(probs, sig, info)."""
    shutil.rmtree(wd, ignore_errors=True)
    src_dir = os.path.join(wd, "data", datadir) if datadir else os.path.join(wd, "src")
    scan_dir = os.path.join(wd, "schemas")
    os.makedirs(src_dir)
    os.makedirs(scan_dir)
    exp = os.path.join(src_dir, stem + ".exp")
    with open(exp, "w") as f:
        f.write(text)
    names = [n.lower() for n in schema_names]
    probs = []
    info = {"created_type_files": 0, "listed_twice": False, "dirs": []}
    res = {"probs": probs, "sig": None, "info": info}

    def done(sig=None):
        res["sig"] = sig or (("mismatch:" + re.sub(r"\d+", "N", re.sub(r"^sdai_\S+: ", "", probs[0]).split(": [")[0])[:70]) if probs else None)
        return res

    rc, out, err, _ = common.run([c17run.TOOLS["schema_scanner"], exp], cwd=scan_dir, timeout=TIMEOUT, env=c17run.tool_env())
    if rc is None:
        info["timeout"] = "schema_scanner"
        return done()
    if rc != 0:
        rc2, o2, e2, _ = common.run([c17run.TOOLS["exp2cxx"], exp], cwd=src_dir, timeout=TIMEOUT, env=c17run.tool_env())
        info["rejected"] = True
        if rc2 == 0:
            probs.append("scanner rejects (rc=%s) a file the generator accepts: %s" % (rc, (out + err)[-300:]))
        return done("acceptance:scanner-only-rejects")
    dirs = [l for l in out.splitlines() if l.strip()]
    info["dirs"] = [os.path.basename(d) for d in dirs]
    if len(dirs) != len(names):
        probs.append("scanner printed %d directories for %d schemas: %s" % (len(dirs), len(names), dirs))
    if len(set(dirs)) != len(dirs):
        probs.append("scanner uses one directory for several schemas of the file: %s (each CMakeLists.txt overwrites the previous one; "
                     "add_subdirectory() of the same directory twice fails)" % sorted(set(os.path.basename(d) for d in dirs)))
        return done(SIG_DIRS)
    if probs:
        return done()
    listed_union = set()
    fixed_union = set()
    seen_schemas = []
    created_any = None
    split = False
    split_probs = []
    for d in dirs:
        base = os.path.basename(d)
        if not os.path.isabs(d) or os.path.realpath(os.path.dirname(d)) != os.path.realpath(scan_dir):
            probs.append("printed directory %s is not directly below the scanner's working directory %s" % (d, scan_dir))
            continue
        cml = os.path.join(d, "CMakeLists.txt")
        if not os.path.isfile(cml):
            probs.append("no CMakeLists.txt in printed directory %s" % d)
            continue
        c = parse_cmakelists(open(cml).read())
        probs += ["%s: %s" % (base, p) for p in c["problems"]]
        if c["problems"]:
            continue
        # (b) one name
        if c["project"] != base or c["prefixes"] != {base} or (c["install"] and c["install"] != {base}) or not base.startswith("sdai_"):
            probs.append("directory/library name not consistent: directory %r, PROJECT(%r), variable prefixes %s, install dirs %s"
                         % (base, c["project"], sorted(c["prefixes"]), sorted(c["install"])))
        sname = (c["target_schema"] or "").lower()
        if sname not in names or sname in seen_schemas:
            probs.append("%s: SCHEMA_TARGETS names schema %r; schemas of the file: %s, already seen %s" % (base, c["target_schema"], names, seen_schemas))
            continue
        seen_schemas.append(sname)
        # (c) run the generator the way SC_Run_exp2cxx.cmake does
        rc, out2, err2, _ = common.run([c17run.TOOLS["exp2cxx"], c["target_path"]], cwd=d, timeout=TIMEOUT, env=c17run.tool_env())
        if rc is None:
            # no wall-clock verdicts: a tool that does not return within TIMEOUT is reported as inconclusive
            info["timeout"] = "exp2cxx"
            del probs[:]
            return done()
        if rc != 0:
            probs.append("%s: exp2cxx exits %s on a file the scanner accepted: %s" % (base, rc, (out2 + err2)[-300:]))
            info["rejected"] = True
            return done("acceptance:generator-only-rejects")
        created = list_tree(d) - {"CMakeLists.txt"}
        created_any = created
        L = c["lists"]
        per = set(L["entity_hdrs"] + L["type_hdrs"] + L["entity_impls"] + L["type_impls"])
        fixed = set(L["misc_hdrs"] + L["misc_impls"] + c["unity"]["entity_impls"] + c["unity"]["type_impls"])
        for nm, lst in L.items():
            if len(set(lst)) != len(lst):
                info["listed_twice"] = True
        bad_place = [f for f in L["entity_hdrs"] + L["entity_impls"] if not f.startswith("entity/")] + \
                    [f for f in L["type_hdrs"] + L["type_impls"] if not f.startswith("type/")]
        if bad_place:
            probs.append("%s: per-entity/per-type lists name files outside entity/ and type/: %s" % (base, bad_place[:5]))
        if len(L["entity_hdrs"]) != len(L["entity_impls"]) or len(L["type_hdrs"]) != len(L["type_impls"]):
            probs.append("%s: header and source lists differ in length" % base)
        missing = sorted(per - created)
        if missing:
            probs.append("%s: listed in CMakeLists.txt but not created by exp2cxx: %s" % (base, missing[:8]))
        missing_fixed = sorted(fixed - created)
        if missing_fixed:
            up = sname.upper()
            numbered = sorted(f for f in created if re.match(r"Sdai%s_\d+\.(h|cc)$" % re.escape(up), f))
            if numbered:
                split = True
                split_probs.append("%s: fixed per-schema files listed but not created: %s; exp2cxx wrote numbered pass files instead: %s"
                                   % (base, missing_fixed[:6], numbered[:6]))
            else:
                probs.append("%s: fixed per-schema files listed but not created: %s" % (base, missing_fixed[:8]))
        listed_union |= per
        fixed_union |= fixed
    if created_any is not None and len(seen_schemas) == len(names):
        per_created = set(f for f in created_any if f.startswith("entity/") or f.startswith("type/"))
        info["created_type_files"] = len([f for f in per_created if f.startswith("type/") and f.endswith(".h")])
        info["created_stems"] = sorted(f[:-2] for f in per_created if f.endswith(".h"))
        extra = sorted(per_created - listed_union)
        if extra:
            probs.append("created by exp2cxx under entity/ or type/ but listed in no CMakeLists.txt of the file (left out of every library): %s" % extra[:8])
        white = set()
        for n in names:
            white |= {"Sdai%s_unity_entities.h" % n.upper(), "Sdai%s_unity_types.h" % n.upper()}
        other = sorted(created_any - per_created - fixed_union - white)
        if other:
            if split and all(re.match(r"Sdai[A-Z0-9_]+_\d+(_unity_(entities|types))?\.(h|cc)$", f) for f in other):
                pass    # the numbered pass files already reported
            else:
                probs.append("created by exp2cxx, neither listed nor a known auxiliary file: %s" % other[:8])
    if split and not probs:
        # only the fixed per-schema files are affected by the numbered passes (open finding): the per-entity / per-type sets
        # above are asserted for these files like for any other
        probs.extend(split_probs)
        return done(SIG_SPLIT)
    if split:
        info["split_and_more"] = True
    return done()


HANG = [False]
EXCL_HANG = ("multi-schema file in which two schemas each have a supertype entity of the same name (exp2cxx does not return: "
             "ComplexCollect::remove() looks lists up by name; probed at start-up, see extra.hang_probe)")
_HANG_SRC = """SCHEMA %s;
ENTITY b; END_ENTITY;
ENTITY c SUBTYPE OF (b); END_ENTITY;
END_SCHEMA;
SCHEMA %s;
ENTITY a; END_ENTITY;
ENTITY b SUBTYPE OF (a); END_ENTITY;
ENTITY d SUBTYPE OF (b); END_ENTITY;
END_SCHEMA;
"""


def probe_hang():
    """Does exp2cxx still fail to return on two schemas with same-named supertypes?  (Both hash orders are tried.)
    Only decides whether that shape is generated; it is never a verdict."""
    wd = common.scratch("c17-hangprobe")
    hung = False
    for k, (a, b) in enumerate((("one_s", "two_s"), ("zz_s", "two_s"), ("two_s", "one_s"), ("two_s", "zz_s"))):
        d = os.path.join(wd, "p%d" % k)
        os.makedirs(d)
        with open(os.path.join(d, "probe.exp"), "w") as f:
            f.write(_HANG_SRC % (a, b))
        rc, _o, _e, _t = common.run([c17run.TOOLS["exp2cxx"], "probe.exp"], cwd=d, timeout=8, env=c17run.tool_env())
        if rc is None:
            hung = True
            break
    shutil.rmtree(wd, ignore_errors=True)
    return hung


def hang_shape(f):
    seen = set()
    for d in f["schemas"]:
        sup = set(s.lower() for e in d["entities"] for s in e["supers"])
        if sup & seen:
            return True
        seen |= sup
    return False


def setup():
    c17run.snapshot_tools("c17", "plain", scanner=True)
    HANG[0] = probe_hang()


def make_strategy(ctx):
    cfg = {"p_multi": 45, "p_prone": 50}
    # (files whose schemas depend on each other are NOT excluded although finding F75 is open: the finding only concerns the fixed
    # per-schema files, which evaluate() separates from the per-entity / per-type comparison)
    if SIG_DIRS in ctx.open_sigs:
        cfg["shortstem_excluded"] = EXCL_DIRS
        cfg["p_probe_stem"] = 15
    return c17gen.files(cfg)


def case(ctx, f):
    ev = ctx.ev
    for x in f.get("excluded", []):
        ev.exclude(x)
    for d in f["schemas"]:
        for x in d.get("tags", {}).get("excluded", []):
            ev.bump("note:" + x)
    if HANG[0] and hang_shape(f):
        ev.exclude(EXCL_HANG)
        return
    text = c17gen.render(f)
    names = [d["name"] for d in f["schemas"]]
    r = evaluate(text, f["stem"], f["datadir"], names, os.path.join(ctx.wd, "case"))
    info = r["info"]
    n_types = sum(len(d["types"]) for d in f["schemas"])
    nt = 0 < info["created_type_files"] < n_types and not info.get("rejected")
    classes = ["schemas:%d" % len(names)]
    classes += ["file:" + t for t in f["tags"]]
    tc = set()
    for d in f["schemas"]:
        tc |= c17gen.type_classes(d)
        if d.get("tags", {}).get("long_names"):
            mx = max(len(x["name"]) for x in d["types"] + d["entities"])
            tc.add("identifier-length:%s" % ("60-79" if mx < 80 else "80-99" if mx < 100 else ">=100"))
        if d.get("tags", {}).get("case_noise"):
            tc.add("mixed-case-declaration")
    classes += sorted(tc)
    shortest = min(len(n) for n in names)
    if f["datadir"] and 2 < len(f["datadir"]) < len(f["stem"]) and len(f["datadir"]) <= shortest:
        classes.append("name-from:data-directory")
    elif len(f["stem"]) <= shortest:
        classes.append("name-from:file-stem")
    else:
        classes.append("name-from:schema-name")
    if len(names) > 1:
        classes.append("multi:split-prone-dependencies" if f["prone"] else "multi:plain-dependencies")
    if info["listed_twice"]:
        classes.append("two-declarations-one-file-name(listed twice)")
    if info.get("rejected"):
        classes.append("rejected-by-a-tool")
    if info.get("timeout"):
        classes.append("inconclusive:%s-timeout" % info["timeout"])
        ev.inconclusive.append("%s did not return within %d s on %s" % (info["timeout"], TIMEOUT, common.chash(text)))
    # model expectation (classification only)
    ee, tt = set(), set()
    for d in f["schemas"]:
        e1, t1 = c17gen.expected_files(d)
        ee |= e1
        tt |= t1
    if "created_stems" in info:
        want = sorted(["entity/" + x for x in ee] + ["type/" + x for x in tt])
        classes.append("files-as-the-model-predicts" if want == info["created_stems"] else "files-differ-from-model-prediction(not asserted)")
    sample = None
    if nt and len(ev.samples) < 3:
        sample = {"stem": f["stem"], "datadir": f["datadir"], "dirs": info["dirs"], "file": text[:1500]}
    ev.case(common.chash([text, f["stem"], f["datadir"]]), nt, classes=classes, sample=sample)
    if r["probs"]:
        if ctx.known(r["sig"]):
            return
        raise Found({"what": "; ".join(r["probs"][:4]), "sig": r["sig"], "text": text, "stem": f["stem"], "datadir": f["datadir"],
                     "names": names})


def confirm(f, wd):
    r = evaluate(f["text"], f["stem"], f["datadir"], f["names"], os.path.join(wd, "c"))
    return bool(r["probs"]) and r["sig"] == f["sig"]


def replay_files(f):
    return {"input.exp": f["text"], "case.json": json.dumps({"stem": f["stem"], "datadir": f["datadir"], "names": f["names"]})}


def main(tier, seed):
    setup()
    workers = max(2, min(12, common.NPROC - 2))
    n_ex = 700 if tier == "quick" else 3000
    return c17run.run(PROP, "exploration", RULE, tier, seed, make_strategy, case, confirm, replay_files, workers, n_ex,
                      min_cases=workers * n_ex // 3,
                      pre=lambda ev, root: ev.extra.update({"hang_probe": "exp2cxx does not return (8 s) on two schemas with same-named supertypes: shape excluded"
                                                                          if HANG[0] else "exp2cxx returns on two schemas with same-named supertypes: shape included"}),
                      post=lambda ev: ev.assumptions.extend([
                          "the scanner is invoked as SCHEMA_CMLIST does (absolute schema path, empty working directory) and "
                          "exp2cxx as SC_Run_exp2cxx.cmake does (cwd = the printed directory, argument = the path in SCHEMA_TARGETS)",
                          "Sdai<S>_unity_entities.h / Sdai<S>_unity_types.h are auxiliary files the build description does not name by design",
                          "set comparison: two declarations mapping to one file name (e.g. enumeration x and select x_var) are counted, not failed"]))


def replay(path):
    setup()
    c = json.load(open(os.path.join(path, "case.json")))
    wd = common.scratch("c17-replay")
    r = evaluate(open(os.path.join(path, "input.exp")).read(), c["stem"], c["datadir"], c["names"], os.path.join(wd, "r"))
    shutil.rmtree(wd, ignore_errors=True)
    if r["probs"]:
        common.print_violation(PROP, path, "; ".join(r["probs"][:5]))
        return 1
    print("replay passes")
    return 0
