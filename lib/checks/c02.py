"""C02 - generated C++ dictionary and classes mirror the EXPRESS schema exactly.
Generated: codegen-profile schemas with naming / inheritance-shape / type-shape dimensions turned up.
Oracle: exp2cxx exits 0 and everything it emitted compiles and links; the registry dump (entities, attributes, types,
fresh-instance attribute lists) obtained through the public dictionary API equals, two-sided, what the schema model
declares."""
import json
import os
import re
import shutil

import common
import build
import farm
import expgen
import exprender
import expmodel
import c02acc
import zoo

PROP = "C02"
RULE = ("Hypothesis draws EXPRESS schemas (keyword-like and case-colliding identifiers, chains/diamonds/multiple supertypes, "
        "redeclared/derived/inverse attributes, every defined-type shape, aggregate flags and bounds); each is run through "
        "the tree's exp2cxx, compiled and linked, and the run-time dictionary is dumped through Registry/EntityDescriptor/"
        "AttrDescriptor/TypeDescriptor getters and compared with the model, both directions. A schema is non-trivial if it has "
        "multiple inheritance, or a redeclared/derived/inverse attribute, or a select/aggregate/renamed defined type. "
        "Distinct by schema text.")

CODE = {"INTEGER": 1, "REAL": 2, "BOOLEAN": 4, "LOGICAL": 8, "STRING": 16, "BINARY": 32, "NUMBER": 1024}
ENUM, SELECT, ENTITY, REFERENCE = 64, 128, 256, 1030
AGG = {"ARRAY": 1025, "BAG": 1026, "SET": 1027, "LIST": 1028}
INT_MAX = 2147483647


def norm(s):
    return re.sub(r"\s+", " ", s.strip()).lower()


def typeref_text(tr):
    return norm(exprender.typeref(tr))


def cmp_typeref(sch, tr, dom, typename, where, probs):
    """Compare a model typeref with the dictionary's domain type JSON."""
    if dom is None:
        probs.append("%s: no domain type descriptor" % where)
        return
    if tr["k"] in expmodel.SIMPLE:
        if dom["type"] != CODE[tr["k"]] or dom["name"].upper() != tr["k"]:
            probs.append("%s: declared %s, dictionary has %s (type code %s)" % (where, tr["k"], dom["name"], dom["type"]))
        return
    if tr["k"] == "named":
        if dom["name"].lower() != tr["name"].lower():
            probs.append("%s: declared type %s, dictionary has %r" % (where, tr["name"], dom["name"]))
        return
    # anonymous aggregate
    if dom["type"] != AGG[tr["agg"]]:
        probs.append("%s: declared %s, dictionary aggregate kind code %s" % (where, tr["agg"], dom["type"]))
        return
    cmp_agg(sch, tr, dom, where, probs)


def cmp_agg(sch, tr, dom, where, probs):
    hi = INT_MAX if tr["hi"] is None else tr["hi"]
    if dom.get("b1") != tr["lo"] or dom.get("b2") != hi:
        probs.append("%s: declared bounds [%s:%s], dictionary [%s:%s]" % (where, tr["lo"], "?" if tr["hi"] is None else tr["hi"], dom.get("b1"), dom.get("b2")))
    if bool(tr.get("unique")) != (dom.get("unique") == 1):
        probs.append("%s: UNIQUE declared %s, dictionary flag %s" % (where, bool(tr.get("unique")), dom.get("unique")))
    if tr["agg"] == "ARRAY" and bool(tr.get("optional")) != (dom.get("optional") == 1):
        probs.append("%s: OPTIONAL elements declared %s, dictionary flag %s" % (where, bool(tr.get("optional")), dom.get("optional")))
    if norm(dom.get("desc", "")) != typeref_text(tr):
        probs.append("%s: description %r, declared %r" % (where, dom.get("desc"), exprender.typeref(tr)))
    # element type
    el = tr["of"]
    ref = dom.get("referent")
    if ref is None:
        probs.append("%s: aggregate has no element type descriptor" % where)
        return
    if el["k"] in expmodel.SIMPLE:
        if ref["type"] != CODE[el["k"]]:
            probs.append("%s: element type declared %s, dictionary code %s" % (where, el["k"], ref["type"]))
    elif el["k"] == "named":
        if ref["name"].lower() != el["name"].lower():
            probs.append("%s: element type declared %s, dictionary %r" % (where, el["name"], ref["name"]))
    else:
        if ref["type"] != AGG[el["agg"]]:
            probs.append("%s: nested aggregate declared %s, dictionary code %s" % (where, el["agg"], ref["type"]))
        else:
            cmp_agg(sch, el, ref, where + " OF", probs)


def compare(sd, d):
    """sd: schema model dict; d: dictionary dump. Returns list of problems."""
    sch = expmodel.Schema(sd)
    probs = []
    if [s.lower() for s in d["schemas"]] != [sd["name"].lower()]:
        probs.append("schemas registered %s, declared %s" % (d["schemas"], sd["name"]))
    # ---- entities
    dents = {}
    for e in d["entities"]:
        if e["name"].lower() in dents:
            probs.append("entity %s registered twice" % e["name"])
        dents[e["name"].lower()] = e
    ments = {e["name"].lower(): e for e in sd["entities"]}
    for n in ments:
        if n not in dents:
            probs.append("entity %s missing from the dictionary" % n)
    for n in dents:
        if n not in ments:
            probs.append("dictionary has an entity %s the schema does not declare" % n)
    for n, me in ments.items():
        de = dents.get(n)
        if not de:
            continue
        w = "entity " + n
        if bool(me["abstract"]) != (de["abstract"] == 1):
            probs.append("%s: ABSTRACT declared %s, dictionary flag %s" % (w, me["abstract"], de["abstract"]))
        if [s.lower() for s in de["supertypes"]] != [s.lower() for s in me["supers"]]:
            probs.append("%s: supertypes %s, declared %s" % (w, de["supertypes"], me["supers"]))
        if sorted(s.lower() for s in de["subtypes"]) != sorted(sch.subs[n]):
            probs.append("%s: subtypes %s, declared %s" % (w, sorted(de["subtypes"]), sorted(sch.subs[n])))
        # attributes in declaration order: explicit (incl. redeclared), then derived
        exp = []
        for a in me["attrs"]:
            nm = a["name"].lower() if not a.get("redecl") else "%s.%s" % (a["redecl"].lower(), a["name"].lower())
            exp.append((nm, "redeclared" if a.get("redecl") else "explicit", a))
        for a in me["derived"]:
            nm = a["name"].lower() if not a.get("redecl") else "%s.%s" % (a["redecl"].lower(), a["name"].lower())
            exp.append((nm, "derived", a))
        got = [(a["name"].lower(), a) for a in de["attrs"]]
        if [g[0] for g in got] != [x[0] for x in exp]:
            probs.append("%s: attributes %s, declared (in order) %s" % (w, [g[0] for g in got], [x[0] for x in exp]))
        else:
            for (nm, kind, ma), (_g, da) in zip(exp, got):
                wa = "%s.%s" % (w, nm)
                if da["owner"].lower() != n:
                    probs.append("%s: owner %s" % (wa, da["owner"]))
                if kind == "derived":
                    if da["derived"] != 1 or da["attrtype"] != 2:
                        probs.append("%s: declared DERIVE, dictionary derived=%s attrtype=%s" % (wa, da["derived"], da["attrtype"]))
                elif kind == "redeclared":
                    if da["attrtype"] != 3 or da["derived"] == 1:
                        probs.append("%s: declared as redeclaration, dictionary derived=%s attrtype=%s" % (wa, da["derived"], da["attrtype"]))
                else:
                    if da["attrtype"] != 0 or da["derived"] == 1:
                        probs.append("%s: declared explicit, dictionary derived=%s attrtype=%s" % (wa, da["derived"], da["attrtype"]))
                if kind != "derived" and bool(ma["optional"]) != (da["optional"] == 1):
                    probs.append("%s: OPTIONAL declared %s, dictionary flag %s" % (wa, ma["optional"], da["optional"]))
                cmp_typeref(sch, ma["type"], da["domain"], da["typename"], wa, probs)
        # inverse attributes
        gi = [(a["name"].lower(), a) for a in de["inverse"]]
        mi = [(a["name"].lower(), a) for a in me["inverse"]]
        if [x[0] for x in gi] != [x[0] for x in mi]:
            probs.append("%s: inverse attributes %s, declared %s" % (w, [x[0] for x in gi], [x[0] for x in mi]))
        else:
            for (nm, ma), (_n, da) in zip(mi, gi):
                wa = "%s.%s(inverse)" % (w, nm)
                if da["for_entity"].lower() != ma["entity"].lower() or da["for_attr"].lower() != ma["attr"].lower():
                    probs.append("%s: FOR %s.%s, declared %s.%s" % (wa, da["for_entity"], da["for_attr"], ma["entity"], ma["attr"]))
                dom = da["domain"]
                if ma["agg"] is None:
                    if dom is None or dom["name"].lower() != ma["entity"].lower():
                        probs.append("%s: type %r, declared %s" % (wa, dom and dom["name"], ma["entity"]))
                else:
                    tr = expmodel.agg(ma["agg"]["agg"], expmodel.named(ma["entity"]), ma["agg"]["lo"], ma["agg"]["hi"])
                    if dom is None or dom["type"] != AGG[ma["agg"]["agg"]]:
                        probs.append("%s: type %r, declared %s" % (wa, dom and dom.get("desc"), exprender.typeref(tr)))
                    else:
                        hi = INT_MAX if ma["agg"]["hi"] is None else ma["agg"]["hi"]
                        if dom.get("b1") != ma["agg"]["lo"] or dom.get("b2") != hi:
                            probs.append("%s: bounds [%s:%s], declared [%s:%s]" % (wa, dom.get("b1"), dom.get("b2"), ma["agg"]["lo"], ma["agg"]["hi"]))
    # ---- types
    dtypes = {}
    for t in d["types"]:
        if t["name"].lower() in dtypes:
            probs.append("type %s registered twice" % t["name"])
        dtypes[t["name"].lower()] = t
    mtypes = {t["name"].lower(): t for t in sd["types"]}
    for n in mtypes:
        if n not in dtypes:
            probs.append("type %s missing from the dictionary" % n)
    for n in dtypes:
        if n not in mtypes:
            probs.append("dictionary has a type %s the schema does not declare" % n)
    for n, mt in mtypes.items():
        dt = dtypes.get(n)
        if not dt:
            continue
        w = "type " + n
        if mt["kind"] == "enum":
            if dt["fund"] != ENUM:
                probs.append("%s: declared ENUMERATION, dictionary fundamental type code %s" % (w, dt["fund"]))
            if [i.upper() for i in dt.get("items", [])] != [i.upper() for i in mt["items"]]:
                probs.append("%s: enumeration items %s, declared (in order) %s" % (w, dt.get("items"), mt["items"]))
        elif mt["kind"] == "select":
            if dt["fund"] != SELECT:
                probs.append("%s: declared SELECT, dictionary fundamental type code %s" % (w, dt["fund"]))
            if sorted(m.lower() for m in dt.get("members", [])) != sorted(m.lower() for m in mt["members"]):
                probs.append("%s: select members %s, declared %s" % (w, dt.get("members"), mt["members"]))
        else:
            of = mt["of"]
            if of["k"] in expmodel.SIMPLE:
                if dt["fund"] != CODE[of["k"]]:
                    probs.append("%s: declared %s, dictionary fundamental type code %s" % (w, of["k"], dt["fund"]))
            elif of["k"] == "named":
                ref = dt.get("referent")
                if ref is None or ref["name"].lower() != of["name"].lower():
                    probs.append("%s: declared as %s, dictionary underlying type %r" % (w, of["name"], ref and ref["name"]))
                r = sch.resolve(of)
                if r[0] == "enum" and [i.upper() for i in dt.get("items", r[2])] != [i.upper() for i in r[2]]:
                    probs.append("%s: renamed enumeration items %s, declared %s" % (w, dt.get("items"), r[2]))
            else:
                if dt["fund"] != AGG[of["agg"]]:
                    probs.append("%s: declared %s, dictionary fundamental type code %s" % (w, of["agg"], dt["fund"]))
                else:
                    cmp_agg(sch, of, dt, w, probs)
    # ---- fresh instances: inherited-then-own explicit attributes in Part 21 order
    dinst = {i["entity"].lower(): i for i in d["instances"]}
    for n in ments:
        di = dinst.get(n)
        if di is None:
            probs.append("no instance information for entity %s" % n)
            continue
        if not di.get("created"):
            probs.append("entity %s cannot be instantiated through the registry" % n)
            continue
        slots = sch.p21_slots(n)
        got = [(a["owner"].lower(), a["name"].lower(), a["derived"]) for a in di["attrs"] if a["attrtype"] != 3]
        want = [(s["owner"], s["name"], 1 if s["derived"] else 0) for s in slots]
        if got != want:
            probs.append("instance of %s: attributes %s, expected Part 21 order %s" % (n, got, want))
    return probs


def nontrivial(sd):
    t = set(expgen.tags(sd))
    return bool(t & {"multi-inherit", "redecl-explicit", "redecl-derived", "derived-new", "inverse", "select", "aggregate-type"}) or \
        any(t_.get("alias_of_enum") for t_ in sd["types"])


PROBES = {
    "named-aggregate-of-select": "SCHEMA probe_zs;\nTYPE zs = LIST [0:?] OF sel;\nEND_TYPE;\nTYPE r = REAL;\nEND_TYPE;\nTYPE i = INTEGER;\nEND_TYPE;\nTYPE sel = SELECT (r, i);\nEND_TYPE;\nENTITY e1;\n  a : zs;\nEND_ENTITY;\nEND_SCHEMA;\n",
    "entity-named-like-header-entity": "SCHEMA probe_hdr;\nENTITY file_name;\n  shape : REAL;\nEND_ENTITY;\nENTITY user;\n  f : file_name;\nEND_ENTITY;\nEND_SCHEMA;\n",
    "enumeration-named-like-library-class": "SCHEMA probe_reg;\nTYPE registry = ENUMERATION OF (thing, name);\nEND_TYPE;\nENTITY e;\n  x : registry;\nEND_ENTITY;\nEND_SCHEMA;\n",
    "schema-named-cxx-keyword": "SCHEMA typedef;\nTYPE m = ENUMERATION OF (a, b);\nEND_TYPE;\nENTITY e;\n  x : m;\nEND_ENTITY;\nEND_SCHEMA;\n",
}


# F91: select over a multiply inheriting entity whose attribute is redeclared on a second inheritance path (found with seed 14 only)
REGRESSION = ("719e29aeff8d6cb9",)


def probe_known(ev, findings, root):
    """Fixed minimal inputs of the open findings: report KNOWN-FINDING while they still reproduce."""
    for sig, text in PROBES.items():
        k = findings.match(PROP, sig)
        if not k:
            continue
        r = farm._build_one((900 + len(sig), {"name": "probe", "types": [], "entities": []}, root, "plain", ("p21drv",), text))
        bad = not r["ok"]
        if r["ok"] and sig == "entity-named-like-header-entity":
            # builds, but reading a file then mixes up the header entity and the schema entity
            f = os.path.join(r["dir"], "t.p21")
            open(f, "w").write("ISO-10303-21;\nHEADER;\nFILE_DESCRIPTION((''),'2;1');\nFILE_NAME('','',(''),(''),'','','');\nFILE_SCHEMA(('PROBE_HDR'));\nENDSEC;\nDATA;\n#1=FILE_NAME(1.5);\nENDSEC;\nEND-ISO-10303-21;\n")
            rr = farm.drv(r, ["read", f], timeout=20)
            bad = rr["rc"] != 0 or rr["json"] is None or rr["json"]["read"]["sev"] < 2
        if r["ok"] and sig == "named-aggregate-of-select":
            f = os.path.join(r["dir"], "t.p21")
            open(f, "w").write("ISO-10303-21;\nHEADER;\nFILE_DESCRIPTION((''),'2;1');\nFILE_NAME('','',(''),(''),'','','');\nFILE_SCHEMA(('PROBE_ZS'));\nENDSEC;\nDATA;\n#1=E1((R(1.),I(2)));\nENDSEC;\nEND-ISO-10303-21;\n")
            rr = farm.drv(r, ["read", f], timeout=20)
            bad = rr["rc"] != 0 or rr["json"] is None or rr["json"]["read"]["sev"] < 2
        if bad:
            ev.known_hit(k["id"])
        else:
            ev.inconclusive.append("open finding %s no longer reproduces on its probe" % k["id"])


def main(tier, seed):
    n = 44 if tier == "quick" else 250
    ev = common.Evidence(PROP, "exploration", tier, seed, RULE)
    findings = common.Findings()
    root = common.scratch("c02")
    cfg = {"p_kw": 25, "p_redecl": 45, "p_derived": 30, "p_inverse": 35, "max_ent": 12 if tier == "quick" else 30, "max_typ": 10,
           "p_array_optional": 30,
           "type_weights": {"simple": 20, "alias": 20, "enum": 16, "enum_alias": 10, "agg": 14, "select": 20}}
    schemas = [zoo.ZOO] + farm.draw_schemas(common.sub_seed(seed, PROP, "schemas"), n, cfg)
    # shrunk-by-hand or as-found schemas of repaired defects whose shape the generator reaches only rarely; judged like any other
    for rid in REGRESSION:
        f = os.path.join(common.VERIF, "replays", PROP, rid, "schema.json")
        if os.path.exists(f):
            schemas.append(json.load(open(f)))
            ev.bump("regression-schemas")
    for sd in schemas:
        for x in sd.get("tags", {}).get("excluded", []):
            ev.exclude(x)
    libs = farm.build_all(schemas, root, exes=("p21drv",))
    rc = 0
    seen = set()
    for lib in libs:
        sd = lib["schema"]
        text = open(lib["exp"]).read()
        tags = expgen.tags(sd)
        nt = nontrivial(sd)
        sample = None
        if nt and len(ev.samples) < 2:
            sample = text[:1800]
        ev.case(common.chash(text), nt, classes=["schema:" + t for t in tags], sample=sample)
        if not lib["ok"]:
            probs = ["%s failed for a valid schema: %s" % (lib["stage"], lib["log"][-700:])]
            d = None
        else:
            r = farm.drv(lib, ["dict"], timeout=60)
            if r["rc"] != 0 or r["json"] is None:
                probs = ["dictionary dump died: rc=%s %s" % (r["rc"], r["err"][-500:])]
            else:
                probs = compare(sd, r["json"])
                ap, npairs, nskip = c02acc.run(lib)
                probs += ["accessor: " + x for x in ap]
                ev.bump("accessor-pairs-round-tripped", npairs)
                ev.bump("accessor-pairs-not-exercised(aggregate/select valued)", nskip)
        if probs:
            sig = re.sub(r"\d+", "N", probs[0])[:80]
            if all(("declared bounds [-" in p or "declared bounds [" in p and ":-" in p or "[??" in p) for p in probs):
                sig = "negative-literal-bound"
            k = findings.match(PROP, sig)
            if k:
                ev.known_hit(k["id"])
                continue
            ev.violations += 1
            d = common.save_replay(PROP, {"schema.exp": text, "schema.json": json.dumps(sd)}, {"property": PROP, "what": "; ".join(probs[:6]), "sig": sig, "seed": seed})
            if sig not in seen:
                common.print_violation(PROP, d, "; ".join(probs[:6]))
            seen.add(sig)
            rc = 1
    probe_known(ev, findings, root)
    for fid in ev.known:
        e = [x for x in findings.entries if x.get("id") == fid and x.get("property") == PROP]
        common.print_known(PROP, e[0]["what"] if e else fid)
    if ev.evaluations < 5 and rc == 0:
        print("machinery failure: only %d schemas" % ev.evaluations)
        rc = 3
    ev.extra["entities_compared"] = sum(len(s["entities"]) for s in schemas)
    ev.extra["types_compared"] = sum(len(s["types"]) for s in schemas)
    ev.write()
    shutil.rmtree(root, ignore_errors=True)
    print("C02 %s: %d schemas (%d entities, %d types), %d distinct non-trivial, %d violations, known=%s" % (
        tier, ev.evaluations, ev.extra["entities_compared"], ev.extra["types_compared"], len(ev.nontrivial), ev.violations, ev.known))
    return rc


def replay(path):
    build.ensure("plain")
    root = common.scratch("c02-replay")
    sd = json.load(open(os.path.join(path, "schema.json")))
    lib = farm._build_one((0, sd, root, "plain", ("p21drv",), open(os.path.join(path, "schema.exp")).read()))
    if not lib["ok"]:
        common.print_violation(PROP, path, "%s failed: %s" % (lib["stage"], lib["log"][-400:]))
        return 1
    r = farm.drv(lib, ["dict"], timeout=60)
    probs = compare(sd, r["json"]) if r["json"] else ["dictionary dump died"]
    probs += ["accessor: " + x for x in c02acc.run(lib)[0]]
    shutil.rmtree(root, ignore_errors=True)
    if probs:
        common.print_violation(PROP, path, "; ".join(probs[:6]))
        return 1
    print("replay passes")
    return 0
