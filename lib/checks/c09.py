"""C09 - Part 21 literals: every grammatical token of a simple attribute kind reads to exactly the value it denotes;
anything else raises an error on the attribute (or is one of the reader's deliberate leniencies and yields the value it
evidently spells), is never silently turned into another value or into an unset attribute, and the delimiter is never
consumed; the writer renders every representable value as a conforming token that reads back.

Machinery: harness/literals.cc (in-process; reference recognisers are DFAs transcribed from the BNF in
harness/literals_ref.h) linked against the library generated from schemas/literals.exp by the CURRENT exp2cxx.
  * exhaustive part: every string over a per-kind alphabet up to length L (plus a word-level enumeration) x
    {',' ')'} x {no filler, blank, comment}, at attribute level and through the instance reader;
  * random part: rapidcheck generated long / boundary tokens;
  * writer: integer and real grids, items, strings, binaries, plus rapidcheck values;
  * one reduced pass of all three on the ASan+UBSan build.
"""
import concurrent.futures
import json
import os
import re
import shutil
import subprocess
import sys
import threading
import time

import build
import common

PROP = "C09"
KINDS = ["INTEGER", "REAL", "NUMBER", "STRING", "BINARY", "BOOLEAN", "LOGICAL", "ENUMERATION", "REFERENCE"]

RULE = ("Reader, enumerated: for each attribute kind (9 kinds, required and OPTIONAL) every string over the kind's "
        "alphabet up to length L, then every concatenation of up to k words of a per-kind word list (see "
        "coverage.enumeration), each string executed once per context = delimiter {',' , ')'} x filler between token "
        "and delimiter {'', ' ', '/**/'} (fillers only for strings up to the stated length); a case is one (kind, "
        "optionality, token, delimiter, filler) and is fed to STEPattribute::STEPread and, as a two-attribute "
        "instance record, to SDAI_Application_instance::STEPread. Reader, random: rapidcheck generated tokens <= 400 "
        "characters (integers around 2^31/2^63/10^k, reals around DBL_MAX/DBL_MIN/denormals/17 digits, strings made "
        "of every control directive, long binaries/identifiers/ids). Writer: integers +-(2^k+d), +-(10^k+d), reals "
        "mantissa x 10^e for e in -300..300, all powers of two incl. denormals, items, strings, binaries, plus "
        "rapidcheck values. NON-TRIVIAL = near-grammar: the token is grammatical, or begins with a grammatical token, "
        "or is in full a proper prefix of a grammatical token, or is '$' (the bulk that dies on its first character "
        "is not counted); writer cases count when a value was set and written. DISTINCT: enumerated strings are "
        "produced once by construction (later sweeps skip members of earlier ones, word-level sweeps de-duplicate by "
        "string), counted by the harness; random reader cases count only if the token is longer than 64 characters, "
        "i.e. out of reach of every enumeration, de-duplicated by hash; writer cases are de-duplicated by value.")

LENIENCIES = [
    ("lenient-number-syntax",
     "NUMBER accepts [sign](digits['.'digits*]|'.'digits)[('e'|'E')[sign]digits] (e.g. `.5`, `+.5`, `1e5`, `1E5`) with the "
     "value strtod gives the text",
     "src/clstepcore/read_func.cc ReadNumber: 'ReadNumber - read as a real number', implemented as `in >> d` on purpose, "
     "while ReadReal documents the difference: 'If you use the stream to read the real, it won't complain if the decimal "
     "place is missing' and re-implements the REAL syntax by hand; NUMBER must accept integer tokens, so the stream "
     "syntax is the reader's chosen NUMBER syntax"),
    ("lenient-letter-case",
     "ENUMERATION/BOOLEAN/LOGICAL accept `.name.` in any letter case (e.g. `.t.`, `.Red.`) with the item spelled in upper case",
     "src/cldai/sdaiEnum.cc ReadEnum compares StrToUpper(value) with the items and its syntax comment reads '*note* UPPER "
     "is defined as alpha or underscore'; set_value: 'case is not important'"),
]
NOT_LENIENT_NOTE = ("Lower-case `e` in a REAL is NOT in the leniency table: ReadReal says 'lower case e is an error' and raises "
                    "WARNING, which the oracle accepts as 'error raised'. Missing decimal point on REAL, missing dots on "
                    "enumerations, `@` for `#` likewise raise WARNING in the reader.")

MIN_CASES = {"quick": 5_000_000, "thorough": 30_000_000}


class Machinery(Exception):
    pass


# ------------------------------------------------------------------------------------------------ build

def build_harness(variant):
    """(Re)build core, schema library and harness for `variant` from the current tree. Returns exe path."""
    build.ensure(variant)
    out = os.path.join(common.WORK, "c09-" + variant)
    shutil.rmtree(out, ignore_errors=True)
    exp = os.path.join(common.VERIF, "schemas", "literals.exp")
    v0 = build.VARIANTS[variant]
    if "-fsanitize" in v0["flags"]:
        # UBSan's -fsanitize=function check fires in Registry::ObjCreate for every generated creator function (create_SdaiX is
        # called through a pointer of another function type); that happens before any input of this check is looked at and the
        # core is built with -fno-sanitize-recover, so it cannot be suppressed at run time.  Generated code and harness are
        # therefore compiled without function-type signatures (the core keeps all its instrumentation).
        build.VARIANTS[variant] = dict(v0, flags=v0["flags"] + " -fno-sanitize=function")
    try:
        r = build.build_schema(exp, out, variant, exes=(), jobs=8)
    finally:
        build.VARIANTS[variant] = v0
    v = dict(v0, flags=v0["flags"] + (" -fno-sanitize=function" if "-fsanitize" in v0["flags"] else ""))
    hd = os.path.join(common.VERIF, "harness")
    flags = [f for f in v["flags"].split() if f.startswith("-f") or f.startswith("-D")]
    exe = os.path.join(out, "literals")
    cmd = ([v["cxx"], "-std=c++11", "-O1", "-g", "-w"] + flags + build.includes(variant) + ["-I" + out, "-I" + hd,
           os.path.join(hd, "literals.cc"), "-o", exe, r["lib"]] + v["ld"].split() + build.libs(variant) +
           ["-Wl,-rpath," + out, "-lrapidcheck"])
    rc, o, e, _ = common.run(cmd, timeout=900)
    if rc != 0:
        raise build.BuildError("compile harness literals.cc (%s)" % variant, o + e)
    return exe


def last_json(out):
    for line in reversed(out.splitlines()):
        if line.startswith("@@JSON "):
            return json.loads(line[7:])
    return None


# ------------------------------------------------------------------------------------------------ tasks

def san_env():
    env = dict(os.environ)
    env["ASAN_OPTIONS"] = "detect_leaks=0:abort_on_error=0:exitcode=86:allocator_may_return_null=1"
    # -fsanitize=function fires in Registry::ObjCreate for every generated creator function (create_SdaiX returns the derived
    # pointer type); that is independent of any input of this check, so only that check kind is suppressed.
    supp = os.path.join(common.WORK, "c09-ubsan.supp")
    if not os.path.exists(supp):
        os.makedirs(common.WORK, exist_ok=True)
        with open(supp, "w") as f:
            f.write("function:*\n")
    env["UBSAN_OPTIONS"] = "print_stacktrace=1:halt_on_error=1:exitcode=87:suppressions=" + supp
    return env


def run_task(task):
    """task: dict(exe, args(list after out), out, variant, env_extra, timeout, label). Returns dict."""
    out = task["out"]
    for p in (out, out + ".cur", out + ".err"):
        try:
            os.unlink(p)
        except OSError:
            pass
    env = san_env() if task["variant"] == "san" else dict(os.environ)
    env.update(task.get("env", {}))
    cmd = [task["exe"], task["mode"], out] + [str(a) for a in task["args"]]
    t0 = time.time()
    res = {"task": task, "rc": None, "data": None, "cur": "", "err": "", "wall": 0.0}
    with open(out + ".err", "wb") as ef:
        try:
            p = subprocess.run(cmd, stdout=subprocess.DEVNULL, stderr=ef, env=env, timeout=task["timeout"])
            res["rc"] = p.returncode
        except subprocess.TimeoutExpired:
            res["rc"] = "timeout"
    res["wall"] = time.time() - t0
    try:
        with open(out + ".err", "rb") as f:
            f.seek(0, 2)
            n = f.tell()
            f.seek(max(0, n - 20000))
            res["err"] = f.read().decode("utf-8", "replace")
    except OSError:
        pass
    if os.path.exists(out):
        try:
            res["data"] = json.load(open(out))
        except ValueError:
            res["data"] = None
    try:
        raw = open(out + ".cur", "rb").read().split(b"\0")[0].decode("ascii", "replace")
        res["cur"] = raw
    except OSError:
        pass
    return res


def plan_tasks(exe, variant, tier, seed, rundir, reduced=False):
    """Enumeration + random + writer tasks.  Required attributes are enumerated at the tier's length bound, OPTIONAL ones
    (whose readers differ only in the treatment of `$` / nothing) one shorter; the sanitizer pass two shorter."""
    tnum = {"quick": 0, "thorough": 1}[tier]
    if reduced:
        levels = [(-2, 0, None), (-2, 1, (1,))]
    else:
        levels = [(tnum, 0, None), (tnum - 1, 1, None)]
    tasks = []
    units_all = []
    tmo = 900 if tier == "quick" else 4000
    for lvl, opt, only in levels:
        rc, o, e, _ = common.run([exe, "plan", str(lvl)], timeout=60)
        if rc != 0:
            raise Machinery("harness plan failed: " + o + e)
        units = json.loads(o.strip().splitlines()[-1])
        for u in units:
            if only is not None and u["sweep"] not in only:
                continue
            u["optional"] = opt
            units_all.append(u)
            size = u["size_bound"]
            nsh = max(1, min(64, int(size // (40000 if reduced else 120000)) + 1))
            for sh in range(nsh):
                label = "%s-%s-o%d-s%d-%dof%d" % (variant, u["kind"], opt, u["sweep"], sh, nsh)
                tasks.append({"exe": exe, "mode": "sweep", "variant": variant, "label": label, "kind": u["k"],
                              "out": os.path.join(rundir, label + ".json"), "timeout": tmo, "weight": size / nsh,
                              "args": [lvl, u["k"], opt, u["sweep"], sh, nsh, 0], "unit": u, "opt": opt})
    units = units_all
    # random reader part
    if reduced:
        nrand, rshards = 1500, 1
    else:
        nrand, rshards = (12000, 1) if tier == "quick" else (60000, 3)
    for k in range(len(KINDS)):
        for sh in range(rshards):
            s = common.sub_seed(seed, "random", variant, k, sh)
            label = "%s-random-%s-%d" % (variant, KINDS[k], sh)
            tasks.append({"exe": exe, "mode": "random", "variant": variant, "label": label, "kind": k,
                          "out": os.path.join(rundir, label + ".json"), "timeout": tmo, "weight": nrand * 12,
                          "args": [k, nrand], "env": {"RC_PARAMS": "seed=%d max_success=%d max_size=200" % (s, nrand)},
                          "rc_seed": s})
    tnum = -2 if reduced else tnum
    nw = 2000 if reduced else (20000 if tier == "quick" else 300000)
    s = common.sub_seed(seed, "writer", variant)
    label = "%s-writer" % variant
    tasks.append({"exe": exe, "mode": "writer", "variant": variant, "label": label, "kind": -1,
                  "out": os.path.join(rundir, label + ".json"), "timeout": tmo, "weight": nw * 4 + 200000,
                  "args": [tnum, nw], "env": {"RC_PARAMS": "seed=%d max_success=%d max_size=200" % (s, nw)}, "rc_seed": s})
    tasks.sort(key=lambda t: -t["weight"])
    return units, tasks


def run_tasks(tasks, nproc):
    results = []
    with concurrent.futures.ThreadPoolExecutor(max_workers=nproc) as ex:
        for r in ex.map(run_task, tasks):
            results.append(r)
    return results


# ------------------------------------------------------------------------------------------------ failures

SAN_RE = re.compile(r"ERROR: AddressSanitizer: ([a-z0-9-]+)|runtime error: ([^\n]+)")
FRAME_RE = re.compile(r"#\d+ 0x[0-9a-f]+ in (.+?) (/\S+?):\d+")


def sanitizer_sig(err):
    m = SAN_RE.search(err)
    if not m:
        return None
    kind = m.group(1) or re.sub(r"[^A-Za-z]+", "-", m.group(2))[:50].strip("-")
    func = "unknown"
    for fm in FRAME_RE.finditer(err[m.start():]):
        f, loc = fm.group(1), fm.group(2)
        if loc.startswith(common.REPO + "/"):
            func = re.sub(r"\(.*", "", f)
            break
    return "sanitizer-%s-in-%s" % (kind, func)


def parse_cur(cur):
    """'R k opt slot fillerhex. tokhex' -> example dict"""
    m = re.match(r"^([RW]) (-?\d+) (\d+) (\d+) ([0-9a-f]*)\. ([0-9a-f]*)$", cur.strip())
    if not m:
        return None
    k = int(m.group(2))
    tok = bytes.fromhex(m.group(6))
    fil = bytes.fromhex(m.group(5))
    return {"mode": "writer" if m.group(1) == "W" else "reader", "k": k, "kind": KINDS[k] if 0 <= k < len(KINDS) else "?",
            "optional": int(m.group(3)), "slot": int(m.group(4)), "delimiter": "," if int(m.group(4)) == 0 else ")",
            "filler": fil.decode("latin-1"), "filler_hex": m.group(5), "token": tok.decode("latin-1")[:300],
            "token_len": len(tok), "token_hex": m.group(6), "detail": ""}


def one_case(exe, variant, ex, timeout=120):
    """Run a single case in a fresh process. Returns (failed, sigs, detail)."""
    env = san_env() if variant == "san" else dict(os.environ)
    if ex.get("mode") == "writer":
        cmd = [exe, "wone", str(ex["k"]), ex["token_hex"]]
    else:
        cmd = [exe, "one", str(ex["k"]), str(ex["optional"]), str(ex["slot"]), ex["filler_hex"], ex["token_hex"]]
    rc, o, e, _ = common.run(cmd, timeout=timeout, env=env)
    j = last_json(o)
    if rc != 0 or j is None:
        sig = sanitizer_sig(e) if variant == "san" else None
        if sig is None:
            sig = "crash-%s-%s" % (ex["kind"], ex.get("mode", "reader"))
        return True, [sig], "process died: rc=%s (%s)\n%s" % (rc, ("signal %d" % -rc) if isinstance(rc, int) and rc < 0 else "exit", e[-3000:])
    return bool(j["fail"]), j["sigs"], j["detail"]


def shrink_crash(exe, variant, ex, sig, budget=120):
    """ddmin-like reduction of the token of a case that kills the process (same signature required)."""
    tok = bytes.fromhex(ex["token_hex"])
    runs = 0

    def dies(t):
        e2 = dict(ex, token_hex=t.hex())
        failed, sigs, _ = one_case(exe, variant, e2, timeout=60)
        return failed and sig in sigs
    n = 2
    while len(tok) >= 2 and runs < budget:
        chunk = max(1, len(tok) // n)
        reduced = False
        for i in range(0, len(tok), chunk):
            cand = tok[:i] + tok[i + chunk:]
            runs += 1
            if cand and dies(cand):
                tok = cand
                n = max(n - 1, 2)
                reduced = True
                break
            if runs >= budget:
                break
        if not reduced:
            if chunk == 1:
                break
            n = min(len(tok), n * 2)
    out = dict(ex, token_hex=tok.hex(), token=tok.decode("latin-1")[:300], token_len=len(tok))
    return out


class FailureTable:
    def __init__(self):
        self.by_sig = {}

    def add(self, sig, count, examples, variant):
        d = self.by_sig.setdefault(sig, {"count": 0, "examples": [], "variant": variant})
        d["count"] += count
        for e in examples:
            e = dict(e)
            e.setdefault("mode", "reader")
            e["variant"] = variant
            d["examples"].append(e)
        d["examples"].sort(key=lambda e: (e["token_len"] + len(e["filler"]), e["optional"], e["slot"], e["token_hex"]))
        del d["examples"][6:]


def fmt_example(e):
    if e.get("mode") == "writer":
        v = e["token"]
        if e["kind"] in ("REAL", "NUMBER") and re.match(r"^[0-9a-f]{16}$", v):
            import struct
            v = "%r (IEEE bits %s)" % (struct.unpack(">d", bytes.fromhex(v))[0], v)
        return "writer %s value %s" % (e["kind"], v)
    return "%s%s token %r filler %r before '%s'" % (e["kind"], " (OPTIONAL)" if e["optional"] else "", e["token"], e["filler"],
                                                   e["delimiter"])


# ------------------------------------------------------------------------------------------------ main

def collect(results, ev, ftab, variant, lost):
    """Merge task results into evidence and failure table."""
    for r in results:
        t = r["task"]
        d = r["data"]
        if d is None or r["rc"] != 0:
            # the process died (or timed out): the case it was running is in .cur
            ex = parse_cur(r["cur"]) if r["cur"] else None
            if r["rc"] == "timeout":
                sig = "timeout-%s" % (ex["kind"] if ex else t["label"])
            else:
                sig = sanitizer_sig(r["err"]) if variant == "san" else None
                if sig is None:
                    sig = "crash-%s-%s" % (ex["kind"] if ex else "?", ex["mode"] if ex else "?")
            if ex is None:
                raise Machinery("task %s died (rc=%s) outside a case: %s" % (t["label"], r["rc"], r["err"][-2000:]))
            ex["detail"] = "process died while running this case (rc=%s); stderr tail:\n%s" % (r["rc"], r["err"][-2500:])
            ftab.add(sig, 1, [ex], variant)
            lost.append(t["label"])
            if d is None:
                continue
        ev.evaluations += d["cases"]
        if t["mode"] == "random":
            ev.nontrivial |= set(d.get("nt_hashes", []))
        else:
            ev.nontrivial_counted += d["nontrivial"]
        pref = "" if variant == "plain" else "san:"
        for k, v in d["classes"].items():
            ev.bump(pref + k, v)
        for sig, f in d["failures"].items():
            exs = f["examples"]
            for e in exs:
                e["mode"] = "writer" if t["mode"] == "writer" else "reader"
            ftab.add(sig, f["count"], exs, variant)
        if variant == "plain":
            for key, exs in d.get("samples", {}).items():
                ev.extra.setdefault("_samples", {}).setdefault(key, [])
                ev.extra["_samples"][key] += exs[:3]
                ev.extra["_samples"][key].sort(key=lambda e: (e["token_len"], len(e["filler"])))
                del ev.extra["_samples"][key][4:]


def pick_samples(ev):
    pool = ev.extra.pop("_samples", {})
    out = []
    for rank in (0, 1):
        for key in sorted(pool):
            exs = sorted(pool[key], key=lambda e: (e["token_len"], len(e["filler"])))
            if len(exs) > rank and len(out) < 48:
                e = exs[rank]
                s = {"class": key, "case": fmt_example(e)}
                if e.get("detail"):
                    s["observed"] = e["detail"][:600]
                out.append(s)
    return out


def main(tier, seed):
    t_start = time.time()
    ev = common.Evidence(PROP, "exploration", tier, seed, RULE)
    ev.exhaustive = True
    ev.max_samples = 60
    ev.assumptions = [
        "glibc strtod is the correctly rounded decimal->double reference; std::regex is used only to self-test the hand written DFAs",
        "strings: the library keeps STRING values in exchange form including the quotes (src/cldai/sdaiString.cc), so 'the value a "
        "string token denotes' is compared as the token text itself and the writer is exercised with values in exchange form",
        "in-band null sentinels (src/clstepcore/sdai.cc: SDAI_INT_NULL=LONG_MAX, SDAI_REAL_NULL=SDAI_NUMBER_NULL=FLT_MIN) are excluded "
        "and counted; `$` on a required attribute and the empty token are C15's business and only their stream position is checked",
        "real underflow (nonzero literal that rounds to zero or a denormal) is not asserted either way; NaN/infinity have no token and are excluded from the writer",
        "NOT asserted (reported as class 'accepted-verbatim-unvalidated'): STRING tokens with balanced quotes but invalid control "
        "directives / characters and BINARY tokens with a bad first digit or lower-case hex are stored verbatim without error; the library "
        "treats both as opaque exchange text, so no different value and no unset attribute results",
        "NOT asserted: STEPattribute::asStr() (editor/display form, inverse of StrToVal) is not the Part 21 writer; its conformance is only counted",
        "references are resolved against an InstMgr holding TARGET #1,#9,#10,#19,#90,#100,#2147483647 and STRANGER #11,#91; a dangling or "
        "wrongly typed reference must raise an error (it cannot yield the denoted instance)",
        "LENIENCY TABLE (closed; anything else accepted without error is a failure): " +
        " || ".join("%s: %s -- justification: %s" % l for l in LENIENCIES),
        NOT_LENIENT_NOTE,
    ]
    fpath = os.environ.get("VERIF_FINDINGS")
    findings = common.Findings(fpath) if fpath else common.Findings()
    ftab = FailureTable()
    lost = []
    rc_final = 0
    try:
        exe = build_harness("plain")
        # sanitizer build in the background while the plain run proceeds
        san = {}

        def san_build():
            try:
                san["exe"] = build_harness("san")
            except Exception as e:          # reported below
                san["err"] = e
        th = threading.Thread(target=san_build)
        th.start()

        rc, o, e, _ = common.run([exe, "selftest"], timeout=600)
        st = last_json(o)
        if rc != 0 or not st or st["dfa_vs_regex_disagreements"] or st["value_points_bad"]:
            th.join()
            raise Machinery("reference self-test failed: rc=%s %s %s" % (rc, st, e[-1000:]))
        ev.extra["reference_selftest"] = st

        rundir = common.scratch("c09")
        units, tasks = plan_tasks(exe, "plain", tier, seed, rundir)
        t0 = time.time()
        results = run_tasks(tasks, common.NPROC)
        ev.extra["plain_run_s"] = round(time.time() - t0, 1)
        collect(results, ev, ftab, "plain", lost)
        ev.extra["enumeration"] = [{"kind": u["kind"] + (" (OPTIONAL)" if u["optional"] else ""), "sweep": u["name"], "alphabet": u["alphabet"],
                                    "L": u["L"] if u["char_level"] else None,
                                    "max_words": None if u["char_level"] else u["max_fragments"],
                                    "fillers_up_to_len": u["filler_contexts_up_to_len"],
                                    "contexts": "delimiter {',' ')'} x filler {'', ' ', '/**/'}"} for u in units]
        ev.extra["tasks"] = len(tasks)
        ev.extra["rapidcheck_seeds"] = {t["label"]: t["rc_seed"] for t in tasks if "rc_seed" in t}
        plain_cases = ev.evaluations

        th.join()
        if "err" in san:
            raise san["err"]
        sunits, stasks = plan_tasks(san["exe"], "san", tier, seed, rundir, reduced=True)
        t0 = time.time()
        sresults = run_tasks(stasks, common.NPROC)
        ev.extra["san_run_s"] = round(time.time() - t0, 1)
        before = ev.evaluations
        collect(sresults, ev, ftab, "san", lost)
        ev.extra["san_cases"] = ev.evaluations - before
        # any sanitizer report in a task that nevertheless finished
        for r in sresults:
            if r["data"] is not None and r["rc"] == 0 and SAN_RE.search(r["err"]):
                raise Machinery("sanitizer output in a finished task " + r["task"]["label"] + ": " + r["err"][-1500:])

        # ---- verdicts
        exes = {"plain": exe, "san": san["exe"]}
        violations = []
        seen_known = set()
        for sig in sorted(ftab.by_sig):
            f = ftab.by_sig[sig]
            k = findings.match(PROP, sig)
            ex = f["examples"][0]
            what = "%s: %d case(s), e.g. %s" % (sig, f["count"], fmt_example(ex))
            if k:
                ev.known_hit(k["id"], f["count"])
                if k["id"] not in seen_known:
                    seen_known.add(k["id"])
                    common.print_known(PROP, "id=%s %s" % (k["id"], what))
                ev.bump("known:" + sig, f["count"])
                continue
            if sig.startswith(("crash-", "sanitizer-")) and ex.get("mode", "reader") == "reader":
                ex = shrink_crash(exes[f["variant"]], f["variant"], ex, sig)
                f["examples"][0] = ex
            # confirm in fresh processes
            confirmed = 0
            detail = ""
            for _ in range(3):
                failed, sigs, detail = one_case(exes[f["variant"]], f["variant"], ex)
                if failed and (sig in sigs or sig.startswith(("crash-", "sanitizer-", "timeout-"))):
                    confirmed += 1
            if confirmed < 3:
                ev.inconclusive.append({"sig": sig, "case": fmt_example(ex), "confirmed": confirmed})
                violations.append((sig, f, ex, detail or ex.get("detail", ""), confirmed))
            else:
                violations.append((sig, f, ex, detail, confirmed))
        ev.violations = len(violations)
        ev.extra["failure_signatures"] = {s: ftab.by_sig[s]["count"] for s in ftab.by_sig}
        if lost:
            ev.extra["shards_cut_short_by_a_crash"] = lost
        ev.samples = pick_samples(ev)
        for sig, f, ex, detail, confirmed in violations[:10]:
            ev.samples.append({"class": "FAILURE " + sig, "case": fmt_example(ex), "observed": detail[:800]})
        ev.extra["wall_build_and_run_s"] = round(time.time() - t_start, 1)

        if plain_cases < MIN_CASES[tier] and not lost:
            ev.write()
            print("C09: only %d cases executed (< %d): machinery failure" % (plain_cases, MIN_CASES[tier]))
            return 3
        for sig, f, ex, detail, confirmed in violations:
            case = {"mode": ex.get("mode", "reader"), "variant": f["variant"], "k": ex["k"], "kind": ex["kind"],
                    "optional": ex["optional"], "slot": ex["slot"], "filler_hex": ex["filler_hex"], "token_hex": ex["token_hex"],
                    "token": ex["token"], "filler": ex["filler"], "sig": sig}
            meta = {"property": PROP, "sig": sig, "count": f["count"], "tier": tier, "seed": seed, "confirmed_fresh_process": confirmed,
                    "other_examples": [fmt_example(e) for e in f["examples"][1:5]], "detail": detail}
            d = common.save_replay(PROP, {"case.json": json.dumps(case, indent=1)}, meta)
            common.print_violation(PROP, d, "%s -- %d case(s); minimal: %s\n%s" % (sig, f["count"], fmt_example(ex), detail))
            rc_final = 1
        ev.write()
        print("C09 %s: %d cases (%d plain), %d distinct near-grammar, %d failure signature(s), %d violation(s), %.0fs"
              % (tier, ev.evaluations, plain_cases, len(ev.nontrivial) + ev.nontrivial_counted, len(ftab.by_sig), len(violations),
                 time.time() - t_start))
        return rc_final
    except Machinery as e:
        ev.extra.pop("_samples", None)
        ev.extra["machinery_failure"] = str(e)[:2000]
        if ev.evaluations == 0:
            ev.evaluations = 1
        ev.write()
        print("C09: MACHINERY FAILURE: %s" % e)
        return 3
    except build.BuildError:
        ev.extra["build_failure"] = True
        if ev.evaluations == 0:
            ev.evaluations = 1
        ev.write()
        raise


def replay(path):
    cj = os.path.join(path, "case.json") if os.path.isdir(path) else path
    case = json.load(open(cj))
    variant = case.get("variant", "plain")
    exe = build_harness(variant)
    ex = dict(case)
    ex.setdefault("mode", "reader")
    failed, sigs, detail = one_case(exe, variant, ex)
    print("C09 replay: %s -> %s %s" % (fmt_example({**ex, "token": case.get("token", ""), "filler": case.get("filler", ""),
                                                    "delimiter": "," if case["slot"] == 0 else ")"}),
                                       "FAILS" if failed else "passes", sigs))
    if detail:
        print("  " + detail[:3000])
    if failed:
        common.print_violation(PROP, os.path.dirname(cj) if os.path.isfile(cj) else cj, "; ".join(sigs))
        return 1
    return 0
