"""C13 - the instance manager stays consistent under any operation sequence.

Builds /verif/harness/instmgr_sm.cc (rapidcheck state machine + exhaustive enumerator + long
sequences + replay) against the current tree of the repository, in the `plain` variant (semantic
verdict) and the `san` variant (ASan+UBSan: a memory error inside the manager under a legal sequence
is a violation too), runs it in parallel shards and writes evidence.

The oracle lives in the harness (see the comment at its top): it is observational (never predicts
file ids), commands are symbolic and resolved at run time, a command whose precondition does not
hold is skipped, never executed.
"""
import json
import os
import re
import subprocess
import sys
import time
from concurrent.futures import ThreadPoolExecutor

import build
import common

PROP = "C13"
HARNESS = os.path.join(common.VERIF, "harness", "instmgr_sm.cc")

RULE = ("operation sequences against a fresh InstMgr (owning and non-owning), instances are header-schema entities "
        "with a destructor hook; three generators: (a) EXHAUSTIVE: every word of length 1..L over a 16 symbol alphabet "
        "{append auto-id x2 types, append explicit id 1, explicit id 5, append id-of-first-live (duplicate), re-append first, "
        "re-append last, re-append instance released by ClearInstances, Delete(node) first/last, Delete(instance) first/second, "
        "ChangeState, ClearInstances, DeleteInstances, NextFileId} x {non-owning, owning}; words containing a command whose "
        "precondition fails are not sequences and are pruned; (b) RANDOM: rapidcheck rc::state command sequences of length 1..200 "
        "over 19 command kinds incl. look-up commands, shrunk on failure; (c) LONG: sequences of 3000 append-biased commands "
        "(manager grows past the initial 1024 entry array). After every command (in a quarter of the random sequences: only at "
        "the end and in look-up commands) the full look-up sweep checks count, order, GetIndex, states, FindFileId for every "
        "live / dead / never used id, MaxFileId, by-name look-ups from many start indices, EntityKeywordCount. "
        "NON-TRIVIAL: the sequence executed a Delete(node|instance) and afterwards an Append or a look-up COMMAND (the sweep does "
        "not count), or it executed an Append whose id was live on another instance. DISTINCT: FNV-64 of the resolved trace "
        "(ownership, sweep mode, every executed command with its positions/ids resolved; skipped commands left out), "
        "union over all shards and both build variants.")

ASSUMPTIONS = [
    "preconditions of the generator (callers respect them, the API does not check): nodes/instances passed to Delete, ChangeState, "
    "GetIndex are live in this manager; positional index i in [0,count); by-name start >= 0; file ids in [0,100000] with 0 = not "
    "assigned; states are complete/incomplete/delete/new; ids of live instances are not modified behind the manager's back; an "
    "instance destroyed by the manager is never used again (destruction is observed through a destructor hook)",
    "reading of 'Append(duplicate id)': an instance whose id is live on ANOTHER instance is appended (count+1, at the end) and "
    "what id it gets is an 'id handed out automatically': must not be live and must be above every id seen since the manager was "
    "last empty; FindFileId(id) must return the node of A live instance carrying id (THE node when, as in the current code, live ids "
    "are unique)",
    "reading of 'Append(same instance twice)': the count must stay equal to the number of live instances, i.e. no second entry; the "
    "return value (0 or the existing node) and whether the state argument takes effect are not asserted",
    "'since the manager was last emptied' is read in the weakest way: the set of seen ids restarts whenever the manager holds no "
    "instance (ClearInstances, DeleteInstances or Delete of the last one); ids returned by NextFileId() count as seen",
    "not asserted: exact value of MaxFileId()/automatic ids, behaviour for out-of-range indices, negative ids, noStateSE, "
    "memory leaks (ClearInstances and the non-owning destructor leak MgrNodes; leak detection is off), whether Delete destroys the "
    "instance (observed, currently always), case-insensitivity beyond exact / UPPER / lower spellings of the entity name",
    "the san variant links the system librapidcheck (uninstrumented); only the library under test and the harness are instrumented",
]

# shapes of confirmed defects that can be excluded by construction (C13_EXCLUDE) when listed as open known findings
KNOWN_SHAPES = {
    "reappend-id0": {
        "exclude": "reappend_id0",
        "trace": "owner 0\nsweep 1\nappend_new 0 complete\nappend_same 0 complete\n",
        "what": "Append of an instance that is already in the manager and carries the automatically assigned id 0 (first "
                "automatic id of an empty manager) adds a second entry for the same instance under a new id; FindFileId(0) then "
                "returns a node whose instance carries another id",
    },
}

SAN_ENV = {"ASAN_OPTIONS": "detect_leaks=0:exitcode=77:allocator_may_return_null=1",
           "UBSAN_OPTIONS": "halt_on_error=1:exitcode=77:print_stacktrace=1"}


CORE_LIBS = ("stepeditor", "stepcore", "stepdai", "steputils")


def compile_harness(variant):
    """Always recompiles (the check must reflect the current tree and the current harness).  The core libraries are
    copied (under the build lock) into the check's own directory and the binary is bound to the copies: other checks
    may re-link the shared build directory while this one runs."""
    import glob
    import shutil
    b = build.ensure(variant)
    v = build.VARIANTS[variant]
    d = os.path.join(common.WORK, "c13-" + variant)
    libd = os.path.join(d, "lib")
    lk = build._lock("build-" + variant)
    try:
        shutil.rmtree(libd, ignore_errors=True)
        os.makedirs(libd)
        for name in CORE_LIBS:
            for f in glob.glob(os.path.join(b, "lib", "lib%s.so*" % name)):
                shutil.copy2(f, os.path.join(libd, os.path.basename(f)), follow_symlinks=False)
    finally:
        lk.close()
    out = os.path.join(d, "instmgr_sm")
    if os.path.exists(out):
        os.unlink(out)
    libs = ["-L" + libd, "-Wl,--no-as-needed"] + ["-l" + n for n in CORE_LIBS] + ["-Wl,--as-needed", "-Wl,-rpath," + libd]
    cmd = ([v["cxx"], "-std=c++11", "-w"] + v["flags"].split() + build.includes(variant) + [HARNESS, "-o", out] +
           v["ld"].split() + libs + ["-lrapidcheck"])
    rc, o, e, _ = common.run(cmd, timeout=900)
    if rc != 0 or not os.path.exists(out):
        raise build.BuildError("C13 harness (%s)" % variant, o + e)
    return out


def env_for(variant, extra=None):
    env = dict(os.environ)
    env.pop("RC_PARAMS", None)
    for k in list(env):
        if k.startswith("C13_"):
            env.pop(k)
    if variant == "san":
        env.update(SAN_ENV)
    # private copies of the core libraries first (also for the libraries' own dependencies)
    libd = os.path.join(common.WORK, "c13-" + variant, "lib")
    env["LD_LIBRARY_PATH"] = libd + (":" + env["LD_LIBRARY_PATH"] if env.get("LD_LIBRARY_PATH") else "")
    if extra:
        env.update(extra)
    return env


def parse_json(out):
    last = None
    for line in out.splitlines():
        if line.startswith("@@JSON "):
            last = line[7:]
    if last is None:
        return None
    try:
        return json.loads(last)
    except ValueError:
        return None


def san_sig(err):
    m = re.search(r"SUMMARY: (\w+)Sanitizer: (\S+) \S+ in (\S+)", err)
    if m:
        return "%s:%s:%s" % (m.group(1).lower(), m.group(2), m.group(3))
    m = re.search(r"([\w./-]+:\d+):\d+: runtime error: ([^\n]{0,80})", err)
    if m:
        return "ubsan:%s:%s" % (os.path.basename(m.group(1)), re.sub(r"0x[0-9a-f]+", "ADDR", m.group(2)).strip())
    return "crash"


def run_job(job):
    """job: dict(name, variant, bin, args, env, dir, timeout). Returns the job with results filled in."""
    os.makedirs(job["dir"], exist_ok=True)
    files = {k: os.path.join(job["dir"], k + ".txt") for k in ("hash", "fail", "crash")}
    for f in files.values():
        if os.path.exists(f):
            os.unlink(f)
    env = env_for(job["variant"], job.get("env"))
    env["C13_HASH_FILE"], env["C13_FAIL_FILE"], env["C13_CRASH_FILE"] = files["hash"], files["fail"], files["crash"]
    rc, out, err, secs = common.run([job["bin"]] + job["args"], env=env, timeout=job["timeout"])
    job.update(rc=rc, secs=secs, json=parse_json(out), stderr=err[-6000:], files=files)
    return job


def replay_once(binary, variant, text, workdir, tag, exclude=None, emit=False):
    """Replays a trace in a fresh process. Returns (status, sig, msg, annotated) with status in ok|fail|crash|error."""
    os.makedirs(workdir, exist_ok=True)
    p = os.path.join(workdir, "replay-%s.txt" % tag)
    with open(p, "w") as f:
        f.write(text)
    extra = {}
    ep = os.path.join(workdir, "emit-%s.txt" % tag)
    if os.path.exists(ep):
        os.unlink(ep)
    if emit:
        extra["C13_EMIT_FILE"] = ep
    rc, out, err, _ = common.run([binary, "replay", p], env=env_for(variant, extra), timeout=300)
    ann = None
    if emit and os.path.exists(ep):
        ann = open(ep).read()
    if rc == 0:
        return "ok", "", "", ann
    if rc == 1:
        j = parse_json(out) or {}
        return "fail", j.get("fail_sig", "?"), j.get("fail_msg", "?"), ann
    if rc == 2:
        return "error", "", err[-500:], ann
    if rc is None:
        return "error", "", "timeout", ann
    return "crash", san_sig(err), (err[-3000:] or "exit status %s" % rc), ann


def split_trace(text):
    header, cmds = [], []
    for line in text.splitlines():
        s = line.split("#", 1)[0].strip()
        if not s:
            continue
        (header if s.split()[0] in ("owner", "sweep", "exclude") else cmds).append(s)
    return header, cmds


def minimise(binary, variant, text, workdir, want_status, want_sig, budget=1500):
    """Greedy chunk removal (ddmin-like) over command lines; every candidate is a legal trace because commands are
    resolved, or skipped, at run time."""
    header, cmds = split_trace(text)
    runs = [0]

    def bad(c):
        runs[0] += 1
        st, sig, _, _ = replay_once(binary, variant, "\n".join(header + c) + "\n", workdir, "min")
        return st == want_status and (want_status == "crash" or sig == want_sig)
    chunk = max(1, len(cmds) // 2)
    while chunk >= 1 and runs[0] < budget:
        i, changed = 0, False
        while i < len(cmds) and runs[0] < budget:
            cand = cmds[:i] + cmds[i + chunk:]
            if cand and bad(cand):
                cmds, changed = cand, True
            else:
                i += chunk
        if chunk == 1:
            if not changed:
                break
        else:
            chunk //= 2
    return "\n".join(header + cmds) + "\n", runs[0]


def confirm_and_report(binary, variant, text, origin, ev, findings, seed, tier):
    """Minimise, replay 3x in fresh processes, consult known findings. Returns 'violation' | 'known' | 'flaky'."""
    wd = os.path.join(common.WORK, "run", "c13-confirm")
    st0, sig0, msg0, _ = replay_once(binary, variant, text, wd, "first")
    if st0 not in ("fail", "crash"):
        print("C13: failure reported by %s does not reproduce on replay (%s %s)" % (origin, st0, msg0))
        return "flaky"
    mini, nruns = minimise(binary, variant, text, wd, st0, sig0)
    results = [replay_once(binary, variant, mini, wd, "c%d" % i, emit=True) for i in range(3)]
    if not all(r[0] == st0 and (st0 == "crash" or r[1] == sig0) for r in results):
        print("C13: minimal trace is not stable over 3 replays: %s" % [(r[0], r[1]) for r in results])
        return "flaky"
    sig, msg, ann = results[0][1], results[0][2], results[0][3]
    known = findings.match(PROP, sig)
    if known:
        ev.known_hit(known.get("id", sig))
        common.print_known(PROP, "%s sig=%s (%s): %s" % (known.get("id"), sig, origin, msg.splitlines()[0][:300] if msg else ""))
        return "known"
    files = {"trace.txt": mini}
    if ann:
        files["annotated.txt"] = ann
    meta = {"property": PROP, "variant": variant, "sig": sig, "status": st0, "message": msg, "origin": origin, "seed": seed,
            "tier": tier, "minimisation_replays": nruns,
            "how": "cd /verif && ./check C13 --replay <this dir>   (runs: instmgr_sm replay trace.txt, %s build)" % variant}
    d = common.save_replay(PROP, files, meta)
    ev.violations += 1
    common.print_violation(PROP, d, "[%s build, %s] %s\nminimal trace:\n%s" % (variant, sig, msg, ann or mini))
    return "violation"


def plan(tier, seed, bins):
    jobs = []

    def add(name, variant, args, env=None, timeout=600):
        jobs.append(dict(name=name, variant=variant, bin=bins[variant], args=[str(a) for a in args], env=dict(env or {}),
                         dir=os.path.join(common.WORK, "run", "c13", name), timeout=timeout))

    def rand(variant, shards, per, timeout):
        for k in range(shards):
            s = common.sub_seed(seed, "rand", variant, k)
            add("rand-%s-%02d" % (variant, k), variant, ["random"],
                {"RC_PARAMS": "seed=%d max_success=%d max_size=199" % (s, per)}, timeout)

    def exh(variant, length, shards, timeout):
        for k in range(shards):
            add("exh-%s-%02d" % (variant, k), variant, ["exhaustive", length, k, shards], None, timeout)

    def lng(variant, njobs, nseq, timeout):
        for k in range(njobs):
            add("long-%s-%02d" % (variant, k), variant, ["long", nseq, 3000, common.sub_seed(seed, "long", variant, k)], None, timeout)

    if tier == "quick":
        exh("plain", 5, 16, 300)
        rand("plain", 16, 5000, 300)
        lng("plain", 4, 4, 300)
        exh("san", 4, 8, 300)
        rand("san", 16, 1000, 300)
        lng("san", 4, 1, 300)
        minimum = {"total": 100000, "random": 50000, "exhaustive": 100000, "long": 12}
    else:
        exh("plain", 6, 64, 1200)
        rand("plain", 64, 12500, 1200)
        lng("plain", 16, 12, 1200)
        exh("san", 5, 32, 1200)
        rand("san", 32, 6250, 1200)
        lng("san", 16, 3, 1200)
        minimum = {"total": 2000000, "random": 600000, "exhaustive": 1000000, "long": 150}
    return jobs, minimum


def main(tier, seed):
    rule = RULE
    ev = common.Evidence(PROP, "exploration", tier, seed, rule)
    ev.assumptions = list(ASSUMPTIONS)
    findings = common.Findings()
    t0 = time.time()
    try:
        with ThreadPoolExecutor(2) as tp:
            futs = {v: tp.submit(compile_harness, v) for v in ("plain", "san")}
            bins = {v: f.result() for v, f in futs.items()}
    except build.BuildError:
        ev.inconclusive.append("build failure")
        ev.write()
        raise
    ev.extra["build_s"] = round(time.time() - t0, 1)

    verdict = 0
    machinery = []

    # 1. known shapes: probe each; a shape that still fails is either a listed finding or a violation; in both
    #    cases it is then excluded by construction so that the search continues past it
    exclude = []
    for sig, shape in KNOWN_SHAPES.items():
        wd = os.path.join(common.WORK, "run", "c13-probe")
        st, psig, msg, ann = replay_once(bins["plain"], "plain", shape["trace"], wd, sig, emit=True)
        ev.extra.setdefault("known_shape_probes", {})[sig] = st
        if st == "ok":
            continue
        if st == "error":
            machinery.append("probe %s: %s" % (sig, msg))
            continue
        r = confirm_and_report(bins["plain"], "plain", shape["trace"], "probe of shape " + sig, ev, findings, seed, tier)
        if r == "violation":
            verdict = 1
        elif r == "flaky":
            machinery.append("probe %s flaky" % sig)
        if st == "fail" and psig == sig:
            exclude.append(shape["exclude"])    # the shape itself is present: search past it
    excl_env = {"C13_EXCLUDE": ",".join(exclude)} if exclude else {}

    # 2. the search
    jobs, minimum = plan(tier, seed, bins)
    for j in jobs:
        j["env"].update(excl_env)
    with ThreadPoolExecutor(common.NPROC) as tp:
        done = list(tp.map(run_job, jobs))

    totals = {"random": 0, "exhaustive": 0, "long": 0}
    per_variant = {"plain": 0, "san": 0}
    exh_part = {"exhaustive": True, "alphabet": 16, "sequences": 0, "words_tried": 0, "pruned_prefixes": 0,
                "max_len": {}, "note": "every word up to max_len over the alphabet x {non-owning, owning}; pruned = "
                "prefixes containing a command whose precondition fails (not sequences)"}
    kinds, lengths = {}, {}
    excluded_steps = 0
    failures = []
    samples = []
    for j in done:
        js = j["json"]
        mode = j["args"][0]
        if j["rc"] is None:
            ev.inconclusive.append("%s: time budget (%ds) hit" % (j["name"], j["timeout"]))
            continue
        if js is None:
            # no statistics: crash (sanitizer report / signal) or machinery trouble
            crash = open(j["files"]["crash"]).read() if os.path.exists(j["files"]["crash"]) else ""
            if crash and j["rc"] not in (0, 1, 2):
                failures.append((j, crash, "crash"))
            else:
                machinery.append("%s: rc=%s, no statistics; stderr tail: %s" % (j["name"], j["rc"], j["stderr"][-800:]))
            continue
        totals[js["mode"]] = totals.get(js["mode"], 0) + js["sequences"]
        per_variant[j["variant"]] += js["sequences"]
        ev.evaluations += js["sequences"]
        for k, v in js["classes"].items():
            ev.bump(k, v)
        for k, v in js["kinds"].items():
            kinds[k] = kinds.get(k, 0) + v
        for k, v in js["lengths"].items():
            lengths[k] = lengths.get(k, 0) + v
        ev.bump("sequences:owning manager", js["owning"])
        ev.bump("sequences:non-owning manager", js["sequences"] - js["owning"])
        ev.bump("sequences:sweep only at end", js["sweep_end_only"])
        ev.bump("sequences:non-trivial (not de-duplicated)", js["nontrivial"])
        ev.bump("commands executed", js["commands"])
        ev.bump("commands skipped at run time (precondition)", js["skipped"] - js["excluded"])
        excluded_steps += js["excluded"] + js.get("pruned_by_exclusion", 0)
        ev.extra["max_live_instances"] = max(ev.extra.get("max_live_instances", 0), js["max_live"])
        if mode == "exhaustive":
            exh_part["sequences"] += js["sequences"]
            exh_part["words_tried"] += js["words_tried"]
            exh_part["pruned_prefixes"] += js["pruned_prefixes"]
            exh_part["max_len"][j["variant"]] = js["max_len"]
        if os.path.exists(j["files"]["hash"]):
            with open(j["files"]["hash"]) as f:
                ev.nontrivial.update(line.strip() for line in f if line.strip())
        for s in js["samples"]:
            samples.append((mode, s))
        if js["failed"] or j["rc"] != 0:
            text = open(j["files"]["fail"]).read() if os.path.exists(j["files"]["fail"]) else ""
            if text:
                failures.append((j, text, "fail"))
            else:
                machinery.append("%s: failed without a trace (rc=%s)" % (j["name"], j["rc"]))
    # samples: de-duplicated, a mix of modes and lengths
    uniq = {}
    for mode, s in samples:
        uniq.setdefault(s, mode)
    by_mode = {}
    for s, mode in sorted(uniq.items(), key=lambda t: (len(t[0]), t[0])):
        by_mode.setdefault(mode, []).append(s)
    for mode in ("exhaustive", "random"):
        lst = by_mode.get(mode, [])
        picks = [lst[0], lst[len(lst) // 2], lst[-1]] if len(lst) >= 3 else lst
        for s in picks:
            if len(ev.samples) < ev.max_samples and len(s) < 6000:
                ev.samples.append({"mode": mode, "trace": s.rstrip("\n").split("\n")})
    ev.extra["exhaustive_part"] = exh_part
    ev.extra["sequences_by_mode"] = totals
    ev.extra["sequences_by_build"] = per_variant
    ev.extra["command_kinds"] = kinds
    ev.extra["sequence_lengths"] = lengths
    ev.extra["jobs"] = len(jobs)
    if exclude:
        for x in exclude:
            ev.exclude(x + " (steps skipped / words pruned because of a confirmed defect shape)", excluded_steps)

    # 3. failures found by the search: one representative per signature (plain build first)
    groups = {}
    for j, text, kind in sorted(failures, key=lambda t: (t[0]["variant"] != "plain", t[0]["secs"])):
        sig = (j["json"] or {}).get("fail_sig") if kind == "fail" else "crash:" + san_sig(j["stderr"])
        groups.setdefault(sig, []).append((j, text, kind))
    ev.extra["failing_shards"] = {str(k): len(v) for k, v in groups.items()}
    reported = set()
    for sig, lst in list(groups.items())[:4]:
        j, text, kind = lst[0]
        r = confirm_and_report(j["bin"], j["variant"], text,
                               "%s (%s, found after %.1fs in that shard; %d shards failed this way)" % (j["name"], kind, j["secs"], len(lst)),
                               ev, findings, seed, tier)
        if r == "violation":
            verdict = 1
        elif r == "flaky":
            machinery.append("%s: failure not reproducible" % j["name"])
        reported.add(r)
    if len(groups) > 4:
        ev.inconclusive.append("%d further failure signatures not analysed" % (len(groups) - 4))
    if "known" in reported:
        ev.inconclusive.append("search cut short in some shards by a known finding that is not excluded by construction")

    ev.write()
    print("C13 %s: %d sequences (%s; plain %d, san %d), %d distinct non-trivial, %d jobs, %.0fs; exclusions: %s" % (
        tier, ev.evaluations, ", ".join("%s %d" % kv for kv in sorted(totals.items())), per_variant["plain"],
        per_variant["san"], len(ev.nontrivial), len(jobs), time.time() - t0, exclude or "none"))
    for m in ev.inconclusive:
        print("C13 inconclusive: " + m)
    if verdict:
        return 1
    if machinery:
        for m in machinery:
            print("C13 machinery failure: " + m)
        return 3
    low = [k for k in ("random", "exhaustive", "long") if totals.get(k, 0) < minimum[k]]
    if ev.evaluations < minimum["total"] or low:
        if ev.inconclusive:
            print("C13: fewer sequences than planned because of the time budget: inconclusive, not a violation")
            return 0 if ev.evaluations > 0 else 3
        print("C13 machinery failure: only %d sequences executed (%s), expected at least %s" % (ev.evaluations, totals, minimum))
        return 3
    return 0


def replay(path):
    trace = os.path.join(path, "trace.txt") if os.path.isdir(path) else path
    meta = {}
    mp = os.path.join(os.path.dirname(trace), "meta.json")
    if os.path.exists(mp):
        try:
            meta = json.load(open(mp))
        except ValueError:
            meta = {}
    variant = meta.get("variant", "plain")
    if variant not in ("plain", "san"):
        variant = "plain"
    binary = compile_harness(variant)
    text = open(trace).read()
    wd = os.path.join(common.WORK, "run", "c13-replay")
    st, sig, msg, ann = replay_once(binary, variant, text, wd, "r", emit=True)
    if st == "error":
        print("C13 replay: cannot run the trace: " + msg)
        return 3
    if st == "ok":
        print("C13 replay: trace passes on the current tree (%s build)" % variant)
        return 0
    common.print_violation(PROP, os.path.dirname(os.path.abspath(trace)),
                           "[%s build, %s] %s\ntrace:\n%s" % (variant, sig, msg, ann or text))
    return 1
