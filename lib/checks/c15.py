"""C15 - strict / lenient handling of missing required attributes.
Generated: conforming (schema, population); then for EVERY attribute occurrence (slot of every part of every instance,
derived slots excepted) one variant with the value replaced by `$` and one with the value omitted, x strict in {on, off}.
Oracle: the decision table of the statement."""
import copy
import json
import os
import shutil

from hypothesis import strategies as st

import common
import farm
import farmcheck
import zoo
import expmodel
import p21gen
import p21render
import p21parse
from farm import Found
import c01

PROP = "C15"
RULE = ("For each generated conforming population every non-derived attribute occurrence is enumerated (not sampled): the value "
        "is replaced by '$' (and, second variant, by nothing between the delimiters), and the file is read in strict and in "
        "lenient mode by the real library (driver + p21read [-s] for the exit status). Expected outcome from the statement's "
        "table: OPTIONAL -> accepted, written '$'; required+strict -> incomplete, read fails; required+lenient+INTEGER/REAL/"
        "NUMBER/STRING -> severity exactly USERMSG, exit 0, written 0 / 0. / 0. / ''; required+lenient+other kind -> incomplete. "
        "All other instances must keep their values. A case is non-trivial unless it nulls the only attribute of a "
        "one-attribute simple instance; distinct by (schema, population, slot, variant, mode).")

SKEL_HEAD = "ISO-10303-21;\nHEADER;\nFILE_DESCRIPTION((''),'2;1');\nFILE_NAME('','',(''),(''),'','','');\nFILE_SCHEMA(('X'));\nENDSEC;\nDATA;\n"
SKEL_TAIL = "ENDSEC;\nEND-ISO-10303-21;\n"


def parse_instance_texts(texts):
    return p21parse.parse(SKEL_HEAD + "".join(texts) + SKEL_TAIL, allow_working=False)["data"]


def slot_kind(sch, sl):
    r = sch.resolve(sl["type"])
    if r[0] == "simple":
        return r[1]
    return {"enum": "ENUMERATION", "select": "SELECT", "entity": "ENTITY", "agg": "AGGREGATE"}[r[0]]


FILLER = {"INTEGER": ["i", 0], "REAL": ["r", "0."], "NUMBER": ["n", "0"], "STRING": ["s", ""]}


def render_variant(pop, layout, feats, target, variant):
    """target = (instance index, part index, slot index). variant '$' or 'empty'."""
    pop2 = copy.deepcopy(pop)
    ii, pi, si = target
    marker = ["s", "@@NULLED@@"]
    pop2["instances"][ii]["parts"][pi]["vals"][si] = marker
    text = p21render.render(pop2, layout, feats=feats)
    assert text.count("'@@NULLED@@'") == 1
    return text.replace("'@@NULLED@@'", "$" if variant == "$" else "")


def oracle_one(lib, sch, pop, text, target, strict, wd, tag, slot, kind, variant="$"):
    """Returns (expected_outcome, problems)."""
    ii, pi, si = target
    inst = pop["instances"][ii]
    f = os.path.join(wd, tag + ".p21")
    o = os.path.join(wd, tag + ".out")
    with open(f, "w") as fh:
        fh.write(text)
    if os.path.exists(o):
        os.remove(o)
    args = ["read", f, o] + (["-s"] if strict else [])
    r = farm.drv(lib, args, cwd=wd, timeout=20)
    probs = []
    try:
        if r["rc"] != 0 or r["json"] is None:
            return "?", ["driver died: rc=%s stderr=%s" % (r["rc"], r["err"][-400:])]
        js = r["json"]
        sev = js["read"]["sev"]
        rc, out, err, _ = common.run([lib["exes"]["p21read"]] + (["-s"] if strict else []) + [f, os.path.join(wd, tag + ".pr")], cwd=wd, timeout=20)
        if slot["optional"]:
            expected = "accepted-optional"
            exp_val = ["null"]
        elif strict:
            expected = "incomplete-strict"
            exp_val = None
        elif variant != "$":
            # The statement fixes the outcome of an *empty* value only for OPTIONAL attributes (accepted) and, as a
            # missing value, for strict mode (incomplete). What lenient mode does with a parameter that is not there
            # at all is not stated (for the last attribute it is indistinguishable from "too few parameters", which
            # C03 requires to fail) -> executed (sanitizer/crash visible) but not asserted.
            return "unasserted(empty,required,lenient)", []
        elif kind in FILLER:
            expected = "filled-lenient"
            exp_val = FILLER[kind]
        else:
            expected = "incomplete-lenient-other-kind"
            exp_val = None
        if exp_val is not None:
            want_sev = 3 if expected == "accepted-optional" else 2
            if expected == "accepted-optional":
                if sev < 2:
                    probs.append("unset OPTIONAL attribute not accepted: severity %d: %s" % (sev, (js["read"]["user"] + r["err"])[-300:]))
            elif sev != 2:
                probs.append("lenient fill of required %s: expected severity USERMSG(2), got %d: %s" % (kind, sev, (js["read"]["user"] + r["err"])[-300:]))
            if rc != 0:
                probs.append("p21read%s exit status %s, expected 0" % (" -s" if strict else "", rc))
            # whole written population == model with the slot replaced
            pop2 = copy.deepcopy(pop)
            pop2["instances"][ii]["parts"][pi]["vals"][si] = exp_val
            try:
                parsed = p21parse.parse(open(o, encoding="latin-1").read(), allow_working=False)
                probs += p21gen.cmp_population(pop2, parsed, check_header=False)
            except (OSError, p21parse.P21SyntaxError) as e:
                probs.append("written file missing/invalid: %s" % e)
        else:
            if sev > 1:
                probs.append("%s: expected the read to fail (severity <= INCOMPLETE), got severity %d" % (expected, sev))
            if rc == 0:
                probs.append("%s: p21read%s exit status 0, expected non-zero" % (expected, " -s" if strict else ""))
            # every other instance is loaded with its values
            got = {g["id"]: g for g in js["instances"]}
            texts = []
            for other in pop["instances"]:
                if other["id"] == inst["id"]:
                    continue
                if other["id"] not in got:
                    probs.append("instance #%d missing after the failed read" % other["id"])
                    continue
                texts.append((other, got[other["id"]]["text"]))
            if texts:
                try:
                    parsed = parse_instance_texts([t for _o, t in texts])
                    for (other, _t), g in zip(texts, parsed):
                        probs += ["other instance changed: " + x for x in p21gen.cmp_instance(other, g)]
                except p21parse.P21SyntaxError as e:
                    probs.append("other instances do not serialise to valid Part 21: %s" % e)
        return expected, probs
    finally:
        for p in (f, o, os.path.join(wd, tag + ".pr")):
            try:
                os.remove(p)
            except OSError:
                pass


def enumerate_targets_all(sch, pop):
    return enumerate_targets(sch, pop, include_derived=True)


def enumerate_targets(sch, pop, include_derived=False):
    out = []
    for ii, inst in enumerate(pop["instances"]):
        members = [p["ent"] for p in inst["parts"]]
        for pi, part in enumerate(inst["parts"]):
            if inst["complex"]:
                slots = sch.part_slots(part["ent"], members)
            else:
                slots = sch.p21_slots(part["ent"])
            for si, sl in enumerate(slots):
                if sl["derived"] and not include_derived:
                    continue
                pos = "first" if si == 0 else ("last" if si == len(slots) - 1 else "middle")
                inherited = (not inst["complex"]) and sl["owner"] != part["ent"]
                out.append(((ii, pi, si), sl, pos, inherited, inst["complex"], len(slots)))
    return out


def case(ctx, x):
    pop, layout = x
    ev = ctx.ev
    for k, v in pop.pop("excluded", {}).items():
        ev.exclude(k, v)
    pop.pop("probe", None)
    sch = expmodel.Schema(ctx.lib["schema"])
    feats = c01.layout_feats(ctx) - {"comment-inner"}
    targets = enumerate_targets(sch, pop)
    if ctx.tier == "quick" and len(targets) > 40:
        # bound the per-population cost: keep every kind/position class, drop repeats deterministically
        seen = {}
        keep = []
        for t in targets:
            key = (slot_kind(sch, t[1]), t[1]["optional"], t[2], t[3], t[4])
            if seen.get(key, 0) < 2:
                seen[key] = seen.get(key, 0) + 1
                keep.append(t)
        ev.exclude("repeated (kind, optional, position, inherited, complex) class within one population (quick tier)", len(targets) - len(keep))
        targets = keep
    pop_hash = c01.pop_canon(ctx, pop)
    for (target, sl, pos, inherited, cx, nslots) in targets:
        kind = slot_kind(sch, sl)
        via_defined = sl["type"]["k"] == "named" and kind in expmodel.SIMPLE
        for variant in ("$", "empty"):
            if variant == "empty" and pos != "last" and (target[2] + target[0]) % 3 != 0:
                continue    # the 'empty' variant on a third of the slots, and on every last one (where it meets the ')': F92)
            text = render_variant(pop, layout, feats, target, variant)
            for strict in (False, True):
                tag = ctx.tag()
                expected, probs = oracle_one(ctx.lib, sch, pop, text, target, strict, ctx.wd, tag, sl, kind, variant)
                classes = ["outcome:" + expected, "kind:" + kind, "pos:" + pos, "variant:" + variant,
                           "strict" if strict else "lenient", "optional" if sl["optional"] else "required"]
                if inherited:
                    classes.append("inherited-attribute")
                if cx:
                    classes.append("inside-complex-part")
                if via_defined:
                    classes.append("via-defined-type")
                cell = "%s/%s/%s/%s%s" % (kind, "opt" if sl["optional"] else "req", pos, "strict" if strict else "lenient", "/complex" if cx else "")
                ev.bump("cell:" + cell)
                nt = not (nslots == 1 and not cx)
                sample = None
                if nt and len(ev.samples) < 3 and expected != "accepted-optional":
                    sample = {"expected": expected, "strict": strict, "file": text[-600:]}
                ev.case(common.chash([pop_hash, target, variant, strict]), nt, classes=classes, sample=sample)
                if probs:
                    sig = "%s:%s" % (expected, c01.signature(probs))
                    if cx and "complex-nonhead-part-errors-dropped" in ctx.open_sigs and expected != "accepted-optional":
                        inst = pop["instances"][target[0]]
                        head = min(p["ent"].lower() for p in inst["parts"])
                        if inst["parts"][target[1]]["ent"].lower() != head and ctx.known("complex-nonhead-part-errors-dropped"):
                            continue
                    if cx and sl.get("redeclared_by") and not sl["optional"] and F83_SIG in ctx.open_sigs:
                        # required only through a re-declaration that ANOTHER part of the complex instance brings along, OPTIONAL
                        # as declared: attributed to F83 iff the reader did exactly what the declaration alone asks for
                        decl = [a for a in sch.own_slots(sl["owner"]) if a["name"].lower() == sl["name"]]
                        if decl and decl[0]["optional"]:
                            _e2, p2 = oracle_one(ctx.lib, sch, pop, text, target, strict, ctx.wd, ctx.tag(), dict(sl, optional=True), kind, variant)
                            if not p2 and ctx.known(F83_SIG):
                                continue
                    if ctx.known(sig):
                        continue
                    raise Found({"what": "[%s %s %s%s] " % (kind, expected, "strict" if strict else "lenient", " complex-part" if cx else "") + "; ".join(probs[:3]),
                                 "sig": sig, "pop": pop, "text": text, "target": list(target), "strict": strict, "layout": layout, "variant": variant})


def reoracle(lib, f, wd):
    sch = expmodel.Schema(lib["schema"])
    pop = f["pop"]
    target = tuple(f["target"])
    t = [x for x in enumerate_targets(sch, pop) if x[0] == target][0]
    return oracle_one(lib, sch, pop, f["text"], target, f["strict"], wd, "confirm", t[1], slot_kind(sch, t[1]), f.get("variant", "$"))[1]


F83_SIG = "complex-redeclared-optionality-ignored"

# F92: empty value of the last attribute behind the slot of a redeclared attribute - the as-found case (seed 15) is judged on
# every run, because no always-explored schema has an OPTIONAL last attribute behind such a slot
REGRESSION = ("c0c92abf537366bb",)


def regression():
    rc = 0
    for rid in REGRESSION:
        path = os.path.join(common.VERIF, "replays", PROP, rid)
        if not os.path.exists(os.path.join(path, "case.json")):
            continue
        lib, root = farmcheck.replay_lib(path, name="c15-regr")
        if not lib["ok"]:
            print("C15 regression case %s: schema does not build (C02's subject), skipped" % rid)
            continue
        c = json.load(open(os.path.join(path, "case.json")))
        c["text"] = open(os.path.join(path, "input.p21")).read()
        probs = reoracle(lib, c, root)
        if probs and reoracle(lib, c, root) and reoracle(lib, c, root):
            common.print_violation(PROP, path, "; ".join(probs[:5]))
            rc = 1
        shutil.rmtree(root, ignore_errors=True)
    return rc


def main(tier, seed):
    n_schemas, n_ex = (10, 12) if tier == "quick" else (60, 60)
    cfg = {"max_inst": 6} if tier == "quick" else {"max_inst": 14}
    rc_regr = regression()
    rc = farmcheck.run(PROP, "fault_enumeration", RULE, tier, seed, n_schemas, n_ex,
                         make_strategy=lambda lib: st.tuples(p21gen.populations(lib["schema"], cfg), st.integers(0, 10**6)),
                         case_fn=case,
                         confirm_fn=lambda lib, f, wd: bool(reoracle(lib, f, wd)),
                         replay_files=lambda f: {"input.p21": f["text"], "case.json": json.dumps({"pop": f["pop"], "target": f["target"], "strict": f["strict"], "variant": f.get("variant", "$")})},
                         schema_cfg=c01.SCHEMA_CFG, extra_schemas=[zoo.ZOO], min_cases=200)
    # the regression cases are judged outside the farm: account for them in the evidence file it wrote
    edir = os.environ.get("VERIF_EVIDENCE_DIR") or os.path.join(common.VERIF, "evidence")
    try:
        e = json.load(open(os.path.join(edir, PROP + ".json")))
        e["violations"] = e.get("violations", 0) + rc_regr
        e.setdefault("assumptions", []).append("%d saved regression case(s) (c15.REGRESSION) judged with the same oracle before the generated campaign" % len(REGRESSION))
        json.dump(e, open(os.path.join(edir, PROP + ".json"), "w"), indent=1)
    except (OSError, ValueError):
        pass
    return rc or rc_regr


def replay(path):
    lib, root = farmcheck.replay_lib(path, name="c15-replay")
    if not lib["ok"]:
        common.print_violation(PROP, path, "schema does not build")
        return 1
    c = json.load(open(os.path.join(path, "case.json")))
    c["text"] = open(os.path.join(path, "input.p21")).read()
    probs = reoracle(lib, c, root)
    shutil.rmtree(root, ignore_errors=True)
    if probs:
        common.print_violation(PROP, path, "; ".join(probs[:5]))
        return 1
    print("replay passes")
    return 0
