"""C14 - Appending a file keeps both populations whole and their references separate.
Generated: one schema, populations A, B (and sometimes C) whose id ranges overlap by construction.
Oracle: parse the file written after ReadExchangeFile(A) + AppendExchangeFile(B)[+C]: the first |A| instances equal
model(A) with original ids; the next |B| equal model(B) with every id and every reference shifted by one offset d_B,
inferred from the first appended instance, with d_B > max id before the append and common to all of B; same for C."""
import json
import os
import re
import shutil

from hypothesis import strategies as st

import common
import farm
import farmcheck
import zoo
import p21gen
import p21render
import p21parse
from farm import Found
import c01

PROP = "C14"
RULE = ("Hypothesis draws a schema, then 2-3 conforming populations over it with overlapping id ranges (identical dense ids, "
        "sparse ids below 3000 so that ids straddle multiples of 1000) and layouts; the real library reads the first and "
        "appends the others; the written result is parsed by the independent parser and compared with the models under a "
        "per-file id offset. Non-trivial: an appended population contains a reference whose target id is also live in an "
        "earlier population. Distinct by hash(schema, populations).")

POP_CFG = {"max_inst": 8, "id_modes": ["dense", "dense", "sparse", "shuffled", "k1000"], "max_id": 3000}


def oracle(lib, pops, texts, wd, tag):
    files = []
    for i, t in enumerate(texts):
        f = os.path.join(wd, "%s_%d.p21" % (tag, i))
        with open(f, "w") as fh:
            fh.write(t)
        files.append(f)
    out = os.path.join(wd, tag + ".out")
    if os.path.exists(out):
        os.remove(out)
    r = farm.drv(lib, ["append", out] + files, cwd=wd, timeout=30)
    probs = []
    try:
        if r["rc"] != 0 or r["json"] is None:
            return ["driver died: rc=%s stderr=%s" % (r["rc"], r["err"][-500:])]
        js = r["json"]
        for k, s in enumerate(js["steps"]):
            if s["err"]["sev"] < 2:
                probs.append("step %d (%s) reported severity %d: %s" % (k, "read" if k == 0 else "append", s["err"]["sev"], (s["err"]["user"] + r["err"])[-400:]))
        try:
            parsed = p21parse.parse(open(out, encoding="latin-1").read(), allow_working=False)
        except (OSError, p21parse.P21SyntaxError) as e:
            return probs + ["written file missing or not valid Part 21: %s" % e]
        data = parsed["data"]
        total = sum(len(p["instances"]) for p in pops)
        if len(data) != total:
            probs.append("expected %d instances after append, found %d (ids %s)" % (total, len(data), [d["id"] for d in data]))
            return probs
        pos = 0
        max_before = 0
        for k, pop in enumerate(pops):
            n = len(pop["instances"])
            seg = data[pos:pos + n]
            pos += n
            if n == 0:
                continue
            delta = 0 if k == 0 else seg[0]["id"] - pop["instances"][0]["id"]
            if k > 0 and max_before > 0 and delta <= max_before:
                probs.append("file %d: offset %d is not larger than every earlier id (max %d)" % (k, delta, max_before))
            for e, g in zip(pop["instances"], seg):
                probs += ["file %d: %s" % (k, x) for x in p21gen.cmp_instance(e, g, id_shift=delta)]
            max_before = max([max_before] + [g["id"] for g in seg])
        ids = [d["id"] for d in data]
        if len(set(ids)) != len(ids):
            probs.append("duplicate ids after append: %s" % ids)
        return probs
    finally:
        for f in files + [out]:
            try:
                os.remove(f)
            except OSError:
                pass


_NESTED = re.compile(r"^file \d+: #\d+ [A-Z0-9_]+\[\d+\](\[\d+\]){2,}: expected #(\d+), got \('ref', (\d+)\)$")


def nested_ref_mismatch(p):
    """the mismatch is a reference at aggregate depth >= 2 that kept its original (unshifted) id"""
    return bool(_NESTED.match(p))


def case(ctx, x):
    pops, layouts = x
    tag = ctx.tag()
    ev = ctx.ev
    for p in pops:
        for k, v in p.pop("excluded", {}).items():
            ev.exclude(k, v)
        if p.pop("probe", None):
            ev.bump("probe-population(nested aggregate refs allowed)")
    pops = [p for p in pops]
    if not pops[0]["instances"] or not any(p["instances"] for p in pops[1:]):
        ev.bump("degenerate(empty population)")
    feats = c01.layout_feats(ctx) - {"comment-inner"}
    texts = [p21render.render(p, l, feats=feats) for p, l in zip(pops, layouts)]
    # non-trivial: a reference in an appended population targets an id that is live in an earlier one
    nt = False
    earlier = set()
    classes = ["files:%d" % len(pops)]
    for k, p in enumerate(pops):
        ids = set(i["id"] for i in p["instances"])
        if k > 0:
            refs = set(r for i in p["instances"] for r in p21gen.inst_refs(i))
            if refs & earlier:
                nt = True
            if ids & earlier:
                classes.append("identical-ids")
            if any((i // 1000) != (j // 1000) for i in ids for j in ids):
                classes.append("ids-straddle-1000")
        earlier |= ids
    if nt:
        classes.append("ref-to-id-live-earlier")
    sample = None
    if nt and len(ev.samples) < 2:
        sample = {"schema": ctx.schema_text[:800], "files": [t[:700] for t in texts]}
    ev.case(common.chash([ctx.schema_hash, [[[i["id"], [[pt["ent"], [p21gen.canon_value(v) for v in pt["vals"]]] for pt in i["parts"]]] for i in p["instances"]] for p in pops]]),
            nt, classes=classes, sample=sample)
    probs = oracle(ctx.lib, pops, texts, ctx.wd, tag)
    if probs and "nested-aggregate-ref-not-shifted" in ctx.open_sigs and all(nested_ref_mismatch(p) for p in probs):
        ctx.known("nested-aggregate-ref-not-shifted")
        return
    if probs:
        sig = c01.signature(probs)
        if ctx.known(sig):
            return
        raise Found({"what": "; ".join(probs[:4]), "sig": sig, "pops": pops, "texts": texts})


def strategy(lib, cfg, probe=None):
    pop = p21gen.populations(lib["schema"], cfg, probe)
    return st.integers(2, 3).flatmap(lambda n: st.tuples(st.lists(pop, min_size=n, max_size=n),
                                                         st.lists(st.integers(0, 10**6), min_size=n, max_size=n)))


def main(tier, seed):
    n_schemas, n_ex = (10, 100) if tier == "quick" else (60, 300)
    cfg = dict(POP_CFG)
    if tier != "quick":
        cfg["max_inst"] = 20
    probe = None
    if any(e["sig"] == "nested-aggregate-ref-not-shifted" for e in common.Findings().open_for(PROP)):
        cfg["no_nested_agg_refs"] = True
        probe = {"no_nested_agg_refs": False}
    return farmcheck.run(PROP, "exploration", RULE, tier, seed, n_schemas, n_ex,
                         make_strategy=lambda lib: strategy(lib, cfg, probe), case_fn=case,
                         confirm_fn=lambda lib, f, wd: bool(oracle(lib, f["pops"], f["texts"], wd, "confirm")),
                         replay_files=lambda f: dict([("pops.json", json.dumps(f["pops"]))] + [("input_%d.p21" % i, t) for i, t in enumerate(f["texts"])]),
                         schema_cfg=c01.SCHEMA_CFG, extra_schemas=[zoo.ZOO])


def replay(path):
    lib, root = farmcheck.replay_lib(path, name="c14-replay")
    if not lib["ok"]:
        common.print_violation(PROP, path, "schema does not build")
        return 1
    pops = json.load(open(os.path.join(path, "pops.json")))
    texts = [open(os.path.join(path, "input_%d.p21" % i)).read() for i in range(len(pops))]
    probs = oracle(lib, pops, texts, root, "replay")
    shutil.rmtree(root, ignore_errors=True)
    if probs:
        common.print_violation(PROP, path, "; ".join(probs[:5]))
        return 1
    print("replay passes")
    return 0
