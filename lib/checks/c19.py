"""C19 - the Python runtime's ARRAY / LIST / BAG / SET enforce EXPRESS aggregate semantics.

Engine: a Hypothesis RuleBasedStateMachine drives one aggregate object of the exp2python runtime
(`stepcode.AggregationDataTypes`) and a reference model (dict / list / set) through the same
operation sequence; plus an exhaustive enumeration of all short sequences over a reduced alphabet.

Oracle per step (everything is encoded from the property statement, nothing is read back from the
runtime's private state):
  * the operation raises  <=>  the model says it is illegal (any exception type counts as a refusal);
  * a refused operation leaves every observable unchanged;
  * after every step the full set of public queries (get_size, get_hiindex, get_loindex, get_hibound,
    get_lobound, bound_1, bound_2, get_value_unique and a read of every slot the model knows about)
    agrees with the model.  The `q` operation repeats the queries through stepcode.Builtin
    (SIZEOF, HIINDEX, LOINDEX, HIBOUND, LOBOUND, VALUE_UNIQUE).

Calibration (what is deliberately NOT asserted, see `Model.classify`):
  * LIST: this runtime indexes a LIST by bound_1..bound_2 while ISO 10303-11 indexes 1..size.  Only
    indices whose legality is the same under both readings are ever issued: i in [max(1,b1), b2] is
    usable, i < min(1,b1) or i > b2 must be refused; the slots in between are never touched.
  * reading a LIST slot inside the usable range that was never assigned: either outcome.
  * adding to a SET a (well typed) value it already holds: either outcome, but the size must not grow.
  * element types: only pairs on which EXPRESS and "instance of the declared base type" agree are
    issued (never INTEGER into REAL, never a plain STRING into a defined type of STRING, never raw
    Python values, never None).
  * VALUE_UNIQUE with both duplicates and unset elements: FALSE or UNKNOWN (ISO says FALSE, the
    runtime's doc string says UNKNOWN); only TRUE is wrong.
  * LIST VALUE_UNIQUE is exact only when every slot from bound_1 >= 1 up to the highest slot is filled
    (the runtime reports UNKNOWN for a pre-allocated LIST with holes; whether a LIST can have holes at
    all is the disputed reading).
"""
import itertools
import json
import os
import sys
import time
import types

import common

PROP = "C19"
PYRT = os.environ.get("VERIF_PYRUNTIME") or os.path.join(common.REPO, "src", "exp2python", "python")

RULE = ("a case is one executed operation sequence on one freshly constructed aggregate; it is non-trivial iff "
        "the construction was accepted and the sequence contains >=1 accepted state-changing set/add, "
        ">=1 later explicit read or builtin query compared with the model, and >=1 operation that the "
        "model calls illegal and the runtime refused (every step is additionally followed by the full "
        "query sweep)")

# ------------------------------------------------------------------------------------------------
# runtime binding

_RT = None


def rt():
    """Import the runtime under test once (VERIF_PYRUNTIME overrides /repo/src/exp2python/python)."""
    global _RT
    if _RT is not None:
        return _RT
    if "stepcode" in sys.modules:
        raise RuntimeError("stepcode already imported from elsewhere")
    sys.path.insert(0, PYRT)
    from stepcode import AggregationDataTypes as A
    from stepcode import Builtin as B
    from stepcode import SimpleDataTypes as S
    from stepcode.ConstructedDataTypes import ENUMERATION, SELECT
    if not os.path.abspath(A.__file__).startswith(os.path.abspath(PYRT) + os.sep):
        raise RuntimeError("stepcode imported from %s, expected below %s" % (A.__file__, PYRT))
    r = types.SimpleNamespace()
    r.file = os.path.abspath(A.__file__)
    r.A, r.B, r.S = A, B, S
    r.kinds = {"ARRAY": A.ARRAY, "LIST": A.LIST, "BAG": A.BAG, "SET": A.SET}
    r.Unknown = S.Unknown

    # what exp2python generates for  TYPE label = STRING; TYPE count = INTEGER;  (class x(<base>): pass)
    class label(S.STRING):
        pass

    class count(S.INTEGER):
        pass
    colour = ENUMERATION("colour", "red green blue")
    shape = ENUMERATION("shape", "round square")
    sel = SELECT(S.INTEGER, S.STRING)
    r.types = {"INTEGER": S.INTEGER, "REAL": S.REAL, "NUMBER": S.NUMBER, "STRING": S.STRING,
               "BOOLEAN": S.BOOLEAN, "BINARY": S.BINARY, "label": label, "count": count,
               "colour": colour, "shape": shape, "sel": sel}
    r.scope = types.SimpleNamespace(**r.types)        # `scope = schema_scope` of generated modules
    _RT = r
    return r


def mkval(v):
    """Fresh runtime object for a JSON value [type name, payload]."""
    t, p = v
    ty = rt().types[t]
    if t in ("colour", "shape"):
        return ty[p]
    return ty(p)


# ------------------------------------------------------------------------------------------------
# type universe of the model

BASES = ["INTEGER", "REAL", "NUMBER", "STRING", "BOOLEAN", "BINARY", "label", "count", "colour", "sel"]
# value type -> base types it is an element of (EXPRESS specialisation == Python subclassing here)
CONFORMS = {
    "INTEGER": {"INTEGER", "NUMBER", "sel"},
    "count": {"count", "INTEGER", "NUMBER", "sel"},
    "REAL": {"REAL", "NUMBER"},
    "STRING": {"STRING", "sel"},
    "label": {"label", "STRING", "sel"},
    "BOOLEAN": {"BOOLEAN"},
    "BINARY": {"BINARY"},
    "colour": {"colour"},
    "shape": set(),
}
# (value type, base): EXPRESS assignment compatibility and `isinstance` disagree or are debatable -> never issued
DOUBT = {("INTEGER", "REAL"), ("count", "REAL"), ("STRING", "label"), ("INTEGER", "count")}
POOL = {
    "INTEGER": list(range(13)),
    "count": list(range(5)),
    "REAL": [0.5 + k for k in range(13)] + [1.0, 2.0],
    "STRING": list("abcdefghijklm") + [""],
    "label": ["a", "b", "x", "y"],
    "BOOLEAN": [True, False],
    "BINARY": ["0", "1", "10", "101", "0101", "11"],
    "colour": ["red", "green", "blue"],
    "shape": ["round", "square"],
}
FAMILY = {"INTEGER": "n", "count": "n", "REAL": "n", "STRING": "s", "label": "s", "BOOLEAN": "b",
          "BINARY": "x", "colour": "c", "shape": "h"}


def vkey(v):
    """Equality class of a value (EXPRESS value equality on simple values)."""
    t, p = v
    f = FAMILY[t]
    return (f, float(p)) if f == "n" else (f, p)


def right_values(base):
    out = []
    for t in ("INTEGER", "REAL", "STRING", "count", "label", "BOOLEAN", "BINARY", "colour"):
        if base in CONFORMS[t]:
            for p in POOL[t]:
                if base == "NUMBER" and t == "REAL" and float(p).is_integer():
                    continue            # keep 1 vs 1.0 out of well-typed NUMBER aggregates (doubt)
                out.append([t, p])
    # interleave types so that a small prefix of the pool already mixes them
    out.sort(key=lambda v: (POOL[v[0]].index(v[1]), v[0]))
    return out


def wrong_values(base):
    out = []
    for t in ("STRING", "REAL", "INTEGER", "BOOLEAN", "label", "count", "BINARY", "colour", "shape"):
        if base not in CONFORMS[t] and (t, base) not in DOUBT:
            for p in POOL[t][:3] + ([1.0] if t == "REAL" else []):
                out.append([t, p])
    out.sort(key=lambda v: (POOL[v[0]].index(v[1]), v[0]))
    return out


# ------------------------------------------------------------------------------------------------
# reference model

class Unsound(Exception):
    """An operation outside the calibrated alphabet was requested (machinery error, never a verdict)."""


def ctor_legal(kind, b1, b2):
    if kind == "ARRAY":
        return b2 is not None and b1 <= b2
    return b1 >= 0 and (b2 is None or b1 <= b2)


class Model:
    def __init__(self, cfg):
        self.kind = cfg["kind"]
        self.b1, self.b2 = cfg["b1"], cfg["b2"]
        self.unique = bool(cfg.get("unique"))
        self.optional = bool(cfg.get("optional"))
        self.base = cfg["base"]
        self.indexed = self.kind in ("ARRAY", "LIST")
        self.slots = {}      # ARRAY / LIST: index -> value
        self.items = []      # BAG / SET: values in insertion order
        self.hw = None       # LIST: highest index ever attempted (only refines exclusion keys)
        self.tag = self.kind + ("-unbounded" if self.b2 is None else "")

    # -- index zones -------------------------------------------------------------------------
    def lo_usable(self):
        return self.b1 if self.kind == "ARRAY" else max(1, self.b1)

    def lo_illegal(self):
        """highest index that must be refused on the low side"""
        return self.b1 - 1 if self.kind == "ARRAY" else min(1, self.b1) - 1

    def zone(self, i):
        if i <= self.lo_illegal():
            return "index-low"
        if self.b2 is not None and i > self.b2:
            return "index-high"
        if i >= self.lo_usable():
            return "in"
        return "disputed"

    def size(self):
        if self.kind == "ARRAY":
            return self.b2 - self.b1 + 1
        return len(self.slots) if self.kind == "LIST" else len(self.items)

    def conforms(self, v):
        t = v[0]
        if (t, self.base) in DOUBT:
            raise Unsound("value type %s into base %s is not calibrated" % (t, self.base))
        return self.base in CONFORMS[t]

    # -- classification ------------------------------------------------------------------------
    def classify(self, op):
        """-> (verdict, reason, refinement for signature, refinement for exclusion key)
        verdict: 'legal' | 'illegal' | 'either'"""
        o = op["op"]
        if o == "q":
            return ("legal", "query", "", "")
        if o == "ctor":
            ok = ctor_legal(op["kind"], op["b1"], op["b2"])
            return ("legal" if ok else "illegal", "bounds-" + op["kind"], "", "")
        if o in ("set", "get"):
            if not self.indexed:
                raise Unsound("%s on %s" % (o, self.kind))
            z = self.zone(op["i"])
            if z == "disputed":
                raise Unsound("index %d is in the disputed LIST zone" % op["i"])
            if z != "in":
                return ("illegal", z, "", "")
        if o == "get":
            i = op["i"]
            if i in self.slots:
                return ("legal", "read-set", "", "")
            if self.kind == "ARRAY":
                return ("legal", "read-unset-optional", "", "") if self.optional else ("illegal", "unset", "", "")
            return ("either", "list-read-unset", "", "")
        if o == "set":
            i, v = op["i"], op["v"]
            if not self.conforms(v):
                return ("illegal", "type", "", "")
            k = vkey(v)
            if self.unique and any(vkey(w) == k for j, w in self.slots.items() if j != i):
                return ("illegal", "dup", "", "")
            rs = []
            if self.unique:
                rs.append("same-value" if (i in self.slots and vkey(self.slots[i]) == k) else "fresh")
            if self.kind == "LIST" and self.b2 is None:
                hw = self.b1 if self.hw is None else max(self.hw, self.b1)
                rs.append("inside" if i <= hw else "beyond")
            return ("legal", "legal", "/".join(rs), "")
        if o == "add":
            if self.indexed:
                raise Unsound("add on %s" % self.kind)
            v = op["v"]
            rk = "b1=%d,room=%s" % (self.b1, "inf" if self.b2 is None else self.b2 - self.size())
            if not self.conforms(v):
                return ("illegal", "type", "", rk)
            if self.kind == "SET" and any(vkey(w) == vkey(v) for w in self.items):
                return ("either", "set-readd", "", rk)
            if self.b2 is not None and self.size() >= self.b2:
                return ("illegal", "full", "", rk)
            return ("legal", "legal", "", rk)
        raise Unsound("unknown op %r" % (op,))

    def apply(self, op):
        if op["op"] == "set":
            self.slots[op["i"]] = op["v"]
        elif op["op"] == "add":
            if not (self.kind == "SET" and any(vkey(w) == vkey(op["v"]) for w in self.items)):
                self.items.append(op["v"])

    def note_attempt(self, op):
        if op["op"] == "set" and self.kind == "LIST" and self.zone(op["i"]) == "in":
            self.hw = op["i"] if self.hw is None else max(self.hw, op["i"])

    # -- expected observations --------------------------------------------------------------------
    def stored(self):
        return list(self.slots.values()) if self.indexed else list(self.items)

    def expected_unique(self):
        """set of acceptable answers out of 'T','F','U'"""
        ks = [vkey(v) for v in self.stored()]
        dup = len(set(ks)) < len(ks)
        if self.kind == "ARRAY":
            unset = len(self.slots) < self.size()
            if not unset:
                return {"F"} if dup else {"T"}
            return {"F", "U"} if dup else {"U"}
        if self.kind == "LIST":
            top = max(self.slots) if self.slots else None
            full = self.b1 >= 1 and top is not None and (
                all(j in self.slots for j in range(self.b1, (self.b2 if self.b2 is not None else top) + 1)))
            if full:
                return {"F"} if dup else {"T"}
            return {"F", "U"} if dup else {"T", "U"}
        if self.kind == "BAG":
            return {"F"} if dup else {"T"}
        return {"T"}

    def expected_scalars(self):
        n = self.size()
        arr = self.kind == "ARRAY"
        return {"size": n, "hiindex": self.b2 if arr else n, "loindex": self.b1 if arr else 1,
                "hibound": self.b2, "lobound": self.b1, "bound_1": self.b1, "bound_2": self.b2}

    def read_indices(self):
        if self.kind == "ARRAY":
            return list(range(self.b1, self.b2 + 1))
        if self.kind == "LIST":
            return sorted(self.slots)
        return []


# ------------------------------------------------------------------------------------------------
# execution of one sequence against runtime + model

class Failure(Exception):
    def __init__(self, sig, detail, key=None, verdict=None):
        Exception.__init__(self, sig)
        self.sig, self.detail, self.key, self.verdict = sig, detail, key, verdict
        self.cfg = self.ops = None


def exc_tag(e):
    return "%s:%s" % (type(e).__name__, " ".join(str(e).split()[:4]))


def norm_scalar(x):
    if x is None:
        return None
    if isinstance(x, int) and not isinstance(x, bool):
        return int(x)
    return "?%s:%r" % (type(x).__name__, x)


def norm_logical(x):
    if x is True:
        return "T"
    if x is False:
        return "F"
    if x is rt().Unknown:
        return "U"
    return "?%s:%r" % (type(x).__name__, x)


def norm_value(x):
    """runtime element -> JSON value [type, payload] (or a marker that matches nothing)"""
    r = rt()
    if x is None:
        return None
    for name in ("label", "count", "INTEGER", "REAL", "STRING", "BINARY", "colour", "shape"):
        ty = r.types[name]
        if type(x) is ty or (name in ("colour", "shape") and isinstance(x, ty)):
            if name in ("colour", "shape"):
                return [name, x.name]
            if name in ("INTEGER", "count"):
                return [name, int(x)]
            if name == "REAL":
                return [name, float(x)]
            return [name, str(x)]
    if type(x) is bool:
        return ["BOOLEAN", x]
    return ["?" + type(x).__name__, repr(x)]


def show_value(v):
    return "%s(%r)" % (v[0], v[1]) if v is not None else "?"


def show_cfg(cfg):
    s = "%s[%s:%s] OF " % (cfg["kind"], cfg["b1"], "?" if cfg["b2"] is None else cfg["b2"])
    if cfg.get("optional"):
        s += "OPTIONAL "
    if cfg.get("unique"):
        s += "UNIQUE "
    return s + ("'%s'@scope" % cfg["base"] if cfg.get("byname") else cfg["base"])


def show_op(op):
    o = op["op"]
    if o == "set":
        return "a[%d]=%s" % (op["i"], show_value(op["v"]))
    if o == "get":
        return "a[%d]" % op["i"]
    if o == "add":
        return "add(%s)" % show_value(op["v"])
    if o == "ctor":
        return "%s(%s,%s)" % (op["kind"], op["b1"], op["b2"])
    return "queries"


class Run:
    """One aggregate object + model.  `step` raises Failure on the first disagreement."""

    def __init__(self, cfg):
        self.cfg = dict(cfg)
        self.model = Model(cfg)
        self.ops = []            # concrete operations issued so far (JSON)
        self.trace = []          # (op text, outcome text)
        self.obj = None
        self.snap = None
        self.n_acc_mut = 0
        self.n_rej = 0
        self.n_check_after_mut = 0
        self.opclasses = []
        self.dead = False

    # -- construction ---------------------------------------------------------------------------
    def _construct(self, kind, b1, b2, base, byname, unique=False, optional=False):
        r = rt()
        bt = base if byname else r.types[base]
        scope = r.scope if byname else None
        cls = r.kinds[kind]
        if kind == "ARRAY":
            return cls(b1, b2, bt, UNIQUE=unique, OPTIONAL=optional, scope=scope)
        if kind == "LIST":
            return cls(b1, b2, bt, UNIQUE=unique, scope=scope)
        return cls(b1, b2, bt, scope=scope)

    def construct(self):
        c = self.cfg
        if not ctor_legal(c["kind"], c["b1"], c["b2"]):
            raise Unsound("main aggregate must be legal")
        try:
            self.obj = self._construct(c["kind"], c["b1"], c["b2"], c["base"], c.get("byname"),
                                       c.get("unique", False), c.get("optional", False))
        except Exception as e:
            self.fail("%s|new|unexpected-reject|legal|%s" % (self.model.tag, exc_tag(e)),
                      "constructing %s raised %r" % (show_cfg(c), e), None, "unexpected-reject")
        self.snap = self.sweep("method")

    # -- helpers ----------------------------------------------------------------------------------
    def fail(self, sig, detail, key, verdict):
        f = Failure(sig, detail, key, verdict)
        f.cfg, f.ops = dict(self.cfg), [dict(o) for o in self.ops]
        raise f

    def observe(self, route):
        """all public observations, normalised; queries never legitimately raise"""
        a, m, B = self.obj, self.model, rt().B
        obs = {}
        if route == "method":
            q = [("size", a.get_size), ("hiindex", a.get_hiindex), ("loindex", a.get_loindex),
                 ("hibound", a.get_hibound), ("lobound", a.get_lobound),
                 ("bound_1", a.bound_1), ("bound_2", a.bound_2)]
            u = a.get_value_unique
        else:
            q = [("size", lambda: B.SIZEOF(a)), ("hiindex", lambda: B.HIINDEX(a)),
                 ("loindex", lambda: B.LOINDEX(a)), ("hibound", lambda: B.HIBOUND(a)),
                 ("lobound", lambda: B.LOBOUND(a))]

            def u():
                return B.VALUE_UNIQUE(a)
        for name, f in q:
            try:
                obs[name] = norm_scalar(f())
            except Exception as e:
                obs[name] = "!" + exc_tag(e)
        try:
            obs["unique"] = norm_logical(u())
        except Exception as e:
            obs["unique"] = "!" + exc_tag(e)
        for i in m.read_indices():
            try:
                obs["[%d]" % i] = norm_value(a[i])
            except Exception as e:
                obs["[%d]" % i] = "!" + type(e).__name__
        return obs

    def sweep(self, route, after=""):
        return self.check(self.observe(route), after)

    def check(self, obs, after=""):
        m = self.model
        exp = m.expected_scalars()
        for name, want in exp.items():
            if name in obs and obs[name] != want:
                self.fail("%s|query|mismatch|%s" % (m.tag, name),
                          "%s%s reports %r, model %r" % (after, name, obs[name], want), None, "mismatch")
        if obs["unique"] not in m.expected_unique():
            self.fail("%s|query|mismatch|value_unique/%s-not-in-%s" % (
                m.tag, obs["unique"][:1], "".join(sorted(m.expected_unique()))),
                "%svalue_unique reports %r, model allows %s (stored %s)" % (
                    after, obs["unique"], sorted(m.expected_unique()), [show_value(v) for v in m.stored()]),
                None, "mismatch")
        for i in m.read_indices():
            got = obs["[%d]" % i]
            if i in m.slots:
                if got != m.slots[i]:
                    self.fail("%s|read|mismatch|set-slot" % m.tag,
                              "%sa[%d] gives %r, model holds %s" % (after, i, got, show_value(m.slots[i])),
                              None, "mismatch")
            elif m.optional:
                if got is not None:
                    self.fail("%s|read|mismatch|unset-optional" % m.tag,
                              "%sunset OPTIONAL slot a[%d] gives %r" % (after, i, got), None, "mismatch")
            else:
                if not (isinstance(got, str) and got.startswith("!")):
                    self.fail("%s|read|unexpected-accept|unset" % m.tag,
                              "%sunset non-OPTIONAL slot a[%d] is readable: %r" % (after, i, got),
                              None, "unexpected-accept")
        return obs

    # -- one operation ----------------------------------------------------------------------------
    def tag_of(self, op):
        if op["op"] == "ctor":      # a side construction: the signature names the constructed kind, not the host
            return op["kind"] + ("-unbounded" if op["b2"] is None else "")
        return self.model.tag

    def key_of(self, op):
        verdict, reason, rs, rk = self.model.classify(op)
        return (self.tag_of(op), op["op"], verdict, reason, rs, rk)

    def step(self, op):
        m = self.model
        verdict, reason, rs, rk = m.classify(op)
        tag = self.tag_of(op)
        key = (tag, op["op"], verdict, reason, rs, rk)
        self.ops.append(op)
        o = op["op"]
        after = "after %s: " % show_op(op)
        raised, ret = None, None
        try:
            if o == "set":
                self.obj[op["i"]] = mkval(op["v"])
            elif o == "get":
                ret = self.obj[op["i"]]
            elif o == "add":
                ret = self.obj.add(mkval(op["v"]))
            elif o == "ctor":
                self._construct(op["kind"], op["b1"], op["b2"], m.base, self.cfg.get("byname"))
            elif o == "q":
                pass
        except Exception as e:      # any exception type is a refusal
            raised = e
        m.note_attempt(op)
        reason_s = reason + ("/" + rs if rs else "")
        outcome = "refused(%s)" % type(raised).__name__ if raised is not None else "ok"
        self.trace.append((show_op(op), "%s [model: %s %s]" % (outcome, verdict, reason_s)))
        self.opclasses.append("op:%s:%s:%s" % (o, "refused" if raised is not None else "accepted", reason))
        known_reject = False
        if verdict == "legal" and raised is not None:
            try:
                self.fail("%s|%s|unexpected-reject|%s|%s" % (tag, o, reason_s, exc_tag(raised)),
                          "%s is legal (%s) on %s but raised %r" % (show_op(op), reason_s, show_cfg(self.cfg), raised),
                          key, "unexpected-reject")
            except Failure as f:
                if not self.tolerate(f):
                    raise
                known_reject = True
        elif verdict == "illegal" and raised is None:
            self.fail("%s|%s|unexpected-accept|%s" % (tag, o, reason_s),
                      "%s is illegal (%s) on %s but was accepted" % (show_op(op), reason_s, show_cfg(self.cfg)),
                      key, "unexpected-accept")
        accepted = raised is None
        if accepted and o == "get" and verdict == "legal":
            want = m.slots.get(op["i"])
            if norm_value(ret) != want:
                self.fail("%s|read|mismatch|%s" % (m.tag, reason),
                          "%s returned %r, model holds %s" % (show_op(op), ret, show_value(want)), key, "mismatch")
        mutated = False
        if accepted and verdict in ("legal",) and o in ("set", "add"):
            m.apply(op)
            mutated = True
            self.n_acc_mut += 1
        if not accepted and not known_reject:
            self.n_rej += 1 if verdict == "illegal" else 0
        if o in ("get", "q") and accepted and self.n_acc_mut:
            self.n_check_after_mut += 1
        # state comparison: first "a refused / non-mutating operation changes nothing", then the model
        obs = self.observe("method")
        if not mutated and obs != self.snap:
            diff = sorted(k for k in set(obs) | set(self.snap) if obs.get(k) != self.snap.get(k))
            self.fail("%s|%s|state-changed-by-%s-op|%s|%s" % (
                m.tag, o, "refused" if not accepted else "non-mutating", reason_s, ",".join(
                    d if not d.startswith("[") else "[i]" for d in diff)),
                "%s (%s) changed observables %s: before %s, after %s" % (
                    show_op(op), outcome, diff, {d: self.snap.get(d) for d in diff}, {d: obs.get(d) for d in diff}),
                key, "state-changed")
        self.check(obs, after)
        if o == "q":
            self.check(self.observe("builtin"), "via Builtin: ")
        self.snap = obs

    # -- known findings -----------------------------------------------------------------------------
    ctx = None

    def tolerate(self, f):
        """A failure whose signature is a listed open finding: record it, exclude the shape from now on.
        Only an unexpected refusal lets this run go on (model and runtime are still in step)."""
        c = Run.ctx
        if c is None:
            return False
        e = c.findings.match(PROP, f.sig)
        if e is None:
            return False
        c.note_known(e, f)
        return f.verdict == "unexpected-reject"

    def summary(self, limit=12):
        t = ["%s -> %s" % x for x in self.trace[:limit]]
        if len(self.trace) > limit:
            t.append("... (%d more)" % (len(self.trace) - limit))
        return show_cfg(self.cfg) + " :: " + " ; ".join(t)


class Ctx:
    """per-process bookkeeping: evidence, known findings, exclusion keys"""

    def __init__(self, tier, seed):
        self.ev = common.Evidence(PROP, "exploration", tier, seed, RULE)
        self.findings = common.Findings(os.environ.get("VERIF_FINDINGS"))
        self.excluded_keys = {}
        self.known_seen = {}       # id -> entry
        self.n_enum_nontrivial = 0
        self.space = None
        self.tier = tier

    def in_enum_space(self, cfg, ops):
        if self.space is None:
            self.space = {}
            for c, alpha, length in enum_plan(self.tier if self.tier in SIZES else "quick"):
                self.space[json.dumps(c, sort_keys=True)] = (length, set(json.dumps(o, sort_keys=True) for o in alpha))
        e = self.space.get(json.dumps(cfg, sort_keys=True))
        return bool(e) and len(ops) == e[0] and all(json.dumps(o, sort_keys=True) in e[1] for o in ops)

    def note_known(self, entry, f):
        self.ev.known_hit(entry["id"])
        self.known_seen.setdefault(entry["id"], entry)
        if f.key is not None:
            self.excluded_keys.setdefault(f.key, entry["id"])

    def skip(self, key):
        fid = self.excluded_keys.get(key)
        if fid is not None:
            self.ev.exclude("%s: %s %s %s" % (fid, key[0], key[1], "/".join(x for x in key[3:] if x)))
            return True
        return False

    def record(self, run, planned=None):
        """planned: the enumerated operation list when the run comes from the exhaustive part"""
        cfg = run.cfg
        nontrivial = (run.obj is not None and run.n_acc_mut >= 1 and run.n_check_after_mut >= 1
                      and run.n_rej >= 1)
        classes = ["kind:" + cfg["kind"], "bound:" + ("unbounded" if cfg["b2"] is None else "bounded"),
                   "base:" + cfg["base"], "byname:%d" % bool(cfg.get("byname")),
                   "steps:%s" % (len(run.ops) if len(run.ops) < 10 else "%d0+" % (len(run.ops) // 10)),
                   "nontrivial:%d" % nontrivial]
        if cfg["kind"] in ("ARRAY", "LIST"):
            classes.append("unique:%d" % bool(cfg.get("unique")))
        if cfg["kind"] == "ARRAY":
            classes.append("optional:%d" % bool(cfg.get("optional")))
        if cfg["b2"] is not None:
            classes.append("span:%d" % (cfg["b2"] - cfg["b1"]))
        if planned is not None and len(run.ops) == len(planned) and hasattr(self.ev, "nontrivial_counted"):
            # enumerated sequences are pairwise distinct by construction: counted, not hashed
            self.ev.evaluations += 1
            for c in classes:
                self.ev.bump(c)
            if nontrivial:
                self.ev.nontrivial_counted += 1
                self.n_enum_nontrivial += 1
                if self.n_enum_nontrivial % 997 == 1 and len(self.ev.samples) < 3:
                    self.ev.samples.append(run.summary())
        else:
            if planned is None and nontrivial and self.in_enum_space(cfg, run.ops):
                nontrivial = False      # already counted by the enumeration
                self.ev.bump("random-run-inside-enumerated-space")
            self.ev.case([cfg, run.ops], nontrivial, classes=classes, sample=run.summary() if nontrivial else None)
        for c in run.opclasses:
            self.ev.bump(c)
        self.ev.bump("steps_total", len(run.ops))


def handle_known(ctx, run, f):
    """Failure raised out of Run.step/construct: True if it is a listed finding (run is then dead)."""
    e = ctx.findings.match(PROP, f.sig)
    if e is None:
        return False
    ctx.note_known(e, f)
    run.dead = True
    return True


def execute(cfg, ops, ctx=None):
    """Plain (Hypothesis-free) execution.  Returns (run, failure-or-None)."""
    run = Run(cfg)
    Run.ctx = ctx
    try:
        run.construct()
        for op in ops:
            if ctx is not None and ctx.skip(run.key_of(op)):
                continue
            run.step(dict(op))
    except Failure as f:
        if ctx is not None and handle_known(ctx, run, f):
            return run, None
        return run, f
    return run, None


# ------------------------------------------------------------------------------------------------
# Hypothesis state machine

def build_machine(ctx, holder):
    import hypothesis.strategies as st
    from hypothesis.stateful import RuleBasedStateMachine, initialize, precondition, rule

    @st.composite
    def configs(draw):
        kind = draw(st.sampled_from(["ARRAY", "LIST", "BAG", "SET"]))
        b1 = draw(st.integers(-3, 5) if kind == "ARRAY" else st.integers(0, 5))
        span = draw(st.integers(0, 6) if kind == "ARRAY" else st.one_of(st.integers(0, 6), st.integers(0, 6), st.none()))
        cfg = {"kind": kind, "b1": b1, "b2": None if span is None else b1 + span,
               "base": draw(st.sampled_from(BASES)), "byname": draw(st.booleans())}
        if kind in ("ARRAY", "LIST"):
            cfg["unique"] = draw(st.booleans())
        if kind == "ARRAY":
            cfg["optional"] = draw(st.booleans())
        return cfg

    ICLS = st.sampled_from(["in", "in", "in", "in", "lo", "hi", "known"])
    VCLS = st.sampled_from(["right", "right", "right", "right", "wrong", "dup"])

    class AggMachine(RuleBasedStateMachine):
        def __init__(self):
            RuleBasedStateMachine.__init__(self)
            self.run = None

        # ---- argument resolution (abstract selector -> concrete op, always inside the calibrated alphabet)
        def index(self, icls, ik):
            m = self.run.model
            lo = m.lo_usable()
            if icls == "lo":
                return m.lo_illegal() - (ik % 3)
            if icls == "known" and m.slots:
                ks = sorted(m.slots)
                return ks[ik % len(ks)]
            if m.b2 is None:
                return lo + 10 + ik if icls == "hi" else lo + (ik % 8)
            if icls == "hi" or m.b2 < lo:
                return m.b2 + 1 + (ik % 3)
            return lo + ik % (m.b2 - lo + 1)

        def value(self, vcls, vk):
            m = self.run.model
            if vcls == "dup" and m.stored():
                s = m.stored()
                return list(s[vk % len(s)])
            if vcls == "wrong":
                w = wrong_values(m.base)
                return list(w[vk % len(w)])
            r = right_values(m.base)
            width = 8 if m.b2 is None else (m.b2 if m.kind != "ARRAY" else m.b2 - m.b1 + 1) + 3
            return list(r[vk % min(len(r), width)])

        def do(self, op):
            run = self.run
            if run is None or run.dead:
                return
            if ctx.skip(run.key_of(op)):
                return
            try:
                run.step(op)
            except Failure as f:
                if handle_known(ctx, run, f):
                    return
                holder["failure"] = f
                raise

        @initialize(cfg=configs())
        def new(self, cfg):
            self.run = Run(cfg)
            Run.ctx = ctx
            try:
                self.run.construct()
            except Failure as f:
                if handle_known(ctx, self.run, f):
                    return
                holder["failure"] = f
                raise

        @precondition(lambda self: self.run is not None and self.run.model.indexed)
        @rule(icls=ICLS, ik=st.integers(0, 11), vcls=VCLS, vk=st.integers(0, 40))
        def set_item(self, icls, ik, vcls, vk):
            self.do({"op": "set", "i": self.index(icls, ik), "v": self.value(vcls, vk)})

        @precondition(lambda self: self.run is not None and self.run.model.indexed)
        @rule(icls=ICLS, ik=st.integers(0, 11))
        def get_item(self, icls, ik):
            self.do({"op": "get", "i": self.index(icls, ik)})

        @precondition(lambda self: self.run is not None and not self.run.model.indexed)
        @rule(vcls=VCLS, vk=st.integers(0, 40))
        def add(self, vcls, vk):
            self.do({"op": "add", "v": self.value(vcls, vk)})

        @precondition(lambda self: self.run is not None)
        @rule()
        def queries(self):
            self.do({"op": "q"})

        @precondition(lambda self: self.run is not None)
        @rule(kind=st.sampled_from(["ARRAY", "LIST", "BAG", "SET"]), b1=st.integers(-3, 6),
              d=st.one_of(st.integers(-3, 6), st.none()))
        def ctor(self, kind, b1, d):
            self.do({"op": "ctor", "kind": kind, "b1": b1, "b2": None if d is None else b1 + d})

        def teardown(self):
            if self.run is not None:
                ctx.record(self.run)

    return AggMachine


def shard_random(arg):
    tier, seed, k, n_examples, steps = arg
    t0 = time.process_time()
    import hypothesis
    from hypothesis import HealthCheck, Verbosity, settings
    from hypothesis.stateful import run_state_machine_as_test
    rt()
    ctx = Ctx(tier, seed)
    holder = {}
    M = build_machine(ctx, holder)
    M = hypothesis.seed(common.sub_seed(seed, "shard", tier, k))(M)
    s = settings(max_examples=n_examples, stateful_step_count=steps, database=None, deadline=None,
                 suppress_health_check=list(HealthCheck), verbosity=Verbosity.quiet,
                 report_multiple_bugs=False, print_blob=False,
                 phases=(hypothesis.Phase.generate, hypothesis.Phase.shrink))
    failure = None
    try:
        run_state_machine_as_test(M, settings=s)
    except Failure as f:
        failure = f
    except BaseException as e:
        f = holder.get("failure")
        if f is None or not isinstance(e, Exception):
            raise
        failure = f
    ctx.ev.extra["cpu_s_random"] = round(time.process_time() - t0, 2)
    return result_of(ctx, failure, "random shard %d" % k)


def result_of(ctx, failure, where):
    out = {"partial": ctx.ev.partial(), "known": ctx.known_seen, "failure": None, "where": where,
           "runtime": rt().file}
    if failure is not None:
        out["failure"] = {"cfg": failure.cfg, "ops": failure.ops, "sig": failure.sig, "detail": failure.detail}
    return out


# ------------------------------------------------------------------------------------------------
# exhaustive enumeration of short sequences over a reduced alphabet

def enum_plan(tier):
    """-> list of (cfg, alphabet, length).  Base type INTEGER (by name for every other configuration);
    values: two/three well typed, one REAL equal to a stored INTEGER, one STRING."""
    thorough = tier == "thorough"
    I1, I2, I3 = ["INTEGER", 1], ["INTEGER", 2], ["INTEGER", 3]
    R1, SA = ["REAL", 1.0], ["STRING", "a"]
    plan = []
    n = 0

    def cfg_of(kind, b1, b2, **kw):
        nonlocal n
        n += 1
        c = {"kind": kind, "b1": b1, "b2": b2, "base": "INTEGER", "byname": bool(n % 2)}
        c.update(kw)
        return c
    # ARRAY
    bounds = [(-1, 0), (1, 2), (0, 0), (2, 3)] + ([(0, 2)] if thorough else [])
    for (b1, b2) in bounds:
        for u in (False, True):
            for o in (False, True):
                idx = list(range(b1 - 1, b2 + 2))
                vals = [I1, I2, SA] + ([R1] if not thorough or b2 - b1 < 2 else [])
                alpha = [{"op": "set", "i": i, "v": v} for i in idx for v in vals]
                alpha += [{"op": "get", "i": i} for i in idx] + [{"op": "q"}]
                plan.append((cfg_of("ARRAY", b1, b2, unique=u, optional=o), alpha, 4 if thorough and b2 - b1 < 2 else 3))
    # LIST (only indices on which both readings agree)
    for (b1, b2) in [(0, 1), (0, 2), (1, 2), (2, 3), (0, None), (1, None), (2, None)]:
        for u in (False, True):
            m = Model({"kind": "LIST", "b1": b1, "b2": b2, "base": "INTEGER"})
            lo = m.lo_usable()
            idx = [m.lo_illegal()] + (list(range(lo, b2 + 2)) if b2 is not None else [lo, lo + 1, lo + 3])
            vals = [I1, I2, SA]
            alpha = [{"op": "set", "i": i, "v": v} for i in idx for v in vals]
            alpha += [{"op": "get", "i": i} for i in idx] + [{"op": "q"}]
            plan.append((cfg_of("LIST", b1, b2, unique=u), alpha, 4 if thorough else 3))
    # BAG / SET
    for kind in ("BAG", "SET"):
        for (b1, b2) in [(0, 0), (0, 1), (0, 2), (1, 1), (1, 2), (2, 2), (2, 3), (3, 4), (0, None), (2, None)]:
            alpha = [{"op": "add", "v": v} for v in (I1, I2, I3, ["INTEGER", 4], R1, SA)] + [{"op": "q"}]
            plan.append((cfg_of(kind, b1, b2), alpha, 6 if thorough else 5))
    return plan


def shard_enum(arg):
    tier, seed, items = arg
    t0 = time.process_time()
    rt()
    ctx = Ctx(tier, seed)
    failure = None
    nseq = 0
    for (cfg, alpha, length, first) in items:
        for rest in itertools.product(range(len(alpha)), repeat=length - 1):
            ops = [alpha[first]] + [alpha[j] for j in rest]
            run, f = execute(cfg, ops, ctx)
            ctx.record(run, planned=ops)
            nseq += 1
            if f is not None:
                # the enumeration order is not a shrinker: keep the failure with the fewest operations
                if failure is None or len(f.ops) < len(failure.ops):
                    failure = f
                if len(f.ops) <= 1:
                    break
        if failure is not None:
            break
    ctx.ev.extra["cpu_s_enumeration"] = round(time.process_time() - t0, 2)
    out = result_of(ctx, failure, "exhaustive enumeration")
    out["nseq"] = nseq
    return out


# ------------------------------------------------------------------------------------------------
# violation handling

def confirm(case):
    """re-run the stored case; -> Failure or None"""
    _, f = execute(case["cfg"], case["ops"], None)
    return f


def confirm_fresh(case_json, times=3):
    """three fresh interpreters, no Hypothesis involved"""
    code = ("import sys, json; import c19; c = json.load(sys.stdin); f = c19.confirm(c); "
            "sys.stdout.write(f.sig if f else ''); sys.exit(7 if f else 0)")
    sigs = []
    for _ in range(times):
        rc, out, err, _t = common.run([sys.executable, "-c", code], input=case_json.encode(), timeout=120,
                                      env=dict(os.environ, PYTHONPATH=os.pathsep.join(
                                          [os.path.join(common.VERIF, "lib"), os.path.join(common.VERIF, "lib", "checks")])))
        if rc != 7:
            return None, "confirmation run gave rc=%r %s %s" % (rc, out[-300:], err[-600:])
        sigs.append(out.strip())
    return sigs, ""


def report_violation(ev, fail, tier, seed, where):
    case = {"property": PROP, "cfg": fail["cfg"], "ops": fail["ops"], "sig": fail["sig"],
            "runtime": rt().file}
    text = json.dumps(case, indent=1, sort_keys=True) + "\n"
    sigs, why = confirm_fresh(text)
    if sigs is None:
        ev.inconclusive.append("failure %s (%s) did not reproduce 3x in a fresh interpreter: %s" % (fail["sig"], where, why))
        print("C19: a failure (%s) did not reproduce in a fresh interpreter: %s" % (fail["sig"], why))
        return 3
    ev.violations += 1
    seq = " ; ".join(show_op(o) for o in fail["ops"])
    detail = "%s\n%s :: %s\nsignature: %s\nfound by: %s (tier %s, seed %d); reproduced 3/3 in fresh interpreters" % (
        fail["detail"], show_cfg(fail["cfg"]), seq, fail["sig"], where, tier, seed)
    d = common.save_replay(PROP, {"case.json": text}, {"tier": tier, "seed": seed, "sig": fail["sig"],
                                                       "detail": fail["detail"], "where": where,
                                                       "runtime": rt().file})
    common.print_violation(PROP, d, detail)
    return 1


def replay(path):
    p = os.path.join(path, "case.json") if os.path.isdir(path) else path
    case = json.load(open(p))
    rt()
    if "nested" in case:
        f = two_scope_case(*case["nested"][1:]) if case["nested"][0] == "@two-scopes" else nested_case(*case["nested"])
        if f is None:
            print("C19 replay: nested combination %s -> no disagreement (runtime %s)" % (case["nested"], rt().file))
            return 0
        common.print_violation(PROP, os.path.dirname(os.path.abspath(p)), "%s\nsignature: %s" % (f[1], f[0]))
        return 1
    ctx = Ctx("replay", 0)
    run, f = execute(case["cfg"], case["ops"], ctx)
    for fid, e in sorted(ctx.known_seen.items()):
        common.print_known(PROP, "%s: %s" % (fid, e.get("what", "")))
    if f is None:
        print("C19 replay: %s :: %s  -> no disagreement (runtime %s)" % (
            show_cfg(case["cfg"]), " ; ".join(show_op(o) for o in case["ops"]), rt().file))
        return 0
    common.print_violation(PROP, os.path.dirname(os.path.abspath(p)),
                           "%s\n%s :: %s\nsignature: %s" % (f.detail, show_cfg(case["cfg"]),
                                                            " ; ".join(show_op(o) for o in f.ops), f.sig))
    return 1


# ------------------------------------------------------------------------------------------------
# nested aggregates: "the element type is checked" also when the element type is itself an aggregate

NEST_TYPES = ["INTEGER", "REAL", "STRING", "BOOLEAN", "BINARY", "label", "colour"]
# inner kinds whose classes are unrelated by subclassing in the runtime and by specialisation in EXPRESS
UNRELATED_KINDS = {("ARRAY", "LIST"), ("ARRAY", "BAG"), ("ARRAY", "SET"), ("LIST", "BAG"), ("LIST", "SET"),
                   ("LIST", "ARRAY"), ("BAG", "ARRAY"), ("SET", "ARRAY"), ("BAG", "LIST"), ("SET", "LIST")}


def _mk_inner(kind, base, byname, fill):
    r = rt()
    bt = base if byname else r.types[base]
    scope = r.scope if byname else None
    cls = r.kinds[kind]
    obj = cls(1, 2, bt, scope=scope)
    if fill:
        v = mkval([base, POOL[base][0]])
        if kind in ("ARRAY", "LIST"):
            obj[1] = v
        else:
            obj.add(v)
    return obj


def nested_case(outer, inner, decl, off_kind, off_type, byname, fill):
    """-> None | (sig, detail): store an aggregate `off_kind OF off_type` into `outer OF inner OF decl`."""
    r = rt()
    want_accept = (off_kind == inner and off_type == decl)
    try:
        proto = _mk_inner(inner, decl, byname, False)
        cont = r.kinds[outer](1, 2, proto)
        val = _mk_inner(off_kind, off_type, byname, fill)
    except Exception as e:
        return ("nested|setup|%s" % exc_tag(e), "constructing %s [1:2] OF %s [1:2] OF %s raised %r" % (outer, inner, decl, e))
    size0 = r.B.SIZEOF(cont) if outer != "ARRAY" else None
    try:
        if outer in ("ARRAY", "LIST"):
            cont[1] = val
        else:
            cont.add(val)
        accepted = True
    except Exception:
        accepted = False
    what = "%s [1:2] OF %s [1:2] OF %s  <-  %s [1:2] OF %s%s%s" % (outer, inner, decl, off_kind, off_type, " (types by name)" if byname else "", " (filled)" if fill else "")
    if accepted != want_accept:
        return ("nested|%s|%s" % (outer, "unexpected-accept" if accepted else "unexpected-reject"),
                "%s: %s, the element type is %s" % (what, "ACCEPTED" if accepted else "REFUSED", "the declared one" if want_accept else "not the declared one"))
    if accepted and outer in ("ARRAY", "LIST"):
        if cont[1] is not val:
            return ("nested|%s|read-back" % outer, "%s: stored aggregate is not what slot 1 returns" % what)
    if not accepted and size0 is not None and r.B.SIZEOF(cont) != size0:
        return ("nested|%s|refused-but-changed" % outer, "%s: refused, but the size changed" % what)
    return None


def two_scope_case(kind, tname, first):
    """Two schema scopes that each define a type called `tname` (as two generated modules do): an aggregate declared by NAME in
    one scope takes the values of that scope's type and refuses the other scope's, whichever scope was used first.
    -> None | (sig, detail)"""
    r = rt()
    base = {"label": r.S.STRING, "length_measure": r.S.REAL, "count": r.S.INTEGER}[tname]
    payload = {"label": "a", "length_measure": 1.5, "count": 3}[tname]
    scopes = {}
    for sc in ("A", "B"):
        cls = type(tname, (base,), {})
        scopes[sc] = (types.SimpleNamespace(**{tname: cls}), cls)
    order = ["A", "B"] if first == "A" else ["B", "A"]
    for sc in order:
        ns, cls = scopes[sc]
        other = scopes["B" if sc == "A" else "A"][1]
        for offered, want in ((cls, True), (other, False)):
            agg = r.kinds[kind](1, 2, tname, scope=ns)
            v = offered(payload)
            try:
                if kind in ("ARRAY", "LIST"):
                    agg[1] = v
                else:
                    agg.add(v)
                ok = True
            except Exception:
                ok = False
            if ok != want:
                return ("two-scopes|%s|%s" % (kind, "unexpected-accept" if ok else "unexpected-reject"),
                        "%s [1:2] OF '%s' declared in scope %s (scope %s used first): value of scope %s's %s %s" % (
                            kind, tname, sc, order[0], "its own" if want else "the other", tname, "ACCEPTED" if ok else "REFUSED"))
    return None


def nested_grid(ev):
    """every (outer kind, inner kind, declared element type) x offered (inner kind, element type) on which EXPRESS and the
    runtime's class relation agree; -> list of failures"""
    fails = []
    n = 0
    for outer in ("ARRAY", "LIST", "BAG", "SET"):
        for inner in ("ARRAY", "LIST", "BAG", "SET"):
            for decl in NEST_TYPES:
                for off_kind in ("ARRAY", "LIST", "BAG", "SET"):
                    if off_kind != inner and (off_kind, inner) not in UNRELATED_KINDS:
                        continue            # BAG/SET: specialisation, not calibrated
                    for off_type in NEST_TYPES:
                        if off_type != decl and (decl in CONFORMS[off_type] or off_type in CONFORMS[decl] or (off_type, decl) in DOUBT or (decl, off_type) in DOUBT):
                            continue        # related element types (label/STRING ...): not calibrated
                        for byname in (False, True):
                            for fill in (False, True):
                                n += 1
                                f = nested_case(outer, inner, decl, off_kind, off_type, byname, fill)
                                ev.bump("nested:%s-OF-%s:%s" % (outer, inner, "same-type" if (off_kind == inner and off_type == decl) else ("other-kind" if off_kind != inner else "other-element-type")))
                                if f:
                                    fails.append({"sig": f[0], "detail": f[1], "nested": [outer, inner, decl, off_kind, off_type, byname, fill]})
    for kind in ("ARRAY", "LIST", "BAG", "SET"):
        for tname in ("label", "length_measure", "count"):
            for first in ("A", "B"):
                n += 1
                ev.bump("two-scopes:%s" % kind)
                f = two_scope_case(kind, tname, first)
                if f:
                    fails.append({"sig": f[0], "detail": f[1], "nested": ["@two-scopes", kind, tname, first]})
    return n, fails


# ------------------------------------------------------------------------------------------------

SIZES = {
    # tier: (machines, steps per machine, shards)
    "quick": (6400, 30, 32),
    "thorough": (100000, 60, 200),
}


def main(tier, seed):
    rt()
    machines, steps, nshards = SIZES[tier]
    ev = common.Evidence(PROP, "exploration", tier, seed, RULE)
    ev.max_samples = 8
    ev.assumptions = [
        "any exception type raised by an operation counts as a refusal",
        "LIST indices between min(1,bound_1) and max(1,bound_1) are never used (runtime and ISO 10303-11 disagree there)",
        "element types are drawn only from pairs on which EXPRESS assignment compatibility and isinstance() agree",
        "BAG/SET offer no remove(); element reads of BAG/SET are not possible through the public interface",
        "runtime under test: " + rt().file,
    ]
    # ---- work list: random shards + enumeration items, interleaved over one pool
    work = [("r", (tier, seed, k, machines // nshards, steps)) for k in range(nshards)]
    plan = enum_plan(tier)
    items = []
    total_seq = 0
    for (cfg, alpha, length) in plan:
        total_seq += len(alpha) ** length
        for first in range(len(alpha)):
            items.append((cfg, alpha, length, first, len(alpha) ** (length - 1)))
    # balance the enumeration into chunks of similar cost
    items.sort(key=lambda x: -x[4])
    nchunks = max(common.NPROC * 3, 1)
    chunks = [[] for _ in range(nchunks)]
    load = [0] * nchunks
    for it in items:
        j = load.index(min(load))
        chunks[j].append(it[:4])
        load[j] += it[4]
    work += [("e", (tier, seed, c)) for c in chunks if c]
    work.sort(key=lambda w: 0 if w[0] == "e" else 1)

    results = common.pmap(dispatch, work)
    failures, known, enum_seq = [], {}, 0
    for (kind_, _arg), (status, res) in zip(work, results):
        if status != "ok":
            print("C19: machinery failure in a worker:\n" + res)
            ev.inconclusive.append("worker exception")
            ev.write()
            return 3
        ev.merge(res["partial"])
        known.update(res["known"])
        enum_seq += res.get("nseq", 0)
        if res["failure"] is not None:
            failures.append((res["where"], res["failure"]))
    for fid, e in sorted(known.items()):
        common.print_known(PROP, "%s: %s" % (fid, e.get("what", "")))
    ev.extra["exhaustive_subspace"] = {
        "exhaustive": not failures and not ev.known and not ev.excluded, "sequences_planned": total_seq, "sequences_run": enum_seq,
        "configurations": len(plan),
        "what": "every operation sequence of the stated length over the reduced alphabet, per configuration",
        "lengths": sorted(set("%s:%d" % (c["kind"], l) for c, _a, l in plan))}
    ev.extra["random_machines"] = {"requested": machines, "max_steps": steps, "shards": nshards}
    rc = 0
    n_nested, nfails = nested_grid(ev)
    ev.extra["nested_aggregate_grid"] = {"combinations": n_nested, "disagreements": len(nfails),
                                         "what": "outer kind x inner kind x declared element type x offered (inner kind, element type), types given as class and by name, offered aggregate empty and filled"}
    ev.evaluations += n_nested
    ev.nontrivial_counted = getattr(ev, "nontrivial_counted", 0) + n_nested
    if nfails and not failures:
        nf = nfails[0]
        ev.violations += 1
        d = common.save_replay(PROP, {"case.json": json.dumps({"property": PROP, "nested": nf["nested"], "sig": nf["sig"]}, indent=1) + "\n"},
                               {"tier": tier, "seed": seed, "sig": nf["sig"], "detail": nf["detail"], "where": "nested grid", "runtime": rt().file})
        common.print_violation(PROP, d, "%s\nsignature: %s (%d of %d nested combinations disagree)" % (nf["detail"], nf["sig"], len(nfails), n_nested))
        rc = 1
    if failures:
        # deterministic choice: fewest operations, then text order
        failures.sort(key=lambda wf: (len(wf[1]["ops"]), json.dumps(wf[1], sort_keys=True)))
        where, fail = failures[0]
        others = sorted(set(f["sig"] for _w, f in failures[1:]) - {fail["sig"]})
        rc = max(rc, report_violation(ev, fail, tier, seed, where))
        if others:
            print("C19: other disagreement signatures seen in the same run (not reported separately): " + "; ".join(others))
    n_nontrivial = len(ev.nontrivial) + getattr(ev, "nontrivial_counted", 0)
    need = total_seq + int(0.95 * machines)
    if rc == 0 and (ev.evaluations < need or n_nontrivial < 1000 or len(ev.nontrivial) < machines // 10
                    or enum_seq != total_seq):
        # a tier that silently did (almost) nothing is a machinery failure, never a pass
        print("C19: machinery failure: %d evaluations (%d non-trivial, %d of them random; %d/%d enumerated) - expected at least %d" % (
            ev.evaluations, n_nontrivial, len(ev.nontrivial), enum_seq, total_seq, need))
        ev.inconclusive.append("too few evaluations")
        rc = 3
    ev.write()
    print("C19 %s seed=%d: %d cases (%d distinct non-trivial, %d of them from %d random machine runs), %d enumerated sequences, "
          "%d steps, violations=%d, known=%s, %.1fs" % (
              tier, seed, ev.evaluations, n_nontrivial, len(ev.nontrivial), ev.evaluations - enum_seq, enum_seq,
              ev.classes.get("steps_total", 0), ev.violations, dict(ev.known), time.time() - ev.t0))
    return rc


def dispatch(w):
    """worker entry (top level so that it can be pickled); an exception in our own machinery is reported, not lost"""
    try:
        return ("ok", shard_random(w[1]) if w[0] == "r" else shard_enum(w[1]))
    except Exception:
        import traceback
        return ("exc", traceback.format_exc())
