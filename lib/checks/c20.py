"""C20 - diagnostics of the EXPRESS front end name the construct that is actually wrong; -i/-w only filter warnings.

Generated: valid schemas (language profile when lib/explang.py exists, else codegen profile; + the valid unitary schemas of
the repo as seeds); for every template of lib/mutate_exp.py (one per argument-carrying entry of LibErrors[] that can be
reached) a single-fault mutant in which the offending text is chosen by the generator; a 'warning cocktail' (every warning
template at once) for the switch part.
Executed: check-express (plain build), stderr + exit status.
Oracle: see RULE / the three numbered parts in check_run()."""
import json
import os
import random
import re
import shutil
import sys

import build
import common
import c20_front as F
import mutate_exp as M

PROP = "C20"
LEVEL = "fault_enumeration"
RULE = ("Enumeration: every valid base schema (Hypothesis-generated; plus the repo's unitary schemas that the checker accepts) x every "
        "single-fault template (one per argument-carrying LibErrors[] entry that is reachable; in-situ and stand-alone flavour, the "
        "offending identifier / character / count chosen by the generator, spliced at a PRNG-chosen declaration position; PRNG seeded by a "
        "Hypothesis draw) -> check-express; plus, per base, a valid 'warning cocktail' (all warning templates at once), the cocktail with "
        "one error fault and one plain mutant, each run under every switch setting of the tier (-w/-i x every class name of the usage "
        "text, all, none, pairs, with and without -B) and unknown class names. Oracle: (1) every diagnostic line has the form "
        "'<input file>:<n>: (--ERROR PE|WARNING PW)ddd: ' (or the unlocated form) with the input's own file name; (2) the diagnostic the "
        "fault must produce is present and the arguments extracted with the table's own format string equal the generator's texts; every "
        "quoted identifier/character of ANY diagnostic is non-empty and occurs in the input; line numbers are not asserted; (3) stderr "
        "under switches == stderr of '-w all' filtered by the switch state (left to right, default state read off the run without "
        "switches), same exit status; unknown class names give the usage error, never a signal. A case is non-trivial when the run "
        "printed at least one diagnostic carrying an argument (fault cases) or at least one warning of a named class (switch cases); "
        "distinct by hash(input, switches).")

NONIDENT = {"SYNTAX": None, "SYNTAX_EXPECTING": None, "NOT_A_TYPE": {1}, "WARN_UNSUPPORTED_LANG_FEAT": None, "FILE_UNREADABLE": None,
            "FILE_UNWRITABLE": None, "TILDE_EXPANSION_FAILED": None, "SCHEMA_NOT_IN_OWN_SCHEMA_FILE": {1}, "DUPLICATE_DECL_DIFF_FILE": {2},
            "EMPTY_LIST": None, "CORRUPTED_TYPE": None}

# why an argument-carrying entry of LibErrors[] has no template (used in the evidence only when the run did not trigger it)
UNREACHED = {
    "NONASCII_CHAR": "only reported by SCANnextchar(), which the perplex-generated scanner never calls (it reads with fgetc); bytes >= 0x80 fall "
                     "into the catch-all rule and are skipped as white space - probed by template non-ascii-byte, which records 'no diagnostic'",
    "DUPLICATE_DECL_DIFF_FILE": "needs the same name declared in two files; INCLUDE is not functional in the generated scanner (SCANpush_buffer is "
                                "ignored by perplex) and a second schema file is only searched for undefined schemas",
    "SYNTAX_EXPECTING": "never reported (no call site)",
    "SYNTAX": "triggered by C04's syntax mutants; its arguments (message, scope kind, scope name) are not identifiers quoted from the fault",
    "TILDE_EXPANSION_FAILED": "never reported (no call site)",
    "SCHEMA_NOT_IN_OWN_SCHEMA_FILE": "needs an EXPRESS_PATH directory holding a file named after a schema that does not contain it: environment, "
                                     "not input text (C20 quantifies over files)",
    "FILE_UNREADABLE": "probed once per run with a generator-chosen missing file name (unlocated form)",
    "FILE_UNWRITABLE": "exppp only (output file), not an input diagnostic",
    "EMPTY_LIST": "internal error of LISTremove_first, no input known to reach it",
    "SUPERTYPE_RESOLVE": "unreachable: SCOPEfind(..., SCOPE_FIND_ENTITY) only returns entities, so DICT_type != OBJ_ENTITY never holds (a type named "
                         "as supertype gives UNKNOWN_SUPERTYPE) - probed by the unknown-supertype template family",
    "SUBTYPE_RESOLVE": "unreachable for the same reason as SUPERTYPE_RESOLVE (its call site also passes 2 arguments for 3 conversions)",
    "FUNCALL_NOT_A_FUNCTION": "unreachable: SCOPEfind(..., SCOPE_FIND_FUNCTION | SCOPE_FIND_ENTITY) returns nothing else; calling a type gives UNDEFINED_FUNC",
    "EXPECTED_PROC": "unreachable: SCOPEfind(..., SCOPE_FIND_PROCEDURE) returns only procedures; calling a function as a statement gives NO_SUCH_PROCEDURE",
    "AMBIGUOUS_ATTR": "never reported (call sites are commented out)",
    "AMBIGUOUS_GROUP": "never reported (call sites are commented out)",
    "FN_SKIP_BRANCH": "never reported (no call site); its class 'invariant_condition' is still switched",
    "CORRUPTED_TYPE": "never reported (no call site)",
    "SELECT_EMPTY": "reported by exppp only, for a select without members, which the parser refuses first",
    "CIRCULAR_REFERENCE": "triggered only together with REF_NONEXISTENT for mutually renaming USE clauses; probed by hand, not enumerated",
}


# ----------------------------------------------------------------------------------------------------------------

def ident_in(text_low, arg):
    a = arg.lower()
    if not a:
        return False
    return re.search(r"(?<![a-z0-9_])" + re.escape(a) + r"(?![a-z0-9_])", text_low) is not None


def check_diag_generic(d, fname, text_low, raw_text):
    """Oracle parts (1) and the generic half of (2) for one diagnostic. -> [(sig, detail)]"""
    probs = []
    if d.located and d.file != fname:
        probs.append(("attribution", "diagnostic attributed to %r, input is %r: %s" % (d.file, fname, d.raw[:200])))
    if d.code is None or d.code.get("fmt") is None:
        probs.append(("unknown-code", "diagnostic number %d is not in LibErrors[]: %s" % (d.num, d.raw[:200])))
        return probs
    name = d.code["name"]
    if not d.fmt_ok:
        probs.append(("format:" + name, "message does not have the shape of its table entry %r: %s" % (d.code["fmt"], d.raw[:300])))
        return probs
    non = NONIDENT.get(name, set())
    for i, (slot, arg) in enumerate(zip(d.code["slots"], d.args)):
        if slot == "%s":
            if arg == "":
                probs.append(("arg-empty:" + name, "empty quoted text: %s" % d.raw[:300]))
            elif non is None or i in non:
                continue
            elif name == "INCLUDE_FILE":
                if arg not in raw_text:
                    probs.append(("arg-foreign:" + name, "quoted file name %r is not in the input: %s" % (arg, d.raw[:300])))
            elif not all(32 <= ord(ch) < 127 for ch in arg) or not ident_in(text_low, arg):
                probs.append(("arg-foreign:" + name, "quoted text %r does not occur in the input: %s" % (arg[:60], d.raw[:300])))
        elif slot == "%c":
            if arg not in raw_text:
                probs.append(("arg-foreign:" + name, "quoted character %r does not occur in the input: %s" % (arg, d.raw[:300])))
        elif slot == "%x":
            if chr(int(arg, 16) & 0xff) not in raw_text:
                probs.append(("arg-foreign:" + name, "quoted byte 0x%s does not occur in the input" % arg))
    return probs


def arg_matches(exp, got):
    if exp is None:
        return True
    if isinstance(exp, dict):
        return got.lower() in exp["any"]
    return got.lower() == exp.lower()


def check_expect(table, diags, expect):
    """The fault-specific half of oracle (2). -> [(sig, detail)]"""
    probs = []
    for e in expect:
        code = table.codes[e["code"]]
        mine = [d for d in diags if d.num == code["num"]]
        if not mine:
            probs.append(("missing:" + e["code"], "the fault must be reported by %s%03d (%s), which was not printed; printed: %s"
                          % ("PE" if table.is_error(code) else "PW", code["num"], e["code"], [d.raw[:120] for d in diags][:4])))
            continue
        if e["args"] is None:
            continue
        ok = False
        for d in mine:
            if d.fmt_ok and len(d.args) == len(e["args"]) and all(arg_matches(x, g) for x, g in zip(e["args"], d.args)):
                ok = True
                break
        if not ok:
            empty = any(d.fmt_ok and any(a == "" for a in d.args) for d in mine)
            probs.append((("arg-empty:" if empty else "arg-mismatch:") + e["code"],
                          "expected quoted text %s, printed: %s" % (json.dumps(e["args"]), " | ".join(d.raw[:200] for d in mine[:3]))))
    return probs


def classify_others(others):
    bad = []
    for ln in others:
        if ln in F.TRAILERS:
            continue
        if re.search(r"ERROR|WARNING|P[EW]\d\d\d", ln):
            bad.append(("unattributed-line", "diagnostic-like line without the '<file>:<line>: ' / 'ERROR PEnnn: ' form: %r" % ln[:200]))
    return bad


class Runner:
    def __init__(self, table, exe, scratch):
        self.table, self.exe, self.scratch = table, exe, scratch
        self.dir = scratch.fresh("in")
        self.n = 0
        self.seen = set()        # diagnostic numbers printed by any run (used to keep minimisation on the same failure)

    def put(self, text, latin1=True):
        self.n += 1
        fname = "m%d_%d.exp" % (os.getpid() % 1000, self.n)
        with open(os.path.join(self.dir, fname), "wb") as f:
            f.write(text.encode("latin-1"))
        return fname

    def run(self, fname, switches=()):
        r = F.run_tool(self.exe, list(switches) + [fname], cwd=self.dir, timeout=30, light=True)
        buffered = "-B" in switches
        diags, others = F.parse_stderr(self.table, r.err, fname, buffered)
        self.seen |= set(d.num for d in diags)
        if r.sig:
            self.seen.add(-r.sig)
        return r, diags, others

    def drop(self, fname):
        try:
            os.remove(os.path.join(self.dir, fname))
        except OSError:
            pass


def run_fault_case(rn, text, expect, switches=()):
    """-> (problems, run, diags).  problems = [(sig, detail)]"""
    fname = rn.put(text)
    try:
        r, diags, others = rn.run(fname, switches)
        probs = []
        if r.timeout:
            return [("timeout", "check-express did not finish in 30 s")], r, diags
        if r.sig:
            probs.append(("signal", "check-express died on %s; stderr: %s" % (r.status, r.err[-300:])))
        low = text.lower()
        for d in diags:
            probs += check_diag_generic(d, fname, low, text)
        probs += classify_others(others)
        if not r.sig:
            if "-B" in switches and r.rc == 0:
                # on this tree -B never flushes the buffered warnings of an accepted file; -B is outside the statement: not asserted
                expect = [e for e in expect if rn.table.is_error(rn.table.codes[e["code"]])]
            probs += check_expect(rn.table, diags, expect)
        return probs, r, diags
    finally:
        rn.drop(fname)


# ---- the same input spread over several files (schemas found through EXPRESS_PATH) -------------------------------------

_IMPORT = re.compile(r"(?is)\b(?:USE|REFERENCE)\s+FROM\s+([A-Za-z][A-Za-z0-9_]*)")


def split_files(text):
    """-> (main text, {file name: text}) or None.  Every schema that another schema of the file imports from is moved into
    its own <schema>.exp (where the front end looks for a schema it does not know); at least one importing schema stays."""
    sc = M.scan(text)
    if not sc.ok or len(sc.schemas) < 2:
        return None
    by_name = {x.name.lower(): x for x in sc.schemas}
    spans = {}
    toks = sc.toks
    for x in sc.schemas:
        # text span of the schema: from its SCHEMA keyword to the ';' after END_SCHEMA
        a = x.toks[0].start
        b = x.end_tok.end
        j = text.find(";", b)
        spans[x.name.lower()] = (a, j + 1 if j >= 0 else b)
    imported = set()
    for x in sc.schemas:
        a, b = spans[x.name.lower()]
        for m in _IMPORT.finditer(text[a:b]):
            n = m.group(1).lower()
            if n in by_name and n != x.name.lower():
                imported.add(n)
    stay = [n for n in by_name if n not in imported]
    if not imported or not stay:
        return None
    files = {}
    main = text
    for n in sorted(imported, key=lambda n_: -spans[n_][0]):
        a, b = spans[n]
        files[n + ".exp"] = main[a:b] + "\n"
        main = main[:a] + main[b:]
    # the cut must leave well-formed pieces with the same schemas (the scanner of lib/mutate_exp.py is asked again)
    got = []
    for piece in [main] + list(files.values()):
        sc2 = M.scan(piece)
        if not sc2.ok:
            return None
        got += [x.name.lower() for x in sc2.schemas]
    if sorted(got) != sorted(by_name):
        return None
    return main, files


def run_multifile_case(rn, text, expect):
    """The input of a fault case again, with the imported schemas in files of their own.  Oracle: (1) the expected diagnostic
    is printed as for the single file, (2) every located diagnostic is attributed to one of the files, and every
    quoted text occurs in the file it is attributed to.  -> (problems, n files) or None when the input cannot be split."""
    sp = split_files(text)
    if sp is None:
        return None
    main, files = sp
    fname = rn.put(main)
    written = []
    try:
        for fn, body in files.items():
            with open(os.path.join(rn.dir, fn), "wb") as f:
                f.write(body.encode("latin-1"))
            written.append(fn)
        r, diags, others = rn.run(fname, ("-w", "all"))
        probs = []
        if r.timeout:
            return [("timeout", "check-express did not finish in 30 s (multi-file)")], len(files) + 1
        if r.sig:
            return [("signal", "check-express died on %s with the schemas in separate files; stderr: %s" % (r.status, r.err[-300:]))], len(files) + 1
        texts = dict((fn, body) for fn, body in files.items())
        texts[fname] = main
        for d in diags:
            if not d.located:
                continue
            base = os.path.basename(d.file)
            if base not in texts:
                probs.append(("multifile:attribution", "diagnostic attributed to %r, the files are %s: %s" % (d.file, sorted(texts), d.raw[:200])))
                continue
            low = texts[base].lower()
            if d.code:
                for conv, arg in zip(d.code.get("slots", []), d.args or []):
                    # (only names the generator chose - they start with zzq; other %s arguments may be words of the tool's own,
                    # e.g. "... but x1 is function")
                    if conv == "%s" and arg and re.match(r"^zzq[A-Za-z0-9_]*$", arg.lower()) and arg.lower() not in low \
                            and arg.lower() in text.lower():
                        probs.append(("multifile:attributed-to-a-file-that-does-not-contain-the-quoted-text",
                                      "%r is quoted under file %s, which does not contain it: %s" % (arg, base, d.raw[:200])))
        # (2b) the diagnostic the fault was built for is printed here too.  (The complete lists are NOT compared: a parse-time
        # error stops a single file at once, while in an imported file it lets the importing file go on to follow-up errors.)
        syn = rn.table.codes.get("SYNTAX", {}).get("num")
        if any(d.num == syn for d in diags) and not any(e["code"] == "SYNTAX" for e in expect):
            # the pieces do not parse although the single file did: the cut is at fault, not the front end (counted by the caller)
            return None
        probs += [("multifile:" + sg, dt) for sg, dt in check_expect(rn.table, diags, expect)]
        return probs, len(files) + 1
    finally:
        rn.drop(fname)
        for fn in written:
            rn.drop(fn)


# ---- switches ---------------------------------------------------------------------------------------------------

def switch_settings(table, classes, rnd, tier):
    names = list(classes) + ["all", "none"]
    single = [(o, c) for c in names for o in ("-w", "-i")]
    settings = [[s] for s in single]
    pairs = []
    for a in single:
        for b in single:
            if a != b:
                pairs.append([a, b])
    rnd.shuffle(pairs)
    settings += pairs[:(6 if tier == "quick" else 30)]
    triples = [[rnd.choice(single) for _ in range(3)] for _ in range(2 if tier == "quick" else 10)]
    settings += triples
    out = []
    for s in settings:
        out.append((s, False))
    for s in settings[::(5 if tier == "quick" else 2)]:
        out.append((s, True))
    return out


def expected_state(table, default_on, setting):
    """warning code number -> enabled?, after the switches (left to right)"""
    st = dict(default_on)
    for opt, cls in setting:
        codes = table.warning_codes_of(cls)
        val = (opt == "-w")
        if cls == "none":
            val = not val
        for c in codes:
            st[c] = val
    return st


def run_switch_case(rn, table, text, settings, ev_classes):
    """Oracle (3) for one input.  -> [(sig, detail, setting)].  -B (buffer and sort the messages) is not a warning switch: runs
    with -B are compared with the '-B' and '-B -w all' runs (on this tree -B drops the buffered warnings of an accepted file;
    that is outside the statement and not asserted)."""
    out, named = [], 0
    for buffered in (False, True):
        sub = [s for s, b in settings if b == buffered]
        if sub:
            o, n = _run_switch_case(rn, table, text, sub, buffered, ev_classes)
            out += o
            named = max(named, n)
    return out, named


def _run_switch_case(rn, table, text, settings, buffered, ev_classes):
    fname = rn.put(text)
    out = []
    base = ["-B"] if buffered else []
    try:
        r0, d0, o0 = rn.run(fname, base)
        rf, df, of = rn.run(fname, base + ["-w", "all"])
        if r0.sig or r0.timeout:
            return [("signal", "baseline run died: %s" % r0.status, [])], 0
        if rf.sig or rf.timeout or (rf.rc == 2 and "usage" in rf.err):
            return [("switch:all-not-accepted", "'-w all' -> %s; stderr %s" % (rf.status, rf.err[:200]), [["-w", "all"]])], 0
        warn_nums = set(c["num"] for c in table.codes.values() if c["severity"] == "WARNING")
        full = [d for d in df]
        # default state, read off the run without switches: each warning code is either completely there or completely absent
        default_on = {}
        for n in warn_nums:
            nf = [d.key() for d in full if d.num == n]
            n0 = [d.key() for d in d0 if d.num == n]
            if n0 and n0 != nf:
                out.append(("switch:default-inconsistent", "warnings PW%03d without switches %s differ from those under '-w all' %s" % (n, n0[:2], nf[:2]), []))
            default_on[n] = bool(n0)
        if [d.key() for d in d0 if d.num not in warn_nums] != [d.key() for d in full if d.num not in warn_nums] or r0.rc != rf.rc:
            out.append(("switch:changes-errors-or-status", "'-w all' changed the errors or the exit status: %s -> %s" % (r0.status, rf.status), [["-w", "all"]]))
        n_named = len([d for d in full if d.code and d.code["cls"]])
        for setting in settings:
            args = list(base)
            for o, c in setting:
                args += [o, c]
            r, ds, oth = rn.run(fname, args)
            label = " ".join(args)
            ev_classes["switch:" + ("-B " if buffered else "") + " ".join(o for o, _c in setting)] = ev_classes.get("switch:" + ("-B " if buffered else "") + " ".join(o for o, _c in setting), 0) + 1
            if r.sig or r.timeout:
                out.append(("switch:signal", "check-express %s -> %s; stderr: %s" % (label, r.status, r.err[-200:]), args))
                continue
            if r.rc == 2 and "usage:" in r.err and not ds:
                out.append(("switch:listed-class-refused", "check-express %s -> usage error although the usage text lists the class; stderr starts: %s"
                            % (label, r.err[:120]), args))
                continue
            st = expected_state(table, default_on, setting)
            want = [d.key() for d in full if d.num not in warn_nums or st.get(d.num, False)]
            got = [d.key() for d in ds]
            if buffered:
                want, got = sorted(want, key=str), sorted(got, key=str)
            if got != want:
                missing = [k for k in want if k not in got]
                extra = [k for k in got if k not in want]
                kind = "switch:other-diagnostics-changed"
                touched = set()
                for _o, c in setting:
                    touched |= table.warning_codes_of(c)
                if all(k[3] in touched for k in missing + extra):
                    kind = "switch:class-not-filtered"
                out.append((kind, "check-express %s: expected the lines of '-w all' filtered by the switch state; missing %s, unexpected %s"
                            % (label, [k[3:] for k in missing][:3], [k[3:] for k in extra][:3]), args))
            if r.rc != r0.rc:
                out.append(("switch:exit-status-changed", "check-express %s: exit status %s, without switches %s" % (label, r.status, r0.status), args))
            for d in ds:
                for sig, det in check_diag_generic(d, fname, text.lower(), text):
                    out.append((sig, det, args))
            if [x for x in oth if x not in F.TRAILERS] != [x for x in o0 if x not in F.TRAILERS]:
                out.append(("switch:other-lines-changed", "check-express %s: non-diagnostic lines differ: %s vs %s" % (label, oth[:3], o0[:3]), args))
        return out, n_named
    finally:
        rn.drop(fname)


def unknown_class_case(rn, text, name, opt):
    fname = rn.put(text)
    try:
        r, ds, oth = rn.run(fname, [opt, name])
        if r.sig or r.timeout:
            return [("unknown-class:signal", "check-express %s %r -> %s" % (opt, name[:40], r.status))]
        if r.rc == 0 or "usage:" not in r.err:
            return [("unknown-class:accepted", "check-express %s %r -> %s without the usage error; stderr: %s" % (opt, name[:40], r.status, r.err[:200]))]
        return []
    finally:
        rn.drop(fname)


def parse_usage_classes(exe, cwd):
    """the class names the tool itself documents (usage text, printed for an unknown class name)"""
    r = F.run_tool(exe, ["-w", "zzq_usage_probe"], cwd=cwd, timeout=20)
    m = re.search(r"<warning> is one of:\n(.*?)\nand <object_type>", r.err, re.S)
    if not m:
        return None, r
    names = [x.strip() for x in m.group(1).split("\n") if x.strip()]
    return [n for n in names if n not in ("none", "all")], r


# ----------------------------------------------------------------------------------------------------------------

def cocktail(base, rseed, extra=None):
    text = base
    exp = []
    for t in M.WARNING_TEMPLATES + ([extra] if extra else []):
        m = M.make(t, text, "%s|cocktail" % rseed)
        if m is None:
            continue
        text = m["text"]
        exp += m["expect"]
    return text, exp


def work_base(arg):
    """all cases of one base schema; returns partial evidence + failures"""
    idx, src, tier, seed, classes = arg
    table = F.ErrTable()
    exe = build.tool("plain", "check-express")
    sc = F.Scratch("c20_%d" % idx)
    rn = Runner(table, exe, sc)
    ev = common.Evidence(PROP, LEVEL, tier, seed, RULE)
    fails = []
    triggered = {}
    try:
        base = src["text"]
        # control: the base must be accepted (otherwise it is C04's business)
        fname = rn.put(base)
        r, ds, oth = rn.run(fname)
        rn.drop(fname)
        if r.rc != 0 or any(d.tag == "ERROR" for d in ds):
            ev.exclude("base schema not accepted by check-express (%s)" % src["origin"])
            return {"ev": ev.partial(), "fails": [], "triggered": {}}
        ev.bump("bases:" + src["origin"])
        bscan = M.scan(base)
        # which state warnings are in without switches is not part of the statement: faults reported by a WARNING are run
        # under '-w all', which the usage text documents as "enable"
        fname = rn.put(base)
        rw, _d, _o = rn.run(fname, ("-w", "all"))
        rn.drop(fname)
        wall_ok = not (rw.sig or rw.timeout or (rw.rc == 2 and "usage:" in rw.err))
        if not wall_ok:
            fails.append({"sig": "switch:all-not-accepted", "what": "check-express -w all <valid file> -> %s; stderr %s" % (rw.status, rw.err[:200]),
                          "text": base, "expect": [], "switches": ["-w", "all"], "kind": "switch"})
        k = 0
        for tname in sorted(M.TEMPLATES):
            seen = set()
            for insitu in (True, False):
                m = M.make(tname, base, src["rseed"], insitu, sc=bscan)
                if m is None or m["text"] in seen:
                    continue
                seen.add(m["text"])
                k += 1
                by_warning = all(not table.is_error(table.codes[e["code"]]) for e in m["expect"])
                if by_warning and not wall_ok:
                    ev.exclude("fault reported by a WARNING not run: '-w all' is not accepted (reported as switch:all-not-accepted)")
                    continue
                pre = ("-w", "all") if by_warning else ()
                variants = [pre]
                if tier == "thorough" or k % 3 == 0:
                    variants.append(("-B",) + pre)
                for sw in variants:
                    expect = m["expect"]
                    probe_only = tname == "non-ascii-byte"
                    probs, r, diags = run_fault_case(rn, m["text"], [] if probe_only else expect, sw)
                    with_arg = [d for d in diags if d.code and d.code.get("slots")]
                    for d in diags:
                        if d.code:
                            triggered[d.code["name"]] = triggered.get(d.code["name"], 0) + 1
                    classes_ = ["template:" + tname, "flavour:" + m["flavour"], "decl:" + str(m["decl"]).split("-len")[0].split("-of-")[0],
                                "mode:" + ("buffered" if "-B" in sw else "plain")]
                    if probe_only:
                        classes_.append("non-ascii-byte:" + ("diagnosed" if diags else "silently-skipped"))
                    for e in expect:
                        classes_.append("expects:" + e["code"])
                    sample = None
                    if len(ev.samples) < 2 and with_arg:
                        sample = {"template": tname, "expect": expect, "stderr": r.err[:400], "input_tail": m["text"][-300:]}
                    ev.case(common.chash([m["text"], list(sw)]), bool(with_arg), classes=classes_, sample=sample)
                    for sig, det in probs:
                        if sig == "signal":
                            sig = "signal:" + tname
                        fails.append({"sig": sig, "what": "[%s/%s%s] %s" % (tname, m["flavour"], " " + " ".join(sw) if sw else "", det), "text": m["text"],
                                      "expect": [] if probe_only else expect, "switches": list(sw), "kind": "fault", "template": tname})
                    if sw == ("-w", "all") or (not sw and not by_warning):
                        if not probs and not probe_only and not M.TEMPLATES[tname].get("lexical"):
                            # the same input with its imported schemas in files of their own
                            mf = run_multifile_case(rn, m["text"], expect)
                            if mf is not None:
                                mprobs, nfiles = mf
                                ev.case(common.chash([m["text"], "multifile"]), True, classes=["multi-file:%d-files" % nfiles, "template:" + tname])
                                for sig, det in mprobs:
                                    fails.append({"sig": sig, "what": "[%s/%s multi-file] %s" % (tname, m["flavour"], det), "text": m["text"],
                                                  "expect": expect, "switches": ["-w", "all"], "kind": "multifile", "template": tname})
        # switch part
        rnd = random.Random("%s|switch" % src["rseed"])
        settings = switch_settings(table, classes, rnd, tier)
        inputs = []
        ct, cexp = cocktail(base, src["rseed"])
        inputs.append(("cocktail", ct))
        err_t = rnd.choice([t for t in sorted(M.TEMPLATES) if M.TEMPLATES[t]["listed"] and t != "unknown-subtype"])
        ct2, _ = cocktail(base, src["rseed"], extra=err_t)
        inputs.append(("cocktail+" + err_t, ct2))
        if tier == "thorough":
            ct3, _ = cocktail(base, src["rseed"], extra="unknown-subtype")
            inputs.append(("cocktail+unknown-subtype", ct3))
        for label, text in inputs:
            probs, n_named = run_switch_case(rn, table, text, settings, ev.classes)
            ev.evaluations += len(settings) + 2
            for s_, b_ in settings:
                h = common.chash([text, s_, b_])
                if n_named:
                    ev.nontrivial.add(h)
            ev.bump("switch-input:" + label.split("+")[0] + ("+error" if "+" in label else ""), len(settings))
            if len(ev.samples) < 3 and n_named:
                ev.samples.append({"switch-input": label, "named_class_warnings": n_named, "settings": [" ".join(o + " " + c for o, c in s) for s, _b in settings[:5]]})
            for sig, det, args in probs:
                fails.append({"sig": sig, "what": "[%s] %s" % (label, det), "text": text, "expect": [], "switches": args, "kind": "switch"})
        # cocktail's own warnings must quote the generator's names
        probs, r, diags = run_fault_case(rn, ct, cexp, ("-w", "all")) if wall_ok else ([], None, [])
        ev.case(common.chash([ct, "-w all"]), True, classes=["template:warning-cocktail"])
        for d in diags:
            if d.code:
                triggered[d.code["name"]] = triggered.get(d.code["name"], 0) + 1
        for sig, det in probs:
            fails.append({"sig": sig, "what": "[warning cocktail -w all] " + det, "text": ct, "expect": cexp, "switches": ["-w", "all"], "kind": "fault"})
        # unknown class names
        for j in range(2 if tier == "quick" else 6):
            nm = rnd.choice(["zzq_%d" % rnd.randrange(10 ** 6), "zzq" + "x" * rnd.choice([1, 300, 5000]), "zzq-" + rnd.choice(classes or ["x"]),
                             "", " ", "zzq %s" % rnd.choice(classes or ["x"])])
            opt = rnd.choice(["-w", "-i"])
            probs = unknown_class_case(rn, base, nm, opt)
            ev.case(common.chash([base, opt, nm]), True, classes=["unknown-class-name"])
            for sig, det in probs:
                fails.append({"sig": sig, "what": det, "text": base, "expect": [], "switches": [opt, nm], "kind": "unknown-class"})
        return {"ev": ev.partial(), "fails": fails, "triggered": triggered}
    finally:
        sc.close()


# ----------------------------------------------------------------------------------------------------------------

def reoracle(f, want_seen=False):
    """re-run one recorded failing case; -> list of (sig, detail) [, set of diagnostic numbers printed]"""
    table = F.ErrTable()
    sc = F.Scratch("c20_confirm_%d" % os.getpid())
    rn = Runner(table, build.tool("plain", "check-express"), sc)
    try:
        if f["kind"] == "fault":
            probs, _r, _d = run_fault_case(rn, f["text"], f["expect"], tuple(f["switches"]))
        elif f["kind"] == "unknown-class":
            probs = unknown_class_case(rn, f["text"], f["switches"][1], f["switches"][0])
        elif f["kind"] == "multifile":
            mf = run_multifile_case(rn, f["text"], f["expect"])
            probs = mf[0] if mf else []
        else:
            args = f["switches"]
            buffered = bool(args and args[0] == "-B")
            rest = args[1:] if buffered else args
            setting = [(rest[i], rest[i + 1]) for i in range(0, len(rest) - 1, 2)]
            if not setting:
                setting = [("-w", "all")]
            probs, _n = run_switch_case(rn, table, f["text"], [(setting, buffered)], {})
            probs = [(s, d) for s, d, _a in probs]
        return (probs, set(rn.seen)) if want_seen else probs
    finally:
        sc.close()


def main(tier, seed):
    build.ensure("plain")
    ev = common.Evidence(PROP, LEVEL, tier, seed, RULE)
    findings = common.Findings(os.environ.get("VERIF_FINDINGS"))
    table = F.ErrTable()
    exe = build.tool("plain", "check-express")
    sc0 = F.Scratch("c20_main")
    classes, ur = parse_usage_classes(exe, sc0.root)
    rc = 0
    fails = []
    if classes is None:
        classes = list(table.classes)
        ev.assumptions.append("usage text could not be parsed; class names taken from LibErrors[]")
    ev.extra["warning_classes_in_usage"] = classes
    if sorted(classes) != sorted(table.classes):
        ev.inconclusive.append("usage text lists %s, LibErrors[] names %s" % (classes, table.classes))
    # FILE_UNREADABLE probe: generator-chosen missing file
    miss = "zzq_%d.exp" % common.sub_seed(seed, "missing")
    r = F.run_tool(exe, [miss], cwd=sc0.root, timeout=20)
    ds, _o = F.parse_stderr(table, r.err, miss)
    ev.case(common.chash(["missing", miss]), True, classes=["template:missing-input-file"])
    if r.sig or not any(d.code and d.code["name"] == "FILE_UNREADABLE" and d.fmt_ok and d.args[0] == miss for d in ds):
        fails.append({"sig": "arg-mismatch:FILE_UNREADABLE", "what": "missing input %s -> %s, stderr %s" % (miss, r.status, r.err[:200]),
                      "text": "", "expect": [], "switches": [], "kind": "usage"})
    # incidental, not part of the statement: invocation without any argument
    r = F.run_tool(exe, [], cwd=sc0.root, timeout=20)
    ev.bump("no-argument-invocation:" + ("signal" if r.sig else "exit-%s" % r.rc))
    sc0.close()

    n = 390 if tier == "quick" else 700
    srcs = M.sources(common.sub_seed(seed, PROP, "schemas"), n, {"expgen": {"max_ent": 8, "max_typ": 6}})
    for p in M.shipped(common.REPO, "unitary"):
        try:
            t = open(p, encoding="latin-1").read()
        except OSError:
            continue
        srcs.append({"text": t, "origin": "unitary", "tags": [os.path.basename(p)], "rseed": common.sub_seed(seed, PROP, os.path.basename(p))})
    ev.extra["schema_source"] = sorted(set(s["origin"] for s in srcs))
    args = [(i, s, tier, seed, classes) for i, s in enumerate(srcs)]
    results = common.pmap(common.guarded(work_base), args)
    triggered = {"FILE_UNREADABLE": sum(1 for d in ds if d.code and d.code["name"] == "FILE_UNREADABLE")}
    for status, res in results:
        if status != "ok":
            print("machinery error in a C20 worker:\n" + res)
            rc = 3
            continue
        ev.merge(res["ev"])
        fails += res["fails"]
        for k, v in res["triggered"].items():
            triggered[k] = triggered.get(k, 0) + v

    # diagnostics table for the evidence
    diag_tab = {}
    for name, c in sorted(table.codes.items(), key=lambda kv: kv[1]["num"]):
        if c["fmt"] is None:
            continue
        carries = bool(c["slots"])
        ent = {"number": c["num"], "severity": c["severity"], "carries_argument": carries, "class": c["cls"], "printed_in_this_run": triggered.get(name, 0)}
        if not triggered.get(name) and (carries or name in UNREACHED):
            ent["not_triggered_because"] = UNREACHED.get(name, "no template")
        diag_tab[name] = ent
    ev.extra["diagnostics"] = diag_tab
    ev.extra["argument_carrying_triggered"] = sum(1 for e in diag_tab.values() if e["carries_argument"] and e["printed_in_this_run"])
    ev.extra["argument_carrying_total"] = sum(1 for e in diag_tab.values() if e["carries_argument"])

    # verdicts
    by_sig = {}
    for f in fails:
        by_sig.setdefault(f["sig"], []).append(f)
    reported = 0
    for sig in sorted(by_sig):
        fs = sorted(by_sig[sig], key=lambda f: len(f["text"]))
        k = findings.match(PROP, sig)
        if k:
            ev.known_hit(k["id"], len(fs))
            continue
        if reported >= 12:
            # enough to act on: the remaining signatures are counted, not minimised
            ev.violations += 1
            ev.bump("violations-not-minimised")
            rc = max(rc, 1)
            continue
        reported += 1
        f = fs[0]
        if f["kind"] in ("fault", "switch") and f["text"]:
            _p0, seen0 = reoracle(f, True)

            def still(t, f=f, sig=sig, seen0=seen0):
                # the same failure, and no diagnostic (e.g. a syntax error) that the original input did not produce
                g = dict(f)
                g["text"] = t
                pr, seen = reoracle(g, True)
                return any(s == sig.split(":")[0] if sig.startswith("signal:") else s == sig for s, _d in pr) and seen <= seen0
            try:
                f = dict(f)
                f["text"] = F.minimise_decls(f["text"], still)
            except Exception as e:       # minimisation is best effort
                ev.inconclusive.append("minimisation failed: %s" % e)
        rsig = "signal" if sig.startswith("signal:") else sig
        confirmed = f["kind"] == "usage" or all(any(s == rsig for s, _d in reoracle(f)) for _ in range(3))
        if not confirmed:
            ev.inconclusive.append("failure did not reproduce 3x: %s %s" % (sig, f["what"][:200]))
            continue
        probs = reoracle(f) if f["kind"] != "usage" else [(sig, f["what"])]
        det = "; ".join(d for s, d in probs if s == rsig)[:1500] or f["what"]
        d = common.save_replay(PROP, {"input.exp": f["text"].encode("latin-1"),
                                      "case.json": json.dumps({"expect": f["expect"], "switches": f["switches"], "kind": f["kind"], "sig": rsig})},
                               {"property": PROP, "sig": sig, "what": det, "seed": seed, "tier": tier, "occurrences": len(fs)})
        ev.violations += 1
        common.print_violation(PROP, d, "%s (%d cases): %s" % (sig, len(fs), det))
        rc = max(rc, 1)
    for fid in ev.known:
        e = [x for x in findings.entries if x.get("id") == fid]
        common.print_known(PROP, e[0]["what"] if e else fid)
    min_cases = 20000 if tier == "quick" else 120000
    if ev.evaluations < min_cases and rc == 0:
        print("machinery failure: only %d cases executed" % ev.evaluations)
        rc = 3
    ev.write()
    print("%s %s: %d bases, %d cases, %d distinct non-trivial, %d violations, known=%s, %d/%d argument-carrying diagnostics triggered, %.0fs"
          % (PROP, tier, len(srcs), ev.evaluations, len(ev.nontrivial), ev.violations, ev.known, ev.extra["argument_carrying_triggered"],
             ev.extra["argument_carrying_total"], __import__("time").time() - ev.t0))
    return rc


def replay(path):
    build.ensure("plain")
    c = json.load(open(os.path.join(path, "case.json")))
    c["text"] = open(os.path.join(path, "input.exp"), "rb").read().decode("latin-1")
    if c["kind"] == "usage":
        exe = build.tool("plain", "check-express")
        sc = F.Scratch("c20_replay")
        cl, r = parse_usage_classes(exe, sc.root)
        sc.close()
        if cl is None:
            common.print_violation(PROP, path, "usage run: %s" % r.status)
            return 1
        print("replay passes")
        return 0
    probs = [(s, d) for s, d in reoracle(c) if s == c["sig"]] or reoracle(c)
    if probs:
        common.print_violation(PROP, path, "; ".join("%s: %s" % p for p in probs[:4]))
        return 1
    print("replay passes")
    return 0
