"""Language-profile EXPRESS generator (DESIGN.md 2.2): Hypothesis strategies producing valid-by-construction EXPRESS
source with everything the *front ends* see.

    schemas(cfg) -> strategy of {"text": str, "model": {...}, "tags": [...], "ast": [...]}

cfg keys (all optional):
    avoid        set of construct names NOT to generate (see AVOIDABLE) - used by checks to exclude the shape of a
                 known finding by construction
    max_schemas  1..3 (default 3)           size     0 small .. 2 large (default 1)
    remarks      sprinkle remarks (default True)
    fast         one Hypothesis draw per file seeds a random.Random for all other choices (no shrinking; see G.__init__)

Validity (what ISO 10303-11 demands AND what this front end accepts; calibrated against check-express):
  * every identifier is declared; names are unique per file (no shadowing), never a reserved word
  * expressions are type directed: numeric / logical / string / binary / aggregate / entity / enumeration classes,
    operators only on operand classes clause 12 defines them for; qualifiers only on qualifiable factors
    (identifier, SELF, function call); `**` and relational operators never chained; unary operators only on primaries
  * ESCAPE / SKIP only inside REPEAT; RETURN(expr) only in functions, RETURN; only in procedures
  * domain rules of TYPEs and ENTITYs mention SELF or an attribute
  * front-end limitations avoided (not ISO restrictions): enumeration items of a REFERENCEd type are not visible;
    the variable of an ALIAS statement has no type (no indexing / attribute access on it); integers fit in 31 bits;
    the domain rules of a TYPE imported by another schema are resolved in the importing schema (so imported types
    have no WHERE clause here); a null statement cannot be a case action; the lower index of [i:j] is never resolved;
    tail remarks after ';' are shorter than 100 characters; nesting depth of scopes < 20
All structural choices are Hypothesis draws; the layout (white space, remarks, letter case) is derived from one drawn
integer per file through random.Random (see explang_render.layout).
"""
from hypothesis import strategies as st

import explang_render as R
from exptok import KEYWORDS

AVOIDABLE = [
    "where-unlabelled",      # WHERE rule without a label (entity, type, rule)
    "str-quote",             # string literal containing an apostrophe ('')
    "lit-bin",               # binary literal
    "const-e",               # CONST_E
    "real-integral",         # real literal whose value is integral and < 1e15 (e.g. 1500.0, 1.5E3)
    "real-zero",             # real literal 0.0
    "real-long",             # real literal with more than 15 significant digits
    "case-multi-label",      # case action with more than one label
    "proc-no-params",        # procedure declared without formal parameters
    "pcall-no-args",         # procedure call without an actual parameter list
    "func-no-params",        # function declared without formal parameters (its calls have no parameter list)
    "alias",                 # ALIAS statement
    "agg-rep-01",            # aggregate initialiser repetition whose count is the literal 0 or 1
    "agg-rep-expr",          # aggregate initialiser repetition whose count is not a literal
    "case-label-op",         # case label that is an operator expression (e.g. -1, a + 1)
    "same-op-right",         # a op (b op c) with explicit parentheses, op in + * AND OR XOR || =
    "super-mixed",           # supertype expression mixing AND and ANDOR without parentheses
    "rename-type",           # USE FROM s (x AS y) where y is then used as a type
    "multi-schema",          # more than one schema in the file
    "null-stmt",             # null statement
    "unary-plus",            # unary +
    "interval",              # interval expression
    "opt-unique",            # ARRAY OF OPTIONAL UNIQUE
    "long-string",           # string literal longer than 60 characters
    "remarks",               # any remark
    "int-leading-zero",      # integer literal with leading zeros
    "nested-alg",            # function / procedure / type declared inside an algorithm
    "unique-unlabelled",     # UNIQUE rule without label
    "redecl",                # redeclared attributes
    "generic",               # GENERIC / AGGREGATE OF parameter types
    "local-group",           # LOCAL a, b : T := init;  (several variables in one declaration with an initialiser)
    "index-binary",          # b[i:j] on a BINARY (front end warns "unsupported")
    "width",                 # STRING(n) / BINARY(n) / REAL(n)
    "entity-where-inherited",  # domain rule using only inherited attributes
]

SYL = ["ba", "co", "di", "fu", "ga", "he", "jo", "ka", "lu", "mi", "no", "pe", "qua", "ri", "so", "tu", "ve", "wa", "xi", "yo", "ze",
       "an", "el", "in", "or", "ur", "st", "th", "ng"]
KWISH = ["end_", "self_", "in_", "of_", "e", "pi_", "type_", "not_", "andor_", "x_", "where_", "begin_"]

NUM_FUNCS_REAL = ["SIN", "COS", "TAN", "ASIN", "ACOS", "EXP", "LOG", "LOG2", "LOG10", "SQRT"]


class Namer:
    def __init__(self, g):
        self.g = g
        self.used = set()
        self.n = 0

    def fresh(self, hint=""):
        """one Hypothesis draw per name (names are the most frequent choice; the drawn integer is decoded)"""
        g = self.g
        for _ in range(6):
            r = g.i(0, (1 << 24) - 1)
            k = r % 10
            r //= 10
            if k == 0:
                base = KWISH[r % len(KWISH)] + SYL[(r // 16) % len(SYL)]
            elif k == 1:
                base = "abcdefghijklmnopqrstuvwxyz"[r % 26]
            else:
                n = 1 + (r % 4)
                r //= 4
                base = ""
                for _j in range(n):
                    base += SYL[r % len(SYL)]
                    r //= len(SYL)
            r //= 1024
            if r % 10 < 3:
                base += ["_1", "2", "_x", "_long_suffix_part", "0", "_a_b"][(r // 10) % 6]
            if hint and (r // 64) % 4 == 0:
                base = hint + "_" + base
            if base.upper() in KEYWORDS or base in self.used or not base[0].isalpha():
                continue
            self.used.add(base)
            return base
        while True:
            self.n += 1
            base = "%s_n%d" % (hint or "gen", self.n)
            if base not in self.used:
                self.used.add(base)
                return base


# model types: ('simple', NAME, width_ast|None, fixed) ('ref', name) ('agg', KIND, lo, hi, opt, uniq, base)
#              ('generic', label) ('aggregate', label, base)
T_INT = ("simple", "INTEGER", None, False)
T_REAL = ("simple", "REAL", None, False)
T_NUM = ("simple", "NUMBER", None, False)
T_BOOL = ("simple", "BOOLEAN", None, False)
T_LOG = ("simple", "LOGICAL", None, False)
T_STR = ("simple", "STRING", None, False)
T_BIN = ("simple", "BINARY", None, False)


def lit_int(n):
    return ("int", str(n))


class SchemaCtx:
    """what is visible inside one schema"""

    def __init__(self, name):
        self.name = name
        self.types = {}        # name -> ('defined', T) | ('enum', [items]) | ('select', [names])
        self.type_order = []
        self.entities = {}     # name -> dict(supers, subs, attrs[(name, T, kind)], explicit[(name,T)])
        self.entity_order = []
        self.functions = []    # (name, [(var, pname, T)], ret)
        self.procedures = []
        self.constants = []    # (name, T)
        self.aliases = {}      # local alias -> (kind, original)
        self.where_types = set()   # types with domain rules
        self.imported = set()      # local names that came in through USE / REFERENCE


class Env:
    def __init__(self, sc, kind):
        self.sc = sc
        self.kind = kind            # const | type | entity | function | procedure | rule
        self.vars = []              # (name, T, assignable)
        self.self_entity = None
        self.self_type = None
        self.in_repeat = False
        self.funcs = []             # nested functions visible here
        self.procs = []
        self.ret = None
        self.noindex = set()        # names of ALIAS variables (untyped for this front end)

    def child(self):
        e = Env(self.sc, self.kind)
        e.vars = list(self.vars)
        e.self_entity, e.self_type, e.in_repeat = self.self_entity, self.self_type, self.in_repeat
        e.funcs, e.procs, e.ret = list(self.funcs), list(self.procs), self.ret
        e.noindex = set(self.noindex)
        return e


class G:
    def __init__(self, draw, cfg):
        self.draw = draw
        self.cfg = cfg
        self.avoid = set(cfg.get("avoid", ()))
        self.size = cfg.get("size", 1)
        self.names = Namer(self)
        self.tags = set()
        self.budget = 0
        # cfg["fast"]: ONE Hypothesis draw (a 63 bit integer) per file seeds a random.Random that makes all further
        # choices.  ~15x faster and every example is independent of the previous one (the engine's mutation step
        # otherwise produces families of near-identical files), at the price of Hypothesis shrinking - for bulk
        # exploration with an own minimiser (C07).  Default: every choice is a Hypothesis draw.
        self.rnd = None
        if cfg.get("fast"):
            import random
            self.rnd = random.Random(draw(st.integers(0, 2 ** 63 - 1)))

    # ---- primitive draws
    def i(self, lo, hi):
        if self.rnd is not None:
            return self.rnd.randint(lo, hi)
        return self.draw(st.integers(lo, hi))

    def p(self, pct):
        return self.i(0, 99) < pct

    def pick(self, seq):
        return seq[self.i(0, len(seq) - 1)]

    def ok(self, feature):
        return feature not in self.avoid

    def tag(self, t):
        self.tags.add(t)

    # ---- type helpers
    def resolve(self, sc, t):
        """-> class: 'int' 'real' 'num' 'log' 'str' 'bin' ('agg', elemT, KIND) ('ent', name) ('enum', tname) ('select', tname) 'generic'"""
        k = t[0]
        if k == "simple":
            return {"INTEGER": "int", "REAL": "real", "NUMBER": "num", "BOOLEAN": "log", "LOGICAL": "log", "STRING": "str", "BINARY": "bin"}[t[1]]
        if k == "agg":
            return ("agg", t[6], t[1])
        if k == "aggregate":
            return ("agg", t[2], "AGGREGATE")
        if k == "generic":
            return "generic"
        if k == "ref":
            n = t[1]
            if n in sc.entities:
                return ("ent", n)
            d = sc.types[n]
            if d[0] == "defined":
                return self.resolve(sc, d[1])
            if d[0] == "enum":
                return ("enum", n)
            return ("select", n)
        raise AssertionError(t)

    def all_attrs(self, sc, ent, seen=None):
        """attributes visible on an instance of ent (own + inherited), [(name, T)]"""
        seen = seen if seen is not None else set()
        if ent in seen:
            return []
        seen.add(ent)
        out = []
        e = sc.entities[ent]
        for s in e["supers"]:
            out += self.all_attrs(sc, s, seen)
        names = set(n for n, _ in out)
        for n, t in e["attrs"]:
            if n not in names:
                out.append((n, t))
        return out

    def supers_closure(self, sc, ent):
        out, todo = [], list(sc.entities[ent]["supers"])
        while todo:
            s = todo.pop(0)
            if s not in out:
                out.append(s)
                todo += sc.entities[s]["supers"]
        return out

    # ---- literals
    def gen_int_lit(self):
        self.tag("lit:int")
        k = self.i(0, 9)
        if k < 5:
            n = self.i(0, 9)
        elif k < 8:
            n = self.i(10, 10000)
        else:
            n = self.i(10001, 2147483647)
        s = str(n)
        if self.ok("int-leading-zero") and self.p(4):
            s = "00" + s
            self.tag("lit:int-leading-zero")
        return ("int", s)

    def gen_real_lit(self):
        self.tag("lit:real")
        k = self.i(0, 9)
        if k == 0 and self.ok("real-zero"):
            self.tag("lit:real-zero")
            return ("real", self.pick(["0.0", "0.", "0.0E0"]))
        if k <= 2 and self.ok("real-integral"):
            self.tag("lit:real-integral")
            return ("real", self.pick(["1.0", "2.", "1500.0", "1.5E3", "10.0", "1.E2", "25.0e+1", "100000.0"]))
        if k == 3 and self.ok("real-long"):
            self.tag("lit:real-long")
            return ("real", self.pick(["0.12345678901234567", "3.141592653589793238", "1.0000000000000002"]))
        ip = self.i(0, 999)
        fp = self.i(1, 99999)
        while fp % 10 == 0:
            fp //= 10
        s = "%d.%d" % (ip, fp)
        if self.p(35):
            self.tag("lit:real-exp")
            ex = self.i(-30, 30)
            if ex >= 0 and len(str(fp)) <= ex and not self.ok("real-integral"):
                ex = -ex - 1
            s += self.pick(["E", "e"]) + self.pick(["", "+", ""] if ex >= 0 else [""]) + str(ex)
        return ("real", s)

    STR_ALPHA = "abcdefghijklmnopqrstuvwxyzABCXYZ0123456789 .,;:-_()[]{}<>=+*/\\|!?#$%&@^~`\""

    def gen_str_lit(self, short=False):
        self.tag("lit:str")
        k = self.i(0, 19)
        if k == 0:
            return ("str", "")
        if k <= 2 and not short:
            # schema-qualified names as used with TYPEOF / USEDIN
            return ("str", self.pick(["A_SCHEMA.SOME_ENTITY", "X.Y", "GEOMETRY_SCHEMA.CARTESIAN_POINT.COORDINATES"]))
        if k <= 5 and not short and self.ok("long-string"):
            # long: sentences with dots (the printer breaks after '.'), longer than most line lengths
            n = self.i(3, 14)
            words = []
            for _ in range(n):
                w = "".join(self.pick(SYL) for _ in range(self.i(1, 5)))
                words.append(w + self.pick([".", ". ", " ", ".", ", ", ".."]))
            s = "".join(words)
            if self.ok("str-quote") and self.p(25):
                pos = self.i(0, len(s))
                s = s[:pos] + "'" + s[pos:]
                self.tag("lit:str-quote")
            if len(s) > 60:
                self.tag("long-string")
            return ("str", s)
        n = self.i(1, 12)
        chars = [self.pick(self.STR_ALPHA) for _ in range(n)]
        if self.ok("str-quote") and self.p(20):
            chars[self.i(0, n - 1)] = "'"
            self.tag("lit:str-quote")
        return ("str", "".join(chars))

    def gen_estr_lit(self):
        self.tag("lit:estr")
        n = self.i(1, 3)
        return ("estr", "".join("000000" + self.pick(["C5", "41", "E9", "7A"]) if self.p(70) else "0000" + self.pick(["03A9", "20AC"]) for _ in range(n)))

    def gen_bin_lit(self):
        self.tag("lit:bin")
        return ("bin", "".join(self.pick("01") for _ in range(self.i(1, 12))))

    # ---- references
    def refs(self, env, depth=2):
        """[(ast, T)] reference expressions available in env (variables, attributes, paths)"""
        sc = env.sc
        base = []
        for n, t, _ in env.vars:
            base.append((("id", n), t))
        for n, t in sc.constants:
            base.append((("id", n), t))
        if env.self_entity:
            for n, t in self.all_attrs(sc, env.self_entity):
                base.append((("id", n), t))
                if len(base) < 40:
                    base.append((("dot", ("const", "SELF"), n), t))
            for s in self.supers_closure(sc, env.self_entity)[:2]:
                for n, t in self.all_attrs(sc, s)[:3]:
                    base.append((("dot", ("grp", ("const", "SELF"), s), n), t))
        out = list(base)
        frontier = base
        for _ in range(depth):
            nxt = []
            for ast, t in frontier:
                if len(out) + len(nxt) > 80:
                    break
                if ast[0] == "id" and ast[1] in env.noindex:
                    continue
                c = self.resolve(sc, t)
                if isinstance(c, tuple) and c[0] == "ent":
                    for n, at in self.all_attrs(sc, c[1])[:4]:
                        nxt.append((("dot", ast, n), at))
                    sups = self.supers_closure(sc, c[1])
                    if sups:
                        s = sups[0]
                        for n, at in self.all_attrs(sc, s)[:1]:
                            nxt.append((("dot", ("grp", ast, s), n), at))
                elif isinstance(c, tuple) and c[0] == "agg" and c[2] != "AGGREGATE":
                    nxt.append((("idx", ast, None), c[1]))
            out += nxt
            frontier = nxt
        return out

    def fill_index(self, env, ast, d):
        """replace None index placeholders by integer expressions"""
        k = ast[0]
        if k == "idx":
            i = self.gen_num(env, d + 2, want="int") if ast[2] is None else ast[2]
            self.tag("index")
            return ("idx", self.fill_index(env, ast[1], d), i)
        if k == "dot":
            self.tag("attr-qual")
            return ("dot", self.fill_index(env, ast[1], d), ast[2])
        if k == "grp":
            self.tag("group-qual")
            return ("grp", self.fill_index(env, ast[1], d), ast[2])
        if k == "const" and ast[1] == "SELF":
            self.tag("const:SELF")
        return ast

    def ref_of(self, env, pred, d):
        cands = [(a, t) for a, t in self.refs(env) if pred(self.resolve(env.sc, t))]
        if not cands:
            return None
        a, t = self.pick(cands)
        return self.fill_index(env, a, d), t

    # ---- expressions by class
    def maybe_paren(self, e):
        if self.p(6) and e[0] in ("op", "id", "int", "call"):
            self.tag("redundant-paren")
            return ("paren", e)
        return e

    SAME_OP_SENSITIVE = ("+", "*", "AND", "OR", "XOR", "||", "=")

    @staticmethod
    def strip(e):
        while e[0] == "paren":
            e = e[1]
        return e

    def binop(self, op, l, r):
        """l op r.  `a op (b op c)` with op in SAME_OP_SENSITIVE is the shape "same-op-right"; when that shape is to be
        avoided the expression is re-associated at generation time (same operator, same operand class: still typed)."""
        if op in self.SAME_OP_SENSITIVE:
            rs, ls = self.strip(r), self.strip(l)
            if op == "=" and ((rs[0] == "op" and rs[1] == "=") or (ls[0] == "op" and ls[1] == "=")):
                if self.ok("same-op-right"):
                    self.tag("same-op-right")
                else:
                    op = "<>"
            elif rs[0] == "op" and rs[1] == op:
                if self.ok("same-op-right"):
                    self.tag("same-op-right")
                else:
                    return self.binop(op, self.binop(op, l, rs[2]), rs[3])
            elif op == "AND" and rs[0] == "interval":
                # an interval is (low op item) AND (item op high) for this front end: same shape
                if self.ok("same-op-right"):
                    self.tag("same-op-right")
                elif ls[0] != "interval":
                    return self.binop(op, r, l)
                else:
                    r = ("un", "NOT", ("paren", r))
        self.tag("op:" + op)
        return ("op", op, l, r)

    def gen_num(self, env, d, want="num"):
        """numeric expression; want 'int' -> INTEGER valued, 'real' / 'num' -> any numeric"""
        if d >= 4 or self.p(25 + 12 * d):
            return self.num_leaf(env, d, want)
        k = self.i(0, 11)
        if want == "int":
            ops = ["+", "-", "*", "DIV", "MOD", "**"]
        else:
            ops = ["+", "-", "*", "/", "**", "+", "-", "*", "DIV", "MOD"]
        if k <= 7:
            op = self.pick(ops)
            sub = "int" if op in ("DIV", "MOD") or want == "int" else want
            l = self.gen_num(env, d + 1, sub)
            r = self.gen_num(env, d + 1, sub)
            return self.maybe_paren(self.binop(op, l, r))
        if k == 8:
            op = "-" if not self.ok("unary-plus") or self.p(70) else "+"
            self.tag("un:" + op)
            x = self.gen_num(env, d + 1, want)
            return ("un", op, x)
        if k == 9:
            self.tag("call-builtin:ABS")
            return ("call", "ABS", [self.gen_num(env, d + 1, want)])
        if k == 10 and want != "int":
            f = self.pick(NUM_FUNCS_REAL + ["ATAN"])
            self.tag("call-builtin:" + f)
            args = [self.gen_num(env, d + 1, "num")]
            if f == "ATAN":
                args.append(self.gen_num(env, d + 1, "num"))
            return ("call", f, args)
        return self.num_leaf(env, d, want)

    def num_leaf(self, env, d, want):
        k = self.i(0, 9)
        if k <= 2:
            if want == "int":
                pred = lambda c: c == "int"
            else:
                pred = lambda c: c in ("int", "real", "num")
            r = self.ref_of(env, pred, d)
            if r:
                return r[0]
        if k == 3 and d < 4:
            r = self.ref_of(env, lambda c: isinstance(c, tuple) and c[0] == "agg", d)
            if r:
                f = self.pick(["SIZEOF", "HIINDEX", "LOINDEX", "HIBOUND", "LOBOUND"])
                self.tag("call-builtin:" + f)
                return ("call", f, [r[0]])
        if k == 4 and d < 4:
            r = self.ref_of(env, lambda c: c == "str", d)
            if r:
                self.tag("call-builtin:LENGTH")
                return ("call", "LENGTH", [r[0]])
        if k == 5 and d < 3:
            fs = [f for f in env.funcs + env.sc.functions if self.resolve(env.sc, f[2]) in (("int",) if want == "int" else ("int", "real", "num"))]
            if fs:
                return self.user_call(env, self.pick(fs), d)
        if k == 6 and want != "int":
            if self.ok("const-e") and self.p(50):
                self.tag("const:CONST_E")
                return ("const", "CONST_E")
            self.tag("const:PI")
            return ("const", "PI")
        if k == 7 and d < 3:
            r = self.ref_of(env, lambda c: c == "bin", d)
            if r:
                self.tag("call-builtin:BLENGTH")
                return ("call", "BLENGTH", [r[0]])
        if want != "int" and self.p(50):
            return self.gen_real_lit()
        return self.gen_int_lit()

    def user_call(self, env, f, d):
        name, params, ret = f
        self.tag("call-user")
        if not params:
            return ("call", name, None)
        return ("call", name, [self.gen_for(env, t, d + 1) for _, _, t in params])

    def gen_log(self, env, d):
        if d >= 4 or self.p(15 + 12 * d):
            return self.log_leaf(env, d)
        k = self.i(0, 19)
        if k <= 5:
            op = self.pick(["AND", "OR", "XOR", "AND", "OR"])
            return self.maybe_paren(self.binop(op, self.gen_log(env, d + 1), self.gen_log(env, d + 1)))
        if k == 6:
            self.tag("un:NOT")
            return ("un", "NOT", self.gen_log(env, d + 1))
        if k <= 10:
            op = self.pick(["=", "<>", "<", ">", "<=", ">="])
            cls = self.pick(["num", "num", "str", "int", "log", "enum", "bin"])
            if cls == "log":
                return self.binop(op, self.gen_log(env, d + 1), self.gen_log(env, d + 1))
            if cls == "str":
                return self.binop(op, self.gen_str(env, d + 1), self.gen_str(env, d + 1))
            if cls == "bin":
                b1 = self.gen_bin(env, d + 1)
                if b1 is not None:
                    return self.binop(op, b1, self.gen_bin(env, d + 1))
                cls = "num"
            if cls == "enum":
                r = self.ref_of(env, lambda c: isinstance(c, tuple) and c[0] == "enum", d)
                if r:
                    tn = self.resolve(env.sc, r[1])[1]
                    return self.binop(self.pick(["=", "<>"]), r[0], self.gen_enum(env, tn, d + 1))
                cls = "num"
            return self.binop(op, self.gen_num(env, d + 1, cls), self.gen_num(env, d + 1, cls))
        if k == 11:
            # instance comparison
            r = self.ref_of(env, lambda c: isinstance(c, tuple) and c[0] == "ent", d)
            if r:
                ent = self.resolve(env.sc, r[1])[1]
                return self.binop(self.pick([":=:", ":<>:"]), r[0], self.gen_ent(env, ent, d + 1))
            return self.log_leaf(env, d)
        if k == 12:
            # membership
            r = self.ref_of(env, lambda c: isinstance(c, tuple) and c[0] == "agg" and c[2] != "AGGREGATE", d)
            if r:
                et = self.resolve(env.sc, r[1])[1]
                return self.binop("IN", self.gen_for(env, et, d + 1), r[0])
            return self.binop("IN", self.gen_str(env, d + 1), ("call", "TYPEOF", [self.any_ref(env, d)]))
        if k == 13:
            return self.binop("LIKE", self.gen_str(env, d + 1), ("str", self.pick(["a?b", "\\A*", "@@#", "x&y", "!a$"])))
        if k == 14 and self.ok("interval"):
            self.tag("interval")
            w = self.pick(["int", "num"])
            return ("interval", self.gen_num(env, d + 2, w), self.pick(["<", "<="]), self.gen_num(env, d + 2, w), self.pick(["<", "<="]),
                    self.gen_num(env, d + 2, w))
        if k == 15:
            f = self.pick(["EXISTS", "EXISTS", "ODD", "VALUE_UNIQUE", "VALUE_IN"])
            if f == "ODD":
                self.tag("call-builtin:ODD")
                return ("call", "ODD", [self.gen_num(env, d + 1, "int")])
            if f in ("VALUE_UNIQUE", "VALUE_IN"):
                r = self.ref_of(env, lambda c: isinstance(c, tuple) and c[0] == "agg" and c[2] != "AGGREGATE", d)
                if r:
                    self.tag("call-builtin:" + f)
                    if f == "VALUE_UNIQUE":
                        return ("call", f, [r[0]])
                    return ("call", f, [r[0], self.gen_for(env, self.resolve(env.sc, r[1])[1], d + 1)])
            self.tag("call-builtin:EXISTS")
            return ("call", "EXISTS", [self.any_ref(env, d)])
        if k == 16:
            # aggregate comparison / subset
            r = self.ref_of(env, lambda c: isinstance(c, tuple) and c[0] == "agg" and c[2] in ("SET", "BAG"), d)
            if r:
                c = self.resolve(env.sc, r[1])
                return self.binop(self.pick(["<=", ">=", "=", "<>"]), r[0], self.gen_agg(env, c[1], d + 1, c[2]))
            return self.log_leaf(env, d)
        if k == 17:
            return self.binop(">", ("call", "SIZEOF", [self.gen_query(env, d + 1)]), lit_int(self.i(0, 3)))
        if k == 18 and d < 3:
            fs = [f for f in env.funcs + env.sc.functions if self.resolve(env.sc, f[2]) == "log"]
            if fs:
                return self.user_call(env, self.pick(fs), d)
        return self.log_leaf(env, d)

    def log_leaf(self, env, d):
        k = self.i(0, 5)
        if k <= 2:
            r = self.ref_of(env, lambda c: c == "log", d)
            if r:
                return r[0]
        if k == 3 and d < 5:
            return self.binop(self.pick(["<", ">", "=", "<=", ">=", "<>"]), self.num_leaf(env, 4, "num"), self.num_leaf(env, 4, "num"))
        self.tag("lit:log")
        return ("log", self.pick(["TRUE", "FALSE", "UNKNOWN"]))

    def any_ref(self, env, d):
        rs = self.refs(env, 1)
        if rs:
            a, _ = self.pick(rs)
            return self.fill_index(env, a, d)
        if env.self_entity or env.self_type:
            self.tag("const:SELF")
            return ("const", "SELF")
        return self.gen_int_lit()

    def gen_query(self, env, d):
        """QUERY(v <* source | condition) -> aggregate"""
        self.tag("query")
        r = self.ref_of(env, lambda c: isinstance(c, tuple) and c[0] == "agg" and c[2] != "AGGREGATE", d)
        if r:
            src, et = r[0], self.resolve(env.sc, r[1])[1]
        else:
            et = T_INT
            src = self.gen_agg(env, T_INT, d + 1, "LIST")
            if src[0] not in ("agg", "id"):
                src = ("agg", [(self.gen_int_lit(), None)])
        v = self.names.fresh("q")
        e2 = env.child()
        e2.vars.append((v, et, False))
        cond = self.gen_log(e2, d + 1)
        if not self.mentions(cond, v) and self.p(80):
            c = self.resolve(env.sc, et)
            if c in ("int", "real", "num"):
                first = ("paren", self.binop(">", ("id", v), self.gen_int_lit()))
            else:
                self.tag("call-builtin:EXISTS")
                first = ("call", "EXISTS", [("id", v)])
            cond = self.binop("AND", first, cond if R.row(cond) <= 4 else ("paren", cond))
        return ("query", v, src, cond)

    def mentions(self, e, name):
        if isinstance(e, tuple):
            if e and e[0] == "id" and e[1] == name:
                return True
            if e and e[0] == "agg":
                return any(self.mentions(a, name) or self.mentions(r, name) for a, r in e[1])
            return any(self.mentions(x, name) for x in e[1:])
        if isinstance(e, list):
            return any(self.mentions(x, name) for x in e)
        return False

    def gen_str(self, env, d):
        if d >= 4 or self.p(40 + 10 * d):
            return self.str_leaf(env, d)
        k = self.i(0, 5)
        if k <= 2:
            return self.maybe_paren(self.binop("+", self.gen_str(env, d + 1), self.gen_str(env, d + 1)))
        if k == 3:
            r = self.ref_of(env, lambda c: c == "str", d)
            if r and r[0][0] in ("id", "dot"):
                if self.p(50):
                    self.tag("index-range")
                    return ("rng", r[0], self.gen_num(env, d + 2, "int"), self.gen_num(env, d + 2, "int"))
                self.tag("index")
                return ("idx", r[0], self.gen_num(env, d + 2, "int"))
        if k == 4:
            self.tag("call-builtin:FORMAT")
            return ("call", "FORMAT", [self.gen_num(env, d + 1, "num"), ("str", self.pick(["+7I", "10.3E", "#", "3.1F"]))])
        if k == 5:
            self.tag("call-builtin:NVL")
            return ("call", "NVL", [self.gen_str(env, d + 1), self.gen_str(env, d + 1)])
        return self.str_leaf(env, d)

    def str_leaf(self, env, d):
        k = self.i(0, 5)
        if k <= 1:
            r = self.ref_of(env, lambda c: c == "str", d)
            if r:
                return r[0]
        if k == 2 and self.p(50):
            return self.gen_estr_lit()
        return self.gen_str_lit(short=(d > 2 and self.p(50)))

    def gen_bin(self, env, d):
        """binary valued expression, or None when there is neither a BINARY variable nor permission for literals"""
        r = self.ref_of(env, lambda c: c == "bin", d)
        if r is None and not self.ok("lit-bin"):
            return None
        if d < 3 and self.p(25):
            return self.binop("+", self.gen_bin(env, d + 1), self.gen_bin(env, d + 1))
        if r and self.p(60):
            if self.ok("index-binary") and self.p(20) and r[0][0] in ("id", "dot"):
                self.tag("index-range")
                return ("rng", r[0], self.gen_int_lit(), self.gen_int_lit())
            return r[0]
        if self.ok("lit-bin"):
            return self.gen_bin_lit()
        return r[0]

    def gen_enum(self, env, tname, d):
        items = env.sc.types[tname][1]
        r = self.ref_of(env, lambda c: c == ("enum", tname), d)
        if r and self.p(40):
            return r[0]
        self.tag("enum-ref")
        return ("id", self.pick(items))

    def gen_ent(self, env, ent, d):
        sc = env.sc
        r = self.ref_of(env, lambda c: isinstance(c, tuple) and c[0] == "ent" and (c[1] == ent or ent in self.supers_closure(sc, c[1])), d)
        if r and self.p(70):
            return r[0]
        if env.self_entity and (env.self_entity == ent or ent in self.supers_closure(sc, env.self_entity)) and self.p(50):
            self.tag("const:SELF")
            return ("const", "SELF")
        if d < 3 and env.kind in ("function", "procedure", "rule", "const"):
            return self.gen_constructor(env, ent, d)
        if r:
            return r[0]
        self.tag("const:?")
        return ("const", "?")

    def gen_constructor(self, env, ent, d):
        sc = env.sc
        self.tag("entity-constructor")
        e = sc.entities[ent]
        args = []
        for n, t in e["explicit"]:
            if self.p(15):
                self.tag("const:?")
                args.append(("const", "?"))
            else:
                args.append(self.gen_for(env, t, d + 2, shallow=True))
        c = ("call", ent, args)
        subs = [s for s in e["subs"] if len(sc.entities[s]["supers"]) == 1]
        if subs and self.p(30) and d < 2:
            self.tag("complex-constructor")
            s = self.pick(subs)
            c2 = ("call", s, [self.gen_for(env, t, d + 2, shallow=True) for _, t in sc.entities[s]["explicit"]])
            return self.binop("||", c, c2)
        return c

    def gen_agg(self, env, et, d, kind="LIST"):
        """aggregate-valued expression with elements of type et"""
        sc = env.sc
        k = self.i(0, 9)
        r = self.ref_of(env, lambda c: isinstance(c, tuple) and c[0] == "agg" and c[1] == et and c[2] != "AGGREGATE", d)
        if r and k <= 2:
            return r[0]
        if r and k <= 4 and d < 3:
            op = self.pick(["+", "-", "*"] if kind in ("SET", "BAG") else ["+"])
            return self.maybe_paren(self.binop(op, r[0], self.gen_agg(env, et, d + 1, kind)))
        if k == 5 and d < 3 and r:
            q = self.gen_query(env, d + 1)
            return q
        # aggregate initialiser
        self.tag("agg-init")
        n = self.i(0, 4)
        items = []
        for _ in range(n):
            e = self.gen_for(env, et, d + 1, shallow=True)
            rep = None
            if self.p(25):
                rep = self.gen_num(env, d + 2, "int")
                if rep[0] != "int":
                    if not self.ok("agg-rep-expr"):
                        rep = ("int", str(self.i(2, 9)))
                    else:
                        self.tag("agg-init-rep-expr")
                if rep[0] == "int" and int(rep[1]) in (0, 1):
                    if not self.ok("agg-rep-01"):
                        rep = ("int", str(self.i(2, 9)))
                    else:
                        self.tag("agg-init-rep-01")
                self.tag("agg-init-rep")
            items.append((e, rep))
        return ("agg", items)

    def gen_for(self, env, t, d, shallow=False):
        """expression assignment compatible with model type t"""
        sc = env.sc
        c = self.resolve(sc, t)
        dd = d + 2 if shallow else d
        if c == "int":
            return self.gen_num(env, dd, "int")
        if c in ("real", "num"):
            return self.gen_num(env, dd, c)
        if c == "log":
            return self.gen_log(env, dd)
        if c == "str":
            return self.gen_str(env, dd)
        if c == "bin":
            b = self.gen_bin(env, dd)
            if b is None:
                self.tag("const:?")
                return ("const", "?")
            return b
        if c == "generic":
            return self.gen_num(env, dd, "num") if self.p(50) else self.gen_str(env, dd)
        if c[0] == "agg":
            if d >= 4:
                self.tag("agg-init")
                return ("agg", [])
            return self.gen_agg(env, c[1], dd, c[2])
        if c[0] == "ent":
            return self.gen_ent(env, c[1], dd)
        if c[0] == "enum":
            return self.gen_enum(env, c[1], dd)
        if c[0] == "select":
            members = sc.types[c[1]][1]
            m = self.pick(members)
            return self.gen_for(env, ("ref", m), dd, shallow)
        raise AssertionError(c)

    # ---- types
    def gen_simple_type(self, env_sc, allow_width=True):
        k = self.i(0, 9)
        if k <= 2:
            return T_INT
        if k == 3:
            if allow_width and self.ok("width") and self.p(30):
                self.tag("type-width")
                return ("simple", "REAL", lit_int(self.i(1, 15)), False)
            return T_REAL
        if k == 4:
            return T_NUM
        if k == 5:
            return T_BOOL
        if k == 6:
            return T_LOG
        if k <= 8:
            if allow_width and self.ok("width") and self.p(40):
                self.tag("type-width")
                return ("simple", "STRING", lit_int(self.i(1, 80)), self.p(50))
            return T_STR
        if allow_width and self.ok("width") and self.p(40):
            self.tag("type-width")
            return ("simple", "BINARY", lit_int(self.i(1, 32)), self.p(50))
        return T_BIN

    def gen_type(self, sc, depth=0, named_ok=True, select_ok=True):
        """attribute / variable type"""
        k = self.i(0, 9)
        if k <= 3 or (depth >= 2 and k <= 6):
            return self.gen_simple_type(sc)
        if k <= 6 and named_ok:
            names = [n for n in sc.type_order if select_ok or sc.types[n][0] != "select"] + sc.entity_order
            if names:
                return ("ref", self.pick(names))
            return self.gen_simple_type(sc)
        if depth >= 2:
            return self.gen_simple_type(sc)
        return self.gen_agg_type(sc, depth, named_ok)

    def gen_agg_type(self, sc, depth=0, named_ok=True):
        self.tag("type-agg")
        kind = self.pick(["LIST", "SET", "BAG", "ARRAY", "LIST", "SET"])
        lo = hi = None
        if kind == "ARRAY" or self.p(60):
            a = self.i(0, 3)
            lo = lit_int(a)
            if kind != "ARRAY" and self.p(50):
                hi = ("const", "?")
            else:
                hi = lit_int(a + self.i(0, 5))
            if self.p(10):
                hi = ("op", "+", hi, lit_int(1))
        opt = uniq = False
        if kind == "ARRAY":
            opt = self.p(30)
            uniq = self.p(20)
            if opt and uniq and not self.ok("opt-unique"):
                uniq = False
            if opt and uniq:
                self.tag("type-opt-unique")
        elif kind == "LIST":
            uniq = self.p(25)
        base = self.gen_type(sc, depth + 1, named_ok)
        return ("agg", kind, lo, hi, opt, uniq, base)

    # ---- statements
    def assignables(self, env):
        return [(n, t) for n, t, a in env.vars if a and n not in env.noindex]

    def gen_stmts(self, env, d, n=None):
        n = n if n is not None else self.i(1, 3 if d else 5)
        out = []
        for _ in range(n):
            s = self.gen_stmt(env, d)
            if s is not None:
                out.append(s)
        if not out:
            out.append(self.fallback_stmt(env, in_list=True))
        return out

    def fallback_stmt(self, env, in_list=False):
        """a statement that is always legal (in_list: position inside a statement list, where a null statement may stand)"""
        if in_list and self.ok("null-stmt") and self.p(50):
            self.tag("stmt:null")
            return ("null",)
        v = self.assignables(env)
        if v:
            n, t = v[0]
            self.tag("stmt:assign")
            return ("assign", ("id", n), self.gen_for(env, t, 4))
        if env.in_repeat:
            self.tag("stmt:skip")
            return ("skip",)
        self.tag("stmt:repeat")
        self.tag("stmt:escape")
        return ("repeat", None, None, None, [("escape",)])

    def ret_stmt(self, env):
        if env.kind == "function":
            self.tag("stmt:return-value")
            return ("return", self.gen_for(env, env.ret, 3))
        if env.kind == "procedure":
            self.tag("stmt:return")
            return ("return", None)
        return self.fallback_stmt(env)

    def gen_assign(self, env, d):
        v = self.assignables(env)
        if not v:
            return None
        n, t = self.pick(v)
        self.tag("stmt:assign")
        lhs = ("id", n)
        c = self.resolve(env.sc, t)
        # qualified left hand sides: v.attr  v[i]
        if isinstance(c, tuple) and c[0] == "ent" and self.p(40):
            attrs = [(an, at) for an, at in self.all_attrs(env.sc, c[1])]
            if attrs:
                an, at = self.pick(attrs)
                self.tag("attr-qual")
                return ("assign", ("dot", lhs, an), self.gen_for(env, at, d + 1))
        if isinstance(c, tuple) and c[0] == "agg" and c[2] != "AGGREGATE" and self.p(40):
            self.tag("index")
            return ("assign", ("idx", lhs, self.gen_num(env, d + 2, "int")), self.gen_for(env, c[1], d + 1))
        if self.p(5):
            self.tag("const:?")
            return ("assign", lhs, ("const", "?"))
        return ("assign", lhs, self.gen_for(env, t, d + 1))

    def gen_stmt(self, env, d):
        k = self.i(0, 19)
        if d >= 3:
            k = self.pick([0, 1, 2, 13, 14, 15])
        if k <= 4:
            return self.gen_assign(env, d)
        if k <= 6:
            self.tag("stmt:if")
            cond = self.gen_log(env, d + 1)
            then = self.gen_stmts(env, d + 1)
            els = None
            if self.p(40):
                self.tag("stmt:if-else")
                els = self.gen_stmts(env, d + 1)
            return ("if", cond, then, els)
        if k <= 8:
            return self.gen_case(env, d)
        if k <= 11:
            return self.gen_repeat(env, d)
        if k == 12:
            self.tag("stmt:compound")
            return ("compound", self.gen_stmts(env, d + 1))
        if k == 13:
            if env.in_repeat:
                s = self.pick(["escape", "skip"])
                self.tag("stmt:" + s)
                return (s,)
            return self.gen_assign(env, d)
        if k == 14:
            if env.kind in ("function", "procedure"):
                return self.ret_stmt(env)
            return self.gen_assign(env, d)
        if k <= 16:
            return self.gen_pcall(env, d)
        if k == 17 and self.ok("alias"):
            return self.gen_alias(env, d)
        if k == 18 and self.ok("null-stmt"):
            self.tag("stmt:null")
            return ("null",)
        return self.gen_assign(env, d)

    def gen_case(self, env, d):
        self.tag("stmt:case")
        cls = self.pick(["int", "int", "str", "enum"])
        sel = None
        mk = None
        if cls == "enum":
            r = self.ref_of(env, lambda c: isinstance(c, tuple) and c[0] == "enum", d)
            if r:
                tn = self.resolve(env.sc, r[1])[1]
                sel = r[0]
                mk = lambda: ("id", self.pick(env.sc.types[tn][1]))
        if sel is None and cls == "str":
            sel = self.gen_str(env, d + 2)
            mk = lambda: self.gen_str_lit(short=True)
        if sel is None:
            sel = self.gen_num(env, d + 1, "int")

            def mk():
                e = self.gen_num(env, d + 3, "int")
                if e[0] in ("op", "un", "paren"):
                    if not self.ok("case-label-op"):
                        return self.gen_int_lit()
                    self.tag("stmt:case-label-op")
                return e
        actions = []
        for _ in range(self.i(0, 3)):
            nl = 1
            if self.ok("case-multi-label") and self.p(35):
                nl = self.i(2, 3)
                self.tag("stmt:case-multi-label")
            labels = [mk() for _ in range(nl)]
            actions.append((labels, self.case_action(env, d)))
        other = None
        if self.p(50) or not actions:
            self.tag("stmt:case-otherwise")
            other = self.case_action(env, d)
        return ("case", sel, actions, other)

    def case_action(self, env, d):
        """the front end's grammar has no null statement as a case action (ISO has): never generate one there"""
        s = self.gen_stmt(env, d + 1)
        if s is None or s[0] == "null":
            s = self.fallback_stmt(env)
        return s

    def gen_repeat(self, env, d):
        self.tag("stmt:repeat")
        e2 = env.child()
        e2.in_repeat = True
        incr = wh = un = None
        if self.p(60):
            self.tag("stmt:repeat-incr")
            v = self.names.fresh("i")
            by = None
            if self.p(50):
                self.tag("stmt:repeat-by")
                by = self.gen_num(env, d + 2, "int")
            incr = (v, self.gen_num(env, d + 2, "int"), self.gen_num(env, d + 2, "int"), by)
            e2.vars.append((v, T_INT, False))
        if self.p(40):
            self.tag("stmt:repeat-while")
            wh = self.gen_log(e2, d + 1)
        if self.p(40):
            self.tag("stmt:repeat-until")
            un = self.gen_log(e2, d + 1)
        return ("repeat", incr, wh, un, self.gen_stmts(e2, d + 1))

    def gen_pcall(self, env, d):
        k = self.i(0, 5)
        lists = [(n, t) for n, t in self.assignables(env) if self.resolve(env.sc, t)[0:1] == ("agg",) and self.resolve(env.sc, t)[2] == "LIST"]
        if k <= 1 and lists:
            n, t = self.pick(lists)
            et = self.resolve(env.sc, t)[1]
            if self.p(60):
                self.tag("stmt:insert")
                return ("pcall", "INSERT", [("id", n), self.gen_for(env, et, d + 2, shallow=True), self.gen_num(env, d + 2, "int")])
            self.tag("stmt:remove")
            return ("pcall", "REMOVE", [("id", n), self.gen_num(env, d + 2, "int")])
        procs = env.procs + env.sc.procedures
        if procs:
            name, params, _ = self.pick(procs)
            args = []
            for var, pn, t in params:
                if var:
                    cands = [(n, vt) for n, vt in self.assignables(env) if vt == t]
                    if not cands:
                        return self.gen_assign(env, d)
                    args.append(("id", self.pick(cands)[0]))
                else:
                    args.append(self.gen_for(env, t, d + 2))
            self.tag("stmt:pcall")
            if not args:
                self.tag("stmt:pcall-no-args")
                return ("pcall", name, None)
            return ("pcall", name, args)
        return self.gen_assign(env, d)

    def gen_alias(self, env, d):
        cands = [(a, t) for a, t in self.refs(env, 1) if a[0] in ("id", "dot") and (a[0] != "id" or a[1] not in env.noindex)
                 and self.root_assignable(env, a)]
        if not cands:
            return self.gen_assign(env, d)
        a, t = self.pick(cands)
        a = self.fill_index(env, a, d)
        self.tag("stmt:alias")
        v = self.names.fresh("al")
        e2 = env.child()
        # the alias variable is untyped for this front end: visible, assignable here, never used in a typed position
        e2.vars.append((v, ("generic", None), False))
        e2.noindex.add(v)
        body = [("assign", ("id", v), self.gen_for(e2, t, d + 2))]
        if self.p(40):
            body += self.gen_stmts(e2, d + 1, 1)
        return ("alias", v, a, body)

    def root_assignable(self, env, a):
        while a[0] in ("dot", "idx", "grp"):
            a = a[1]
        return a[0] == "id" and any(n == a[1] and asg for n, _, asg in env.vars)

    # ---- algorithms
    def gen_param_type(self, sc, allow_generic):
        k = self.i(0, 9)
        if allow_generic and self.ok("generic") and k == 0:
            self.tag("type-generic")
            return ("generic", None)
        if allow_generic and self.ok("generic") and k == 1:
            self.tag("type-aggregate")
            return ("aggregate", None, self.gen_simple_type(sc, False) if self.p(50) else ("generic", None))
        if k <= 5:
            return self.gen_simple_type(sc, False)
        if k <= 7 and (sc.type_order or sc.entity_order):
            return ("ref", self.pick(sc.type_order + sc.entity_order))
        # conformant aggregates may omit bounds
        kind = self.pick(["LIST", "SET", "BAG", "ARRAY"])
        base = self.gen_simple_type(sc, False) if self.p(60) or not sc.entity_order else ("ref", self.pick(sc.entity_order))
        if kind == "ARRAY" or self.p(30):
            return ("agg", kind, lit_int(1), lit_int(self.i(1, 9)), False, False, base)
        return ("agg", kind, None, None, False, kind == "LIST" and self.p(20), base)

    def gen_signature(self, sc, kind):
        name = self.names.fresh({"function": "f", "procedure": "p"}[kind])
        params = []
        np = self.i(0, 3)
        if kind == "procedure" and np == 0 and not self.ok("proc-no-params"):
            np = 1
        if kind == "function" and np == 0:
            if not self.ok("func-no-params"):
                np = 1
            else:
                self.tag("func-no-params")
        for _ in range(np):
            var = kind == "procedure" and self.p(40)
            t = self.gen_param_type(sc, allow_generic=not var)
            group = 2 if self.p(25) else 1
            params.append((var, [self.names.fresh("a") for _ in range(group)], t))
        ret = None
        if kind == "function":
            ret = self.gen_param_type(sc, allow_generic=False)
            if ret[0] == "agg" and ret[2] is None and self.p(50):
                ret = T_INT
        return (name, params, ret)

    @staticmethod
    def flat_params(params):
        return [(var, n, t) for var, names, t in params for n in names]

    def gen_algorithm(self, sc, kind, sig, outer_env, depth):
        name, params, ret = sig
        env = Env(sc, kind)
        if outer_env is not None:
            env.vars = [(n, t, False) for n, t, _ in outer_env.vars]
            env.funcs, env.procs = list(outer_env.funcs), list(outer_env.procs)
        env.ret = ret
        for var, n, t in self.flat_params(params):
            # generic parameters are not used in typed positions
            if t[0] in ("generic",) or (t[0] == "aggregate"):
                env.vars.append((n, t, False))
            else:
                env.vars.append((n, t, var))
        head = {"decls": [], "consts": [], "locals": []}
        # nested declarations
        if depth < 2 and self.ok("nested-alg") and self.p(25):
            self.tag("nested-alg")
            for _ in range(self.i(1, 2)):
                k2 = self.pick(["function", "procedure", "type"])
                if k2 == "type":
                    tn = self.names.fresh("lt")
                    under = self.gen_simple_type(sc)
                    sc.types[tn] = ("defined", under)
                    head["decls"].append(("type", tn, under, []))
                    # visible only inside: do not add to sc.type_order
                    env.vars.append((self.names.fresh("lv"), ("ref", tn), True))
                    head["locals"].append(([env.vars[-1][0]], ("ref", tn), None))
                else:
                    s2 = self.gen_signature(sc, k2)
                    d2 = self.gen_algorithm(sc, k2, s2, env, depth + 1)
                    head["decls"].append(d2)
                    flat = (s2[0], self.flat_params(s2[1]), s2[2])
                    (env.funcs if k2 == "function" else env.procs).append(flat)
        if self.p(20):
            self.tag("local-constant")
            cn = self.names.fresh("lc")
            ct = self.pick([T_INT, T_REAL, T_STR])
            cenv = Env(sc, "const")
            head["consts"].append((cn, ct, self.gen_for(cenv, ct, 2)))
            env.vars.append((cn, ct, False))
        if self.p(85):
            self.tag("local")
            for _ in range(self.i(1, 4)):
                t = self.gen_param_type(sc, False) if self.p(50) else self.gen_type(sc, 1)
                init = None
                group = 1
                if self.p(40):
                    self.tag("local-init")
                    init = self.gen_for(env, t, 2)
                if self.p(20) and (init is None or self.ok("local-group")):
                    group = 2
                names = [self.names.fresh("v") for _ in range(group)]
                head["locals"].append((names, t, init))
                for n in names:
                    env.vars.append((n, t, True))
        body = self.gen_stmts(env, 0, self.i(0, 4)) if self.p(90) else []
        if kind == "function":
            self.tag("stmt:return-value")
            body.append(("return", self.gen_for(env, ret, 1)))
        elif not body and kind == "procedure":
            body = []
        return (kind, name, params, ret, head, body)

    # ---- schema
    def gen_where(self, env, what, need_self_ref):
        rules = []
        for _ in range(self.i(1, 3)):
            label = None
            if not self.ok("where-unlabelled") or self.p(65):
                label = self.names.fresh("wr")
                self.tag(what + "-where-labelled")
                self.tag("where-labelled")
            else:
                self.tag(what + "-where-unlabelled")
                self.tag("where-unlabelled")
            e = self.gen_log(env, 0)
            if need_self_ref is not None and not need_self_ref(e):
                e = self.binop("AND", ("paren", e) if R.row(e) > 4 else e, ("call", "EXISTS", [("const", "SELF")]))
                self.tag("const:SELF")
                self.tag("call-builtin:EXISTS")
            rules.append((label, e))
        return rules

    def gen_schema(self, name, others):
        """others: list of already generated SchemaCtx (for USE / REFERENCE)"""
        sc = SchemaCtx(name)
        s = {"name": name, "interfaces": [], "consts": [], "decls": []}
        sz = self.size
        # ---- interfaces
        imported_types = []
        for o in others:
            if not self.p(70):
                continue
            kind = self.pick(["USE", "REFERENCE"])
            items = []
            pool = [("entity", n) for n in o.entity_order if not o.entities[n].get("imported")] + \
                   [("type", n) for n in o.type_order if o.types[n][0] != "enum" and n not in o.where_types and n not in o.imported]
            if kind == "REFERENCE":
                pool += [("function", f[0]) for f in o.functions if f[0] not in o.imported] + \
                        [("constant", c[0]) for c in o.constants if c[0] not in o.imported] + \
                        [("procedure", p[0]) for p in o.procedures]
            if not pool:
                continue
            self.tag("use-from" if kind == "USE" else "reference-from")
            for _ in range(self.i(1, 3)):
                what, n = self.pick(pool)
                if any(n == it for it, _ in items) or n in sc.aliases.values():
                    continue
                alias = None
                if self.p(35) and (what not in ("entity", "type") or self.ok("rename-type")):
                    alias = self.names.fresh("ren")
                    self.tag("rename-as")
                items.append((n, alias))
                local = alias or n
                sc.imported.add(local)
                # make the imported thing visible under its local name
                if what == "entity":
                    # an imported entity is usable as a type; its attributes come with it
                    oe = o.entities[n]
                    if all(self.type_closed(o, t) for _, t in oe["attrs"]):
                        sc.entities[local] = {"supers": [], "subs": [], "attrs": list(oe["attrs"]), "explicit": list(oe["explicit"]), "imported": True}
                        sc.entity_order.append(local)
                elif what == "type":
                    d = o.types[n]
                    if d[0] == "defined" and self.type_closed(o, d[1]):
                        sc.types[local] = d
                        sc.type_order.append(local)
                elif what == "function":
                    f = [f for f in o.functions if f[0] == n][0]
                    if all(self.type_closed(o, t) for _, _, t in f[1]) and self.type_closed(o, f[2]):
                        sc.functions.append((local, f[1], f[2]))
                elif what == "constant":
                    c = [c for c in o.constants if c[0] == n][0]
                    if self.type_closed(o, c[1]):
                        sc.constants.append((local, c[1]))
            if items:
                s["interfaces"].append((kind, o.name, items))
        # ---- names first: types and entities can refer to each other
        n_simple = self.i(0, 2 + sz)
        for _ in range(n_simple):
            tn = self.names.fresh("t")
            k = self.i(0, 5)
            if k <= 2:
                under = self.gen_simple_type(sc)
                self.tag("type-simple")
            elif k == 3 and sc.type_order:
                cands = [x for x in sc.type_order if sc.types[x][0] == "defined"]
                under = ("ref", self.pick(cands)) if cands else self.gen_simple_type(sc)
                self.tag("type-defined")
            else:
                under = self.gen_agg_type(sc, 0, named_ok=bool(sc.type_order))
            sc.types[tn] = ("defined", under)
            sc.type_order.append(tn)
        for _ in range(self.i(0, 1 + (sz > 0))):
            tn = self.names.fresh("en")
            items = [self.names.fresh() for _ in range(self.i(1, 5))]
            sc.types[tn] = ("enum", items)
            sc.type_order.append(tn)
            self.tag("type-enum")
        own_entities = []
        for _ in range(self.i(0 if sz == 0 else 1, 4 + 2 * sz)):
            en = self.names.fresh("ent")
            sc.entities[en] = {"supers": [], "subs": [], "attrs": [], "explicit": []}
            sc.entity_order.append(en)
            own_entities.append(en)
        # inheritance: later entities may be subtypes of earlier ones
        for i, en in enumerate(own_entities):
            if i and self.p(70):
                # prefer the first entity as the supertype so that some entities get three and more direct subtypes
                sup = [own_entities[0] if self.p(45) else self.pick(own_entities[:i])]
                if i > 1 and self.p(20):
                    s2 = self.pick(own_entities[:i])
                    if s2 not in sup and s2 not in self.supers_closure(sc, sup[0]) and sup[0] not in self.supers_closure(sc, s2):
                        sup.append(s2)
                sc.entities[en]["supers"] = sup
                for x in sup:
                    sc.entities[x]["subs"].append(en)
        # selects over entities / defined types
        for _ in range(self.i(0, 1 + (sz > 1))):
            pool = own_entities + [x for x in sc.type_order if sc.types[x][0] in ("defined", "enum")]
            if not pool:
                break
            tn = self.names.fresh("sel")
            members = []
            for _ in range(self.i(1, 4)):
                m = self.pick(pool)
                if m not in members:
                    members.append(m)
            sc.types[tn] = ("select", members)
            sc.type_order.append(tn)
            self.tag("type-select")
        # ---- explicit attributes (types known), then derived/inverse
        ent_decl = {}
        for en in own_entities:
            e = sc.entities[en]
            groups = []
            for _ in range(self.i(0, 3 + sz)):
                t = self.gen_type(sc, 0)
                opt = self.p(25)
                if opt:
                    self.tag("attr-optional")
                names = [self.names.fresh("at") for _ in range(2 if self.p(20) else 1)]
                groups.append((names, opt, t))
                for n in names:
                    e["attrs"].append((n, t))
                    e["explicit"].append((n, t))
            ent_decl[en] = {"abstract": False, "supertype_of": None, "subtype_of": list(e["supers"]), "attrs": groups, "derive": [],
                            "inverse": [], "unique": [], "where": []}
        # redeclarations (single inheritance only): NUMBER -> INTEGER/REAL, entity -> subtype, same type otherwise
        if self.ok("redecl"):
            for en in own_entities:
                e = sc.entities[en]
                if len(e["supers"]) != 1 or not self.p(40):
                    continue
                sup = e["supers"][0]
                cands = [(n, t) for n, t in sc.entities[sup]["explicit"]]
                if not cands:
                    continue
                n, t = self.pick(cands)
                nt = t
                if t == T_NUM:
                    nt = self.pick([T_INT, T_REAL])
                self.tag("attr-redeclared")
                if self.p(50):
                    ent_decl[en]["attrs"].append(([("redecl", sup, n)], False, nt))
                else:
                    ent_decl[en]["_redecl_derive"] = (("redecl", sup, n), nt)
        # functions / procedures: signatures first
        fsigs = [self.gen_signature(sc, "function") for _ in range(self.i(0, 2 + sz))]
        psigs = [self.gen_signature(sc, "procedure") for _ in range(self.i(0, 1 + sz))]
        for sg in fsigs:
            sc.functions.append((sg[0], self.flat_params(sg[1]), sg[2]))
        for sg in psigs:
            sc.procedures.append((sg[0], self.flat_params(sg[1]), None))
        # ---- constants
        cenv = Env(sc, "const")
        for _ in range(self.i(0, 2 + sz)):
            cn = self.names.fresh("c")
            t = self.gen_simple_type(sc) if self.p(70) else self.gen_type(sc, 1)
            s["consts"].append((cn, t, self.gen_for(cenv, t, 1)))
            self.tag("constant")
        for cn, t, _ in s["consts"]:
            sc.constants.append((cn, t))
        # ---- entity bodies
        for en in own_entities:
            e = sc.entities[en]
            d = ent_decl[en]
            env = Env(sc, "entity")
            env.self_entity = en
            if e["subs"]:
                if self.p(30):
                    d["abstract"] = True
                    self.tag("abstract")
                if self.p(75):
                    d["supertype_of"] = self.gen_supertype(list(e["subs"]))
            for _ in range(self.i(0, 2)):
                t = self.gen_type(sc, 1)
                n = self.names.fresh("dv")
                self.tag("attr-derived")
                d["derive"].append((n, t, self.gen_for(env, t, 0)))
            if "_redecl_derive" in d:
                rn, rt = d.pop("_redecl_derive")
                d["derive"].append((rn, rt, self.gen_for(env, rt, 1)))
                self.tag("attr-redeclared-derived")
            for n, t, _ in d["derive"]:
                if not isinstance(n, tuple):
                    e["attrs"].append((n, t))
        # inverse attributes: for explicit attribute x : B (or aggregate of B) of A  ->  in B: inv : SET OF A FOR x
        for en in own_entities:
            for n, t in list(sc.entities[en]["explicit"]):
                c = self.resolve(sc, t) if t[0] != "ref" or t[1] in sc.entities else None
                tgt = None
                if c and c[0] == "ent":
                    tgt = c[1]
                elif t[0] == "agg" and t[6][0] == "ref" and t[6][1] in sc.entities:
                    tgt = t[6][1]
                if tgt in own_entities and self.p(35):
                    self.tag("attr-inverse")
                    iname = self.names.fresh("inv")
                    k = self.i(0, 2)
                    if k == 0:
                        it = ("ref", en)
                    else:
                        kind = "SET" if k == 1 else "BAG"
                        lo = hi = None
                        if self.p(60):
                            lo, hi = lit_int(self.i(0, 1)), (("const", "?") if self.p(50) else lit_int(self.i(1, 4)))
                        it = ("agg", kind, lo, hi, False, False, ("ref", en))
                    ent_decl[tgt]["inverse"].append((iname, it, en if self.p(20) and False else None, n))
                    sc.entities[tgt]["attrs"].append((iname, it))
        # unique + where
        for en in own_entities:
            e = sc.entities[en]
            d = ent_decl[en]
            env = Env(sc, "entity")
            env.self_entity = en
            own = [n for n, _ in e["explicit"]]
            if own and self.p(35):
                self.tag("unique")
                for _ in range(self.i(1, 2)):
                    label = None
                    if not self.ok("unique-unlabelled") or self.p(60):
                        label = self.names.fresh("ur")
                    else:
                        self.tag("unique-unlabelled")
                    refs = []
                    for _ in range(self.i(1, 2)):
                        r = self.pick(own)
                        if r not in refs:
                            refs.append(r)
                    d["unique"].append((label, refs))
            visible = set(n for n, _ in self.all_attrs(sc, en))
            if visible and self.p(60):
                d["where"] = self.gen_where(env, "entity", lambda ex: self.mentions_any(ex, visible))
        # ---- type where rules
        type_where = {}
        for tn in sc.type_order:
            if self.p(30) and not self.is_imported(s, tn):
                self.tag("type-where")
                type_where[tn] = self.gen_type_where(sc, tn)
                sc.where_types.add(tn)
        # ---- algorithms and rules
        decls = []
        for tn in sc.type_order:
            if self.is_imported(s, tn):
                continue
            d = sc.types[tn]
            under = d[1] if d[0] == "defined" else (d[0], list(d[1]))
            decls.append(("type", tn, under, type_where.get(tn, [])))
        for en in own_entities:
            self.tag("entity")
            decls.append(("entity", en, ent_decl[en]))
        for sg in fsigs:
            self.tag("function")
            decls.append(self.gen_algorithm(sc, "function", sg, None, 0))
        for sg in psigs:
            self.tag("procedure")
            decls.append(self.gen_algorithm(sc, "procedure", sg, None, 0))
        for _ in range(self.i(0, 1 + (sz > 0)) if own_entities else 0):
            decls.append(self.gen_rule(sc, own_entities))
        # random text order (forward references are legal in EXPRESS)
        order = list(range(len(decls)))
        out = []
        while order:
            out.append(decls[order.pop(self.i(0, len(order) - 1))])
        s["decls"] = out
        return s, sc

    def is_imported(self, s, local):
        for _, _, items in s["interfaces"]:
            for it, alias in items or ():
                if (alias or it) == local:
                    return True
        return False

    def type_closed(self, o, t):
        """type mentions no named type (so that it means the same in the importing schema)"""
        if t is None:
            return True
        if t[0] == "ref":
            return False
        if t[0] == "agg":
            return self.type_closed(o, t[6])
        if t[0] == "aggregate":
            return self.type_closed(o, t[2])
        return True

    def mentions_any(self, e, names):
        if isinstance(e, tuple):
            if e[0] == "id" and e[1] in names:
                return True
            if e[0] == "const" and e[1] == "SELF":
                return True
            if e[0] == "dot" and e[2] in names and self.mentions_any(e[1], names):
                return True
            if e[0] == "agg":
                # only the elements: a repetition count is not resolved by this front end (it is retyped as a count)
                return any(self.mentions_any(a, names) for a, _ in e[1])
            if e[0] == "rng":
                # this front end never resolves the lower index of [i:j] (EXPresolve_op_default skips op2 of a
                # three-operand operator), so a reference there does not count for its "must refer to SELF" check
                return self.mentions_any(e[1], names) or self.mentions_any(e[3], names)
            return any(self.mentions_any(x, names) for x in e[1:])
        if isinstance(e, list):
            return any(self.mentions_any(x, names) for x in e)
        return False

    def gen_type_where(self, sc, tn):
        """domain rules of a TYPE: SELF has the underlying type"""
        d = sc.types[tn]
        env = Env(sc, "type")
        env.self_type = tn
        rules = []
        for _ in range(self.i(1, 2)):
            label = None
            if not self.ok("where-unlabelled") or self.p(60):
                label = self.names.fresh("wr")
                self.tag("type-where-labelled")
                self.tag("where-labelled")
            else:
                self.tag("type-where-unlabelled")
                self.tag("where-unlabelled")
            S = ("const", "SELF")
            self.tag("const:SELF")
            c = self.resolve(sc, ("ref", tn))
            if c in ("int", "real", "num"):
                k = self.i(0, 2)
                if k == 0 and self.ok("interval"):
                    self.tag("interval")
                    e = ("interval", self.gen_num(env, 3, "int"), self.pick(["<", "<="]), S, self.pick(["<", "<="]), self.gen_num(env, 3, "int"))
                elif k == 1:
                    e = self.binop(self.pick([">", ">=", "<>"]), self.binop(self.pick(["*", "+", "-"]), S, self.gen_num(env, 2, "int")), self.gen_num(env, 2, "int"))
                else:
                    e = self.binop("AND", ("paren", self.binop(">=", S, self.gen_num(env, 3, "int"))), self.gen_log(env, 1))
            elif c == "str":
                e = self.binop(self.pick(["<>", "LIKE", "="]), S, self.gen_str_lit(short=True)) if self.p(50) else \
                    self.binop("<=", ("call", "LENGTH", [S]), self.gen_num(env, 2, "int"))
                self.tag("call-builtin:LENGTH")
            elif c == "log":
                e = self.binop("OR", S, self.gen_log(env, 1))
            elif c == "bin":
                self.tag("call-builtin:BLENGTH")
                e = self.binop(">", ("call", "BLENGTH", [S]), self.gen_int_lit())
            elif isinstance(c, tuple) and c[0] == "agg":
                self.tag("call-builtin:SIZEOF")
                e = self.binop(self.pick([">", "<=", "="]), ("call", "SIZEOF", [S]), self.gen_num(env, 2, "int"))
            elif isinstance(c, tuple) and c[0] == "enum":
                e = self.binop("<>", S, ("id", self.pick(sc.types[c[1]][1])))
            else:
                self.tag("call-builtin:TYPEOF")
                e = self.binop("IN", self.gen_str_lit(short=True), ("call", "TYPEOF", [S]))
            rules.append((label, e))
        return rules

    def gen_supertype(self, subs):
        """supertype expression over the direct subtypes, each used at most once"""
        pool = list(subs)

        def take():
            return ("ent", pool.pop(self.i(0, len(pool) - 1)))

        def term(depth):
            if len(pool) >= 2 and self.p(35):
                self.tag("supertype-oneof")
                items = [expr(depth + 1) if depth < 1 and self.p(25) and len(pool) > 2 else take()]
                while pool and (len(items) < 2 or self.p(25)):
                    items.append(take())
                return ("oneof", items)
            return take()

        def expr(depth):
            left = term(depth)
            while pool and self.p(85 if depth == 0 else 35):
                op = self.pick(["and", "andor"])
                self.tag("supertype-" + op)
                right = term(depth)
                if pool and self.p(55):
                    # right operand is itself a binary expression
                    op2 = "and" if op == "andor" and self.p(60) else self.pick(["and", "andor"])
                    if op2 == op:
                        # a AND (b AND c): the "same-op-right" shape
                        if self.ok("same-op-right"):
                            self.tag("same-op-right")
                        else:
                            op2 = "and" if op == "andor" else "andor"
                    self.tag("supertype-" + op2)
                    right = (op2, right, term(depth))
                    if op == "andor" and op2 == "and" and self.ok("super-mixed") and self.p(70):
                        # a ANDOR b AND c: AND binds tighter (9.2.5.4), no parentheses needed
                        self.tag("supertype-mixed")
                    else:
                        right = ("paren", right)
                if left[0] in ("and", "andor") and left[0] != op:
                    if op == "andor" and left[0] == "and" and self.ok("super-mixed") and self.p(70):
                        # a AND b ANDOR c
                        self.tag("supertype-mixed")
                    else:
                        left = ("paren", left)
                left = (op, left, right)
            return left
        return expr(0)

    def gen_rule(self, sc, own_entities):
        self.tag("rule")
        name = self.names.fresh("r")
        ents = []
        for _ in range(self.i(1, 2)):
            e = self.pick(own_entities)
            if e not in ents:
                ents.append(e)
        env0 = Env(sc, "rule")
        for e in ents:
            env0.vars.append((e, ("agg", "SET", None, None, False, False, ("ref", e)), False))
        env = Env(sc, "rule")
        env.vars = list(env0.vars)
        head = {"decls": [], "consts": [], "locals": []}
        if self.p(70):
            self.tag("local")
            for _ in range(self.i(1, 3)):
                t = self.gen_type(sc, 1) if self.p(50) else self.gen_simple_type(sc, False)
                init = None
                if self.p(50):
                    self.tag("local-init")
                    init = self.gen_for(env, t, 2)
                n = self.names.fresh("v")
                head["locals"].append(([n], t, init))
                env.vars.append((n, t, True))
        body = self.gen_stmts(env, 1, self.i(0, 3)) if head["locals"] and self.p(70) else []
        where = []
        for _ in range(self.i(1, 3)):
            label = None
            if not self.ok("where-unlabelled") or self.p(60):
                label = self.names.fresh("wr")
                self.tag("rule-where-labelled")
                self.tag("where-labelled")
            else:
                self.tag("rule-where-unlabelled")
                self.tag("where-unlabelled")
            where.append((label, self.gen_log(env, 0)))
        return ("rule", name, ents, head, body, where)


def _build(draw, cfg):
    g = G(draw, cfg)
    nmax = cfg.get("max_schemas", 3)
    if "multi-schema" in g.avoid:
        nmax = 1
    k = g.i(0, 9)
    n = 1 if k < 6 else (2 if k < 9 else 3)
    n = min(n, nmax)
    schemas, ctxs = [], []
    for _ in range(n):
        s, sc = g.gen_schema(g.names.fresh("sch"), ctxs)
        schemas.append(s)
        ctxs.append(sc)
    if n > 1:
        g.tag("multi-schema")
    # importing schemas may appear before the schemas they import from
    if n > 1 and g.p(50):
        schemas.reverse()
    layout_seed = g.i(0, 2 ** 31 - 1)
    remarks = cfg.get("remarks", True) and "remarks" not in g.avoid
    stats = {}
    text = R.render_file(schemas, layout_seed, remarks, stats)
    if stats.get("embedded"):
        g.tag("embedded-remark")
    if stats.get("nested"):
        g.tag("nested-remark")
    if stats.get("tail"):
        g.tag("tail-remark")
    keys = []
    for (scope, kind, name) in R.expected_decls(schemas).keys():
        keys.append([[list(x) for x in scope], kind, list(name) if isinstance(name, tuple) else name])
    return {"text": text, "ast": schemas, "tags": sorted(g.tags),
            "model": {"schemas": [s["name"] for s in schemas], "declarations": keys, "layout_seed": layout_seed, "remarks": stats}}


def schemas(cfg=None):
    cfg = dict(cfg or {})

    @st.composite
    def strat(draw):
        return _build(draw, cfg)
    return strat()


def draw_many(seed, n, cfg=None):
    """n generated files (generate-only phase, no shrinking), deterministic in seed"""
    from hypothesis import given, settings, seed as hseed, Phase, HealthCheck
    out = []

    @hseed(seed)
    @settings(max_examples=n, database=None, deadline=None, phases=[Phase.generate], suppress_health_check=list(HealthCheck))
    @given(schemas(cfg))
    def collect(s):
        out.append(s)
    collect()
    return out
