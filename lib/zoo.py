"""A fixed, hand-written "type zoo" schema model that every Part 21 check explores in addition to the generated schemas.
It packs shapes whose joint probability under the random schema generator is low although each lies inside the supported
subset: chains of renamed types, nested selects that list a renamed type before (and after) the type it renames, selects
over enumerations and their renames, aggregates of selects / of renamed types / of enumerations, nested aggregates,
ARRAY OF OPTIONAL, diamond inheritance with derived and explicit redeclarations, inverse attributes, ONEOF/AND/ANDOR."""
from expmodel import T, named, agg


def _e(name, supers=(), attrs=(), derived=(), inverse=(), abstract=False, superexpr=None):
    return {"name": name, "supers": list(supers), "abstract": abstract, "superexpr": superexpr,
            "attrs": [{"name": n, "type": t, "optional": o, "redecl": r} for (n, t, o, r) in attrs],
            "derived": [{"name": n, "type": t, "expr": x, "redecl": r} for (n, t, x, r) in derived],
            "inverse": list(inverse), "unique": [], "where": []}


ZOO = {
    "name": "type_zoo",
    "tags": {"kwish": 0, "excluded": []},
    "types": [
        {"name": "len_m", "kind": "defined", "of": T("REAL")},
        {"name": "pos_len", "kind": "defined", "of": named("len_m")},
        {"name": "tiny_len", "kind": "defined", "of": named("pos_len")},
        {"name": "cnt", "kind": "defined", "of": T("INTEGER")},
        {"name": "big_cnt", "kind": "defined", "of": named("cnt")},
        {"name": "lbl", "kind": "defined", "of": T("STRING")},
        {"name": "txt", "kind": "defined", "of": named("lbl")},
        {"name": "flag", "kind": "defined", "of": T("BOOLEAN")},
        {"name": "tri", "kind": "defined", "of": T("LOGICAL")},
        {"name": "bits", "kind": "defined", "of": T("BINARY")},
        {"name": "amount", "kind": "defined", "of": T("NUMBER")},
        {"name": "colour", "kind": "enum", "items": ["red", "green", "dark_red", "re"]},
        {"name": "tint", "kind": "defined", "of": named("colour"), "alias_of_enum": True},
        {"name": "finish", "kind": "enum", "items": ["glossy", "matt", "red"]},
        {"name": "ilist", "kind": "defined", "of": agg("LIST", T("INTEGER"), 0, None)},
        {"name": "len_set", "kind": "defined", "of": agg("SET", named("pos_len"), 0, 5)},
        {"name": "col_bag", "kind": "defined", "of": agg("BAG", named("colour"), 1, None)},
        {"name": "base_list", "kind": "defined", "of": agg("LIST", named("base"), 1, None)},
        {"name": "leaf_set", "kind": "defined", "of": agg("SET", named("leaf_a"), 0, None)},
        # renamed type BEFORE its base, and after it
        {"name": "meas_a", "kind": "select", "members": ["pos_len", "len_m", "cnt", "lbl"]},
        {"name": "meas_b", "kind": "select", "members": ["len_m", "tiny_len", "pos_len", "big_cnt", "cnt", "txt"]},
        {"name": "deco", "kind": "select", "members": ["tint", "colour", "finish", "flag"]},
        {"name": "val", "kind": "select", "members": ["meas_a", "deco", "ilist", "base"]},
        {"name": "val2", "kind": "select", "members": ["bits", "val", "meas_b", "leaf_b", "col_bag"]},
        {"name": "refsel", "kind": "select", "members": ["base_list", "leaf_b", "cnt", "leaf_set"]},
        {"name": "refsel2", "kind": "select", "members": ["lbl", "refsel", "owner"]},
    ],
    "entities": [
        _e("base", attrs=[("id", T("INTEGER"), False, None), ("nm", T("STRING"), True, None)],
           superexpr={"op": "ANDOR", "args": [{"op": "ONEOF", "args": ["leaf_a", "leaf_b"]}, "leaf_c"]}),
        _e("leaf_a", ["base"], attrs=[("m", named("meas_a"), False, None), ("w", named("pos_len"), True, None)]),
        _e("leaf_b", ["base"], attrs=[("r", T("REAL"), False, None), ("t", named("tri"), False, None)]),
        _e("leaf_c", ["base"], attrs=[("c", named("tint"), False, None)]),
        _e("leaf_d", ["base"], attrs=[("bb", named("bits"), True, None)],
           derived=[("nm", T("STRING"), "'k'", "base")]),
        _e("join_ac", ["leaf_a", "leaf_c"], attrs=[("q", named("amount"), False, None)]),
        _e("sel_user", attrs=[("v", named("val"), False, None), ("v2", named("val2"), False, None), ("ov", named("meas_b"), True, None),
                              ("d", named("deco"), False, None)]),
        _e("agg_user", attrs=[("lv", agg("LIST", named("val2"), 0, None), False, None),
                              ("sm", agg("SET", named("meas_b"), 1, None), False, None),
                              ("ad", agg("ARRAY", named("deco"), 1, 2), False, None),
                              ("ao", agg("ARRAY", T("INTEGER"), 0, 2, False, True), True, None),
                              ("ll", agg("LIST", agg("LIST", named("len_m"), 0, None), 0, None), False, None),
                              ("le", agg("LIST", named("finish"), 0, None, True), False, None),
                              ("cb", named("col_bag"), False, None), ("ls", named("len_set"), True, None),
                              ("lr", agg("LIST", named("base"), 0, None), False, None)]),
        _e("ref_user", attrs=[("rs", named("refsel"), False, None), ("rs2", named("refsel2"), True, None),
                              ("lrs", agg("LIST", named("refsel"), 0, None), False, None), ("bl", named("base_list"), True, None)]),
        _e("top", attrs=[("t1", T("INTEGER"), False, None), ("t2", named("base"), True, None), ("t3", T("REAL"), False, None)], abstract=True),
        _e("mid_l", ["top"], attrs=[("l1", T("STRING"), False, None), ("t2", named("leaf_a"), False, "top")]),
        _e("mid_r", ["top"], attrs=[("r1", named("flag"), False, None)], derived=[("t3", T("REAL"), "1.5", "top")]),
        _e("bot", ["mid_l", "mid_r"], attrs=[("b1", named("colour"), False, None)]),
        _e("owner", attrs=[("refs", agg("SET", named("base"), 0, None), False, None), ("one", named("base"), True, None)]),
        _e("tgt", ["base"], inverse=[{"name": "owners", "agg": {"agg": "SET", "lo": 0, "hi": None}, "entity": "owner", "attr": "refs"},
                                     {"name": "the_one", "agg": {"agg": "BAG", "lo": 0, "hi": None}, "entity": "owner", "attr": "one"}]),
        # diamond below an entity that declares inverse attributes (the inverses are inherited along two paths)
        _e("tgt_a", ["tgt"], attrs=[("ta", T("INTEGER"), True, None)]),
        _e("tgt_b", ["tgt"], attrs=[("tb", T("STRING"), True, None)],
           inverse=[{"name": "via_b", "agg": {"agg": "SET", "lo": 0, "hi": None}, "entity": "owner", "attr": "refs"}]),
        _e("tgt_ab", ["tgt_a", "tgt_b"], attrs=[("tab", T("REAL"), True, None)]),
        # an attribute re-declared at two levels of one chain (value type narrowed, OPTIONAL tightened at the last level), and an
        # inverse over the re-declared reference
        _e("rtgt", inverse=[{"name": "users", "agg": {"agg": "SET", "lo": 0, "hi": None}, "entity": "rd0", "attr": "ref"}]),
        _e("rtgt1", ["rtgt"], attrs=[("k1", T("INTEGER"), True, None)]),
        _e("rtgt2", ["rtgt1"]),
        _e("rd0", attrs=[("a", T("NUMBER"), True, None), ("ref", named("rtgt"), False, None), ("z0", T("STRING"), True, None)]),
        _e("rd1", ["rd0"], attrs=[("a", T("REAL"), True, "rd0"), ("ref", named("rtgt1"), False, "rd0"), ("z1", T("INTEGER"), False, None)]),
        _e("rd2", ["rd1"], attrs=[("a", T("REAL"), False, "rd1"), ("ref", named("rtgt2"), False, "rd1"), ("z2", named("colour"), False, None)]),
    ],
}
