"""Independent recursive-descent parser for ISO 10303-21:2002 exchange structures (clear text encoding),
written from doc/iso-10303-21--2002.bnf; shares no code with the library under test.
Also parses the library's working-session variant (STEP_WORKING_SESSION; ... one-letter state prefix).

parse(text) -> {"kind":"exchange"|"working", "header":[(KW,[param])], "data":[inst]}
inst  = {"id":int, "complex":bool, "parts":[(KW,[param])], "state":None|"C"|"I"|"N"|"D"}
param = ("int",int) | ("real",text) | ("str",raw_without_quotes) | ("bin",hexdigits) | ("enum",NAME)
      | ("ref",int) | ("list",[param]) | ("typed",KW,param) | ("null",) | ("star",)
Raises P21SyntaxError when the text is not in the grammar."""
import re


class P21SyntaxError(Exception):
    pass


_WS = " \t\r\n\f\v"
_re_real = re.compile(r"[+-]?[0-9]+\.[0-9]*(E[+-]?[0-9]+)?")
_re_int = re.compile(r"[+-]?[0-9]+")
_re_kw = re.compile(r"!?[A-Z_][A-Z0-9_]*")
_re_enum = re.compile(r"\.[A-Z_][A-Z0-9_]*\.")
_re_bin = re.compile(r'"[0-3][0-9A-F]*"')
_re_ref = re.compile(r"#[0-9]+")
_HEX = "0123456789ABCDEF"


def _scan_string(s, i):
    """s[i] == "'"; returns index after closing quote; validates control directives."""
    n = len(s)
    j = i + 1
    while True:
        if j >= n:
            raise P21SyntaxError("unterminated string at %d" % i)
        c = s[j]
        if c == "'":
            if j + 1 < n and s[j + 1] == "'":
                j += 2
                continue
            return j + 1
        if c == "\\":
            # \\  |  \S\c  |  \P[A-I]\  |  \X\hh  |  \X2\(hhhh)+\X0\  |  \X4\(hhhhhhhh)+\X0\
            if s.startswith("\\\\", j):
                j += 2
                continue
            if s.startswith("\\S\\", j):
                if j + 3 >= n or not (0x20 <= ord(s[j + 3]) <= 0x7E):
                    raise P21SyntaxError("bad \\S\\ directive at %d" % j)
                j += 4
                continue
            m = re.compile(r"\\P[A-I]\\").match(s, j)
            if m:
                j = m.end()
                continue
            m = re.compile(r"\\X\\[0-9A-F]{2}").match(s, j)
            if m:
                j = m.end()
                continue
            m = re.compile(r"\\X2\\([0-9A-F]{4})+\\X0\\").match(s, j)
            if m:
                j = m.end()
                continue
            m = re.compile(r"\\X4\\([0-9A-F]{8})+\\X0\\").match(s, j)
            if m:
                j = m.end()
                continue
            raise P21SyntaxError("bad control directive in string at %d: %r" % (j, s[j:j + 8]))
        if not (0x20 <= ord(c) <= 0x7E):
            raise P21SyntaxError("illegal character %r in string at %d" % (c, j))
        j += 1


class _P:
    def __init__(self, s):
        self.s = s
        self.i = 0
        self.n = len(s)

    def ws(self):
        s, n = self.s, self.n
        while self.i < n:
            c = s[self.i]
            if c in _WS:
                self.i += 1
            elif c == "/" and s.startswith("/*", self.i):
                e = s.find("*/", self.i + 2)
                if e < 0:
                    raise P21SyntaxError("unterminated comment at %d" % self.i)
                self.i = e + 2
            else:
                break

    def lit(self, t):
        self.ws()
        if not self.s.startswith(t, self.i):
            raise P21SyntaxError("expected %r at %d, found %r" % (t, self.i, self.s[self.i:self.i + 20]))
        self.i += len(t)

    def peek(self):
        self.ws()
        return self.s[self.i] if self.i < self.n else ""

    def try_lit(self, t):
        self.ws()
        if self.s.startswith(t, self.i):
            self.i += len(t)
            return True
        return False

    def rx(self, r, what):
        self.ws()
        m = r.match(self.s, self.i)
        if not m:
            raise P21SyntaxError("expected %s at %d, found %r" % (what, self.i, self.s[self.i:self.i + 20]))
        self.i = m.end()
        return m.group(0)

    def param(self):
        c = self.peek()
        s = self.s
        if c == "$":
            self.i += 1
            return ("null",)
        if c == "*":
            self.i += 1
            return ("star",)
        if c == "'":
            e = _scan_string(s, self.i)
            v = s[self.i + 1:e - 1]
            self.i = e
            return ("str", v)
        if c == '"':
            t = self.rx(_re_bin, "binary")
            return ("bin", t[1:-1])
        if c == "#":
            t = self.rx(_re_ref, "instance name")
            return ("ref", int(t[1:]))
        if c == ".":
            t = self.rx(_re_enum, "enumeration")
            return ("enum", t[1:-1])
        if c == "(":
            return ("list", self.plist())
        if c and (c in "+-" or c.isdigit()):
            m = _re_real.match(s, self.i)
            if m:
                self.i = m.end()
                nxt = s[self.i:self.i + 1]
                if nxt and (nxt.isalnum() or nxt in "._"):
                    raise P21SyntaxError("bad real at %d: %r" % (self.i, s[m.start():self.i + 4]))
                return ("real", m.group(0))
            m = _re_int.match(s, self.i)
            if m:
                self.i = m.end()
                nxt = s[self.i:self.i + 1]
                if nxt and (nxt.isalnum() or nxt in "._"):
                    raise P21SyntaxError("bad integer at %d: %r" % (self.i, s[m.start():self.i + 4]))
                return ("int", int(m.group(0)))
            raise P21SyntaxError("bad number at %d" % self.i)
        if c and (c.isalpha() or c in "!_"):
            kw = self.rx(_re_kw, "keyword")
            self.lit("(")
            p = self.param()
            self.lit(")")
            return ("typed", kw, p)
        raise P21SyntaxError("unexpected %r at %d" % (s[self.i:self.i + 20], self.i))

    def plist(self):
        self.lit("(")
        out = []
        if self.try_lit(")"):
            return out
        while True:
            out.append(self.param())
            if self.try_lit(","):
                continue
            self.lit(")")
            return out

    def record(self):
        kw = self.rx(_re_kw, "keyword")
        return (kw, self.plist())


def parse(text, allow_working=True):
    p = _P(text)
    kind = "exchange"
    if p.try_lit("ISO-10303-21;"):
        endtok = "END-ISO-10303-21;"
    elif allow_working and p.try_lit("STEP_WORKING_SESSION;"):
        kind = "working"
        endtok = "END-STEP_WORKING_SESSION;"
    else:
        raise P21SyntaxError("missing ISO-10303-21; at start")
    p.lit("HEADER;")
    header = []
    while not p.try_lit("ENDSEC;"):
        header.append(p.record())
        p.lit(";")
    if len(header) < 3 or [h[0] for h in header[:3]] != ["FILE_DESCRIPTION", "FILE_NAME", "FILE_SCHEMA"]:
        raise P21SyntaxError("header must start with FILE_DESCRIPTION, FILE_NAME, FILE_SCHEMA: %r" % [h[0] for h in header])
    p.lit("DATA;")
    data = []
    while not p.try_lit("ENDSEC;"):
        state = None
        if kind == "working":
            p.ws()
            c = p.s[p.i:p.i + 1]
            if c in ("C", "I", "N", "D"):
                state = c
                p.i += 1
            else:
                raise P21SyntaxError("working-session instance without state letter at %d" % p.i)
        t = p.rx(_re_ref, "instance name")
        p.lit("=")
        if p.peek() == "(":
            p.lit("(")
            parts = []
            while not p.try_lit(")"):
                parts.append(p.record())
            if not parts:
                raise P21SyntaxError("empty complex instance #%s" % t)
            data.append({"id": int(t[1:]), "complex": True, "parts": parts, "state": state})
        else:
            data.append({"id": int(t[1:]), "complex": False, "parts": [p.record()], "state": state})
        p.lit(";")
    p.lit(endtok)
    p.ws()
    if p.i != p.n:
        raise P21SyntaxError("trailing garbage at %d: %r" % (p.i, p.s[p.i:p.i + 20]))
    return {"kind": kind, "header": header, "data": data}


def mentions(param):
    """ids referenced by a parameter (with multiplicity, in order)."""
    t = param[0]
    if t == "ref":
        return [param[1]]
    if t == "list":
        out = []
        for x in param[1]:
            out += mentions(x)
        return out
    if t == "typed":
        return mentions(param[2])
    return []
