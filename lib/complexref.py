"""Second, independent reference for C08: the set of legal complex entity data types of a subtype/supertype
graph, computed CONSTRUCTIVELY the way ISO 10303-11 Annex B describes it (not as a predicate on one set):

  B.2  evaluated sets.  An evaluated set is a set of complex entity data types, each a set of entity names
       (written a&b&c).  The supertype operators combine evaluated sets:
         ONEOF(x1..xn) -> the union of the operands' evaluated sets            [x1.., ..xn]
         x AND y       -> every pairwise combination                           [p&q | p in x, q in y]
         x ANDOR y     -> the operands' sets plus every pairwise combination   [x.., y.., p&q]
       with the identities a&a = a and [p, p] = [p].
  B.3  a) every supertype i gets its complete expression: the declared SUPERTYPE OF (...) expression, and every
          direct subtype that the expression does not name is combined with it by ANDOR (ISO 10303-11 9.2.5:
          a subtype not constrained otherwise may be combined freely); a supertype without an expression is the
          ANDOR of all its subtypes.
       b) E(i) = [i & (expr)] if i is ABSTRACT, else [i, i & (expr)].
       c) for every root r the expression E(r) is expanded by replacing, recursively, every subtype s that is itself
          a supertype by E(s), and reduced with B.2 -> evaluated set R(r);  R = union of the R(r).
       d) multiply inheriting subtypes: for a subtype m with several supertypes the members of R that contain m are
          combined with each other (R/m & R/m), the results are added to R (repeated until nothing new appears,
          as there may be several such subtypes); afterwards every member that contains an entity without all of its
          supertypes is removed.
       e) R may now hold combinations that violate a supertype expression on another path (e.g. two operands of a
          ONEOF joined in by step d) or an ABSTRACT supertype without any of its subtypes: for every member c and
          every supertype i in c, the part of c made of i and its descendants must itself be a member of the
          expanded set E(i); otherwise c is removed.

The result of `legal_sets(schema_dict)` is the final R as a set of frozensets of lower-case entity names.
`Ref(schema_dict).legal(S)` tests membership.  Nothing in here looks at expmodel.Schema.legal_set.
Works on the plain schema dicts of expmodel (entity: name, supers, abstract, superexpr)."""
import itertools


class Ref:
    def __init__(self, d):
        ents = d["entities"]
        self.names = [e["name"].lower() for e in ents]
        if len(set(self.names)) != len(self.names):
            raise ValueError("duplicate entity names")
        self.supers = {e["name"].lower(): [s.lower() for s in e["supers"]] for e in ents}
        self.abstract = {e["name"].lower(): bool(e.get("abstract")) for e in ents}
        self.subs = {n: [] for n in self.names}
        for n in self.names:
            for s in self.supers[n]:
                if n not in self.subs[s]:
                    self.subs[s].append(n)
        self.expr = {}
        for e in ents:
            n = e["name"].lower()
            self.expr[n] = self._complete(n, e.get("superexpr"))
        self._E = {}
        self._desc = {}
        self._R = None

    # ---- a) complete expressions ----------------------------------------------------------------------------------
    @staticmethod
    def _norm(x):
        if isinstance(x, str):
            return x.lower()
        return (x["op"], tuple(Ref._norm(a) for a in x["args"]))

    @staticmethod
    def _mentioned(x, out):
        if isinstance(x, str):
            out.append(x)
        else:
            for a in x[1]:
                Ref._mentioned(a, out)
        return out

    def _complete(self, n, declared):
        subs = self.subs[n]
        if not subs:
            if declared is not None:
                raise ValueError("supertype expression on an entity without subtypes: " + n)
            return None
        operands = []
        if declared is not None:
            x = self._norm(declared)
            named = self._mentioned(x, [])
            if len(set(named)) != len(named):
                raise ValueError("subtype named twice in the expression of " + n)
            for m in named:
                if m not in subs:
                    raise ValueError("expression of %s names %s which is not a direct subtype" % (n, m))
            operands.append(x)
            rest = [s for s in subs if s not in named]
        else:
            rest = list(subs)
        operands += rest
        if len(operands) == 1:
            return operands[0]
        return ("ANDOR", tuple(operands))

    # ---- B.2 operators on evaluated sets -----------------------------------------------------------------------------
    @staticmethod
    def _and(xs):
        acc = {frozenset()}
        for x in xs:
            acc = {p | q for p in acc for q in x}
        return acc

    def _eval(self, x):
        if isinstance(x, str):
            return self.E(x)
        op, args = x
        vals = [self._eval(a) for a in args]
        if op == "ONEOF":
            out = set()
            for v in vals:
                out |= v
            return out
        if op == "AND":
            return self._and(vals)
        if op == "ANDOR":
            out = set()
            for k in range(1, len(vals) + 1):
                for combo in itertools.combinations(vals, k):
                    out |= self._and(combo)
            return out
        raise ValueError("unknown operator %r" % (op,))

    # ---- b) + c) expanded evaluated set of one entity ------------------------------------------------------------------
    def E(self, n):
        if n in self._E:
            return self._E[n]
        me = frozenset([n])
        if not self.subs[n]:
            out = set() if self.abstract[n] else {me}
        else:
            out = {me | t for t in self._eval(self.expr[n])}
            if not self.abstract[n]:
                out.add(me)
        self._E[n] = out
        return out

    def desc(self, n):
        if n not in self._desc:
            out = set()
            for s in self.subs[n]:
                out.add(s)
                out |= self.desc(s)
            self._desc[n] = out
        return self._desc[n]

    # ---- c) .. e) ------------------------------------------------------------------------------------------------------
    def legal_sets(self):
        if self._R is not None:
            return self._R
        R = set()
        for n in self.names:
            if not self.supers[n]:
                R |= self.E(n)
        multi = [n for n in self.names if len(self.supers[n]) > 1]
        # d) combine the members that share a multiply inheriting subtype, to a fixed point
        if multi:
            work = list(R)
            while work:
                c = work.pop()
                new = []
                for o in R:
                    if c is o or o <= c or c <= o:
                        continue
                    if any(m in c and m in o for m in multi):
                        u = c | o
                        if u not in R:
                            new.append(u)
                for u in new:
                    if u not in R:
                        R.add(u)
                        work.append(u)
        # d) closure under supertypes
        R = {c for c in R if all(s in c for n in c for s in self.supers[n])}
        # e) every supertype's own part must be one of its evaluated combinations (covers ONEOF/AND violations brought
        #    in by d) and ABSTRACT supertypes left without a subtype)
        out = set()
        for c in R:
            ok = True
            for n in c:
                if self.abstract[n] and not any(s in c for s in self.subs[n]):
                    ok = False
                    break
                if self.subs[n]:
                    part = frozenset(x for x in c if x == n or x in self.desc(n))
                    if part not in self.E(n):
                        ok = False
                        break
            if ok:
                out.add(c)
        self._R = out
        return out

    def legal(self, S):
        return frozenset(x.lower() for x in S) in self.legal_sets()


def legal_sets(d):
    return Ref(d).legal_sets()
