"""Independent EXPRESS parser (ISO 10303-11:2004 annex A syntax, edition-1 subset + what the shipped schemas use):
declaration splitter, recursive-descent declaration/statement parser, Pratt expression parser with the operator
precedence of clause 12 (table "operator precedence"):

    1  [ ]  .  \                      component references (qualifiers)
    2  unary + - NOT
    3  **
    4  * / DIV MOD AND ||
    5  binary + - OR XOR
    6  = <> <= >= < > :=: :<>: IN LIKE

Operators of one row associate left to right (12.1 ... "evaluated left to right").  `**` and the relational operators
cannot be chained at all in the syntax (factor = simple_factor ['**' simple_factor]; expression = simple_expression
[rel_op_extended simple_expression]); a chain is reported as `Unparsed('non-ISO chain ...')`.

Everything is turned into a *canonical form*: plain nested tuples of strings in which every expression is fully
parenthesised, reserved words are upper case, identifiers lower case, remarks are gone.  Two sources declare the same
thing iff their canonical forms are equal (modulo the explicitly listed normalisations of `Norm`).
"""
from fractions import Fraction

import exptok
from exptok import BUILTIN_FUNCS, BUILTIN_PROCS


class Unparsed(Exception):
    """The token stream is not something this parser handles (unsupported construct or syntax error)."""

    def __init__(self, msg, tok=None):
        where = ""
        if tok is not None:
            where = " at line %s near %s" % (tok[2], exptok.show(tok))
        Exception.__init__(self, msg + where)


# ------------------------------------------------------------------------------------------------------------
# normalisation switches.  Every switch that is ON by default is a rewriting that ISO 10303-11 itself defines as
# meaning-preserving; the clause is quoted next to it.  C07 uses the defaults; the self-test uses Norm(strict=True).

class Norm:
    def __init__(self, strict=False):
        # 8.2.2 LIST / 8.2.3 BAG / 8.2.4 SET: "if the bound_spec is omitted, the limits are [0:?]"
        self.default_bounds = not strict
        # 13.9.1 increment control: "if the increment is not given, a default of one (1) is used"
        self.default_increment = not strict
        # 12.2.4 interval expression { low op item op high }: defined as TRUE iff (low op item) and (item op high) both
        # hold, FALSE if either is FALSE, else UNKNOWN - i.e. exactly (low op item) AND (item op high) of 12.4.2
        self.interval_as_and = not strict
        # 12.1: "+ as a unary operator is the identity"
        self.drop_unary_plus = not strict
        # 13.1: "a null statement consists solely of a semicolon; it has no effect"
        self.drop_null_stmt = not strict
        # 7.5.2 / 7.5.3: a literal denotes a value; 007 and 7, 1.5E3 and 1500.0 are the same INTEGER / REAL value
        # (an INTEGER literal never equals a REAL literal: the types differ)
        self.literal_values = not strict
        # the property itself: "up to ... the splitting of long string literals": adjacent simple string literals joined
        # by '+' inside one left-to-right chain of '+' are merged (the pieces are remembered so that the comparison
        # can check that the printer only split, never invented)
        self.merge_string_chains = not strict


DEFAULT_NORM = Norm()
STRICT_NORM = Norm(strict=True)

REL_OPS = ("=", "<>", "<=", ">=", "<", ">", ":=:", ":<>:", "IN", "LIKE")
ADD_OPS = ("+", "-", "OR", "XOR")
MUL_OPS = ("*", "/", "DIV", "MOD", "AND", "||")


class Cursor:
    def __init__(self, toks, norm=DEFAULT_NORM):
        self.t = toks
        self.i = 0
        self.norm = norm

    def peek(self, k=0):
        j = self.i + k
        return self.t[j] if j < len(self.t) else ("eof", "", self.t[-1][2] if self.t else 0)

    def next(self):
        tok = self.peek()
        self.i += 1
        return tok

    def at(self, kind, text=None, k=0):
        tok = self.peek(k)
        return tok[0] == kind and (text is None or tok[1] == text)

    def at_kw(self, *words):
        tok = self.peek()
        return tok[0] == "kw" and tok[1] in words

    def at_sym(self, *syms):
        tok = self.peek()
        return tok[0] == "sym" and tok[1] in syms

    def accept_kw(self, w):
        if self.at("kw", w):
            self.i += 1
            return True
        return False

    def accept_sym(self, s):
        if self.at("sym", s):
            self.i += 1
            return True
        return False

    def expect_kw(self, w):
        if not self.accept_kw(w):
            raise Unparsed("expected %s" % w, self.peek())

    def expect_sym(self, s):
        if not self.accept_sym(s):
            raise Unparsed("expected '%s'" % s, self.peek())

    def ident(self):
        tok = self.next()
        if tok[0] != "id":
            raise Unparsed("expected an identifier", tok)
        return tok[1]

    def eof(self):
        return self.i >= len(self.t)


# ------------------------------------------------------------------------------------------------------------
# expressions -> AST
#   ('int', n) ('real', 'num/den') ('str', value, pieces) ('estr', hex) ('bin', bits) ('log', W)
#   ('const', 'PI'|'CONST_E'|'SELF'|'?') ('id', name)
#   ('un', op, e) ('op', op, l, r)
#   ('call', NAME-or-name, [args] | None)          None: no parameter list at all
#   ('agg', [(e, repetition|None), ...])
#   ('query', var, source, condition)
#   ('interval', low, op1, item, op2, high)
#   ('dot', e, name) ('grp', e, name) ('idx', e, i) ('rng', e, i, j)

def _real_value(text):
    """value of a REAL literal.  The reference value is the IEEE double nearest to the decimal text (the front end's
    REAL is a C double; ISO 10303-11 8.1.2 leaves the precision of an unconstrained REAL to the implementation):
    two literals are the same value iff they denote the same double."""
    t = text.lower()
    mant, _, exp = t.partition("e")
    f = Fraction(mant if not mant.endswith(".") else mant + "0")
    if exp:
        f *= Fraction(10) ** int(exp)
    try:
        return repr(float(f))
    except OverflowError:
        return "inf"


def parse_expression(c):
    left = _simple_expression(c)
    tok = c.peek()
    if (tok[0] == "sym" and tok[1] in REL_OPS) or (tok[0] == "kw" and tok[1] in ("IN", "LIKE")):
        c.next()
        right = _simple_expression(c)
        left = ("op", tok[1], left, right)
        tok = c.peek()
        if (tok[0] == "sym" and tok[1] in REL_OPS) or (tok[0] == "kw" and tok[1] in ("IN", "LIKE")):
            raise Unparsed("non-ISO chain of relational operators (expression = simple_expression [rel_op simple_expression])", tok)
    return left


def _simple_expression(c):
    left = _term(c)
    while True:
        tok = c.peek()
        if (tok[0] == "sym" and tok[1] in ("+", "-")) or (tok[0] == "kw" and tok[1] in ("OR", "XOR")):
            c.next()
            right = _term(c)
            left = ("op", tok[1], left, right)
        else:
            return left


def _term(c):
    left = _factor(c)
    while True:
        tok = c.peek()
        if (tok[0] == "sym" and tok[1] in ("*", "/", "||")) or (tok[0] == "kw" and tok[1] in ("DIV", "MOD", "AND")):
            c.next()
            right = _factor(c)
            left = ("op", tok[1], left, right)
        else:
            return left


def _factor(c):
    left = _simple_factor(c)
    if c.at_sym("**"):
        c.next()
        right = _simple_factor(c)
        left = ("op", "**", left, right)
        if c.at_sym("**"):
            raise Unparsed("non-ISO chain of '**' (factor = simple_factor ['**' simple_factor])", c.peek())
    return left


def _simple_factor(c):
    tok = c.peek()
    if (tok[0] == "sym" and tok[1] in ("+", "-")) or (tok[0] == "kw" and tok[1] == "NOT"):
        c.next()
        nxt = c.peek()
        if (nxt[0] == "sym" and nxt[1] in ("+", "-")) or (nxt[0] == "kw" and nxt[1] == "NOT"):
            raise Unparsed("non-ISO sequence of unary operators (simple_factor = [unary_op] ( '(' expression ')' | primary ))", nxt)
        e = _primary(c)
        if tok[1] == "+" and c.norm.drop_unary_plus:
            return e
        return ("un", tok[1], e)
    return _primary(c)


def _qualifiers(c, e):
    while True:
        if c.at_sym("."):
            c.next()
            e = ("dot", e, c.ident())
        elif c.at_sym("\\"):
            c.next()
            e = ("grp", e, c.ident())
        elif c.at_sym("["):
            c.next()
            i = _simple_expression(c)
            if c.accept_sym(":"):
                j = _simple_expression(c)
                c.expect_sym("]")
                e = ("rng", e, i, j)
            else:
                c.expect_sym("]")
                e = ("idx", e, i)
        else:
            return e


def _args(c):
    """after '(' has been consumed"""
    args = []
    if c.accept_sym(")"):
        return args
    while True:
        args.append(parse_expression(c))
        if c.accept_sym(","):
            continue
        c.expect_sym(")")
        return args


def _primary(c):
    tok = c.next()
    k, t = tok[0], tok[1]
    if k == "int":
        return ("int", int(t)) if c.norm.literal_values else ("int", t)
    if k == "real":
        return ("real", _real_value(t)) if c.norm.literal_values else ("real", t.upper())
    if k == "str":
        return ("str", t, (t,))
    if k == "estr":
        return ("estr", t)
    if k == "bin":
        return ("bin", t)
    if k == "sym":
        if t == "(":
            e = parse_expression(c)
            c.expect_sym(")")
            # ISO: a parenthesised expression is not a qualifiable_factor; the front end under test accepts
            # qualifiers here, so do we (kept explicit in the AST, nothing is normalised away)
            return _qualifiers(c, ("paren", e)) if c.at_sym(".", "\\", "[") else e
        if t == "[":
            items = []
            if not c.accept_sym("]"):
                while True:
                    e = parse_expression(c)
                    rep = None
                    if c.accept_sym(":"):
                        rep = parse_expression(c)
                    items.append((e, rep))
                    if c.accept_sym(","):
                        continue
                    c.expect_sym("]")
                    break
            return ("agg", items)
        if t == "{":
            low = _simple_expression(c)
            op1 = c.next()
            if not (op1[0] == "sym" and op1[1] in ("<", "<=")):
                raise Unparsed("interval operator must be < or <=", op1)
            item = _simple_expression(c)
            op2 = c.next()
            if not (op2[0] == "sym" and op2[1] in ("<", "<=")):
                raise Unparsed("interval operator must be < or <=", op2)
            high = _simple_expression(c)
            c.expect_sym("}")
            if c.norm.interval_as_and:
                return ("op", "AND", ("op", op1[1], low, item), ("op", op2[1], item, high))
            return ("interval", low, op1[1], item, op2[1], high)
        if t == "?":
            return ("const", "?")
        raise Unparsed("unexpected symbol in expression", tok)
    if k == "kw":
        if t in ("TRUE", "FALSE", "UNKNOWN"):
            return ("log", t)
        if t in ("PI", "CONST_E"):
            return ("const", t)
        if t == "SELF":
            return _qualifiers(c, ("const", "SELF"))
        if t == "QUERY":
            c.expect_sym("(")
            v = c.ident()
            c.expect_sym("<*")
            src = parse_expression(c)
            c.expect_sym("|")
            cond = parse_expression(c)
            c.expect_sym(")")
            return ("query", v, src, cond)
        if t in BUILTIN_FUNCS:
            args = None
            if c.accept_sym("("):
                args = _args(c)
            return _qualifiers(c, ("call", t, args))
        raise Unparsed("unexpected reserved word in expression", tok)
    if k == "id":
        if c.accept_sym("("):
            return _qualifiers(c, ("call", t, _args(c)))
        return _qualifiers(c, ("id", t))
    raise Unparsed("unexpected token in expression", tok)


# ---- canonical rendering of expressions ---------------------------------------------------------------------

def _left_chain(e, op):
    """operands of the maximal left-to-right chain ((a op b) op c) ... ; a right operand that is itself a chain
    (explicit parentheses) stays one operand"""
    out = []
    while e[0] == "op" and e[1] == op:
        out.append(e[3])
        e = e[2]
    out.append(e)
    out.reverse()
    return out


def normalise(e, norm=DEFAULT_NORM):
    """Post-parse normalisation of an expression AST (string chain merging)."""
    k = e[0]
    if k == "op":
        if e[1] == "+" and norm.merge_string_chains:
            ops = [normalise(x, norm) for x in _left_chain(e, "+")]
            merged = []
            for x in ops:
                if x[0] == "str" and merged and merged[-1][0] == "str":
                    merged[-1] = ("str", merged[-1][1] + x[1], merged[-1][2] + x[2])
                else:
                    merged.append(x)
            r = merged[0]
            for x in merged[1:]:
                r = ("op", "+", r, x)
            return r
        return ("op", e[1], normalise(e[2], norm), normalise(e[3], norm))
    if k == "un":
        return ("un", e[1], normalise(e[2], norm))
    if k == "paren":
        return ("paren", normalise(e[1], norm))
    if k == "call":
        return ("call", e[1], None if e[2] is None else [normalise(a, norm) for a in e[2]])
    if k == "agg":
        return ("agg", [(normalise(a, norm), None if r is None else normalise(r, norm)) for a, r in e[1]])
    if k == "query":
        return ("query", e[1], normalise(e[2], norm), normalise(e[3], norm))
    if k == "interval":
        return ("interval", normalise(e[1], norm), e[2], normalise(e[3], norm), e[4], normalise(e[5], norm))
    if k in ("dot", "grp"):
        return (k, normalise(e[1], norm), e[2])
    if k == "idx":
        return ("idx", normalise(e[1], norm), normalise(e[2], norm))
    if k == "rng":
        return ("rng", normalise(e[1], norm), normalise(e[2], norm), normalise(e[3], norm))
    return e


def render(e, pieces=None):
    """Canonical fully parenthesised text of an expression AST. If `pieces` is a list, the piece tuples of all
    simple string literals are appended to it in order (for the refinement check of literal splitting)."""
    k = e[0]
    if k == "int":
        return str(e[1])
    if k == "real":
        return "REAL(" + e[1] + ")"     # e[1]: repr of the double
    if k == "str":
        if pieces is not None:
            pieces.append(e[2])
        return "'" + e[1].replace("'", "''") + "'"
    if k == "estr":
        return '"' + e[1] + '"'
    if k == "bin":
        return "%" + e[1]
    if k in ("log", "const", "id"):
        return e[1]
    if k == "un":
        return "(" + e[1] + " " + render(e[2], pieces) + ")"
    if k == "op":
        return "(" + render(e[2], pieces) + " " + e[1] + " " + render(e[3], pieces) + ")"
    if k == "paren":
        return "(" + render(e[1], pieces) + ")"
    if k == "call":
        if e[2] is None:
            return e[1]
        return e[1] + "(" + ", ".join(render(a, pieces) for a in e[2]) + ")"
    if k == "agg":
        return "[" + ", ".join(render(a, pieces) + ("" if r is None else " : " + render(r, pieces)) for a, r in e[1]) + "]"
    if k == "query":
        return "QUERY(" + e[1] + " <* " + render(e[2], pieces) + " | " + render(e[3], pieces) + ")"
    if k == "interval":
        return "{" + render(e[1], pieces) + " " + e[2] + " " + render(e[3], pieces) + " " + e[4] + " " + render(e[5], pieces) + "}"
    if k == "dot":
        return render(e[1], pieces) + "." + e[2]
    if k == "grp":
        return render(e[1], pieces) + "\\" + e[2]
    if k == "idx":
        return render(e[1], pieces) + "[" + render(e[2], pieces) + "]"
    if k == "rng":
        return render(e[1], pieces) + "[" + render(e[2], pieces) + " : " + render(e[3], pieces) + "]"
    raise AssertionError("unknown AST node %r" % (k,))


class Expr(str):
    """canonical expression text that also carries the string-literal piece lists (ignored by ==)"""
    pieces = ()
    ast = None


def mk_expr(ast):
    s = Expr(render(ast))
    s.ast = ast
    return s


def expr(c):
    """parse one expression at the cursor and return its canonical text"""
    ast = normalise(parse_expression(c), c.norm)
    pc = []
    s = Expr(render(ast, pc))
    s.pieces = tuple(pc)
    s.ast = ast
    return s


def expr_features(ast, acc):
    """operator / construct census of an expression AST (used for evidence classes and the non-trivial rule)"""
    k = ast[0]
    if k == "op":
        acc.setdefault("binops", set()).add(ast[1])
        acc["n_binop"] = acc.get("n_binop", 0) + 1
        expr_features(ast[2], acc)
        expr_features(ast[3], acc)
    elif k == "un":
        acc.setdefault("unops", set()).add(ast[1])
        expr_features(ast[2], acc)
    elif k == "paren":
        expr_features(ast[1], acc)
    elif k == "call":
        acc.setdefault("calls", set()).add(ast[1])
        for a in ast[2] or []:
            expr_features(a, acc)
    elif k == "agg":
        acc["agg_init"] = acc.get("agg_init", 0) + 1
        for a, r in ast[1]:
            expr_features(a, acc)
            if r is not None:
                acc["agg_rep"] = acc.get("agg_rep", 0) + 1
                expr_features(r, acc)
    elif k == "query":
        acc["query"] = acc.get("query", 0) + 1
        expr_features(ast[2], acc)
        expr_features(ast[3], acc)
    elif k == "interval":
        acc["interval"] = acc.get("interval", 0) + 1
        for x in (ast[1], ast[3], ast[5]):
            expr_features(x, acc)
    elif k in ("dot", "grp"):
        acc[k] = acc.get(k, 0) + 1
        expr_features(ast[1], acc)
    elif k in ("idx", "rng"):
        acc[k] = acc.get(k, 0) + 1
        for x in ast[1:]:
            expr_features(x, acc)
    elif k == "str":
        acc["maxstr"] = max(acc.get("maxstr", 0), len(ast[1]))
        acc.setdefault("lits", set()).add("str")
    elif k in ("int", "real", "estr", "bin", "log"):
        acc.setdefault("lits", set()).add(k)
    elif k == "const":
        acc.setdefault("consts", set()).add(ast[1])


# ------------------------------------------------------------------------------------------------------------
# types

SIMPLE_TYPES = ("INTEGER", "REAL", "NUMBER", "BOOLEAN", "LOGICAL", "STRING", "BINARY")


def _bound_spec(c):
    """optional '[' bound ':' bound ']' -> (lo, hi) or None"""
    if not c.accept_sym("["):
        return None
    lo = expr(c)
    c.expect_sym(":")
    hi = expr(c)
    c.expect_sym("]")
    return (lo, hi)


def parse_type(c, param=False):
    """instantiable / parameter type -> canonical tuple"""
    tok = c.peek()
    if tok[0] == "id":
        c.next()
        return ("ref", tok[1])
    if tok[0] != "kw":
        raise Unparsed("expected a type", tok)
    w = tok[1]
    if w in SIMPLE_TYPES:
        c.next()
        width, fixed = None, False
        if w in ("STRING", "BINARY", "REAL", "INTEGER") and c.at_sym("("):
            # width_spec (8.1.6/8.1.7) / precision_spec (8.1.2); INTEGER(n) is not ISO but harmless to carry
            if w == "INTEGER":
                raise Unparsed("INTEGER with a precision is not ISO 10303-11", tok)
            c.next()
            width = expr(c)
            c.expect_sym(")")
            if w in ("STRING", "BINARY") and c.accept_kw("FIXED"):
                fixed = True
        return ("simple", w, width, fixed)
    if w in ("ARRAY", "LIST", "BAG", "SET"):
        c.next()
        b = _bound_spec(c)
        c.expect_kw("OF")
        optional = unique = False
        order = ""
        # ISO: ARRAY ... OF [OPTIONAL] [UNIQUE]; LIST ... OF [UNIQUE].  Both orders are read (the order is recorded
        # in `order` for the census only): the flags, not their order, are what the type declares.
        for _ in range(2):
            if c.at_kw("OPTIONAL") and not optional and w == "ARRAY":
                c.next()
                optional = True
                order += "O"
            elif c.at_kw("UNIQUE") and not unique and w in ("ARRAY", "LIST"):
                c.next()
                unique = True
                order += "U"
        base = parse_type(c, param)
        if b is None:
            if w == "ARRAY" and not param:
                raise Unparsed("ARRAY without bounds", tok)
            if c.norm.default_bounds and w != "ARRAY":
                b = (mk_expr(("int", 0)), mk_expr(("const", "?")))
        t = ("agg", w, b[0] if b else None, b[1] if b else None, optional, unique, base)
        if order == "UO":
            NONSTANDARD["UNIQUE OPTIONAL order"] = NONSTANDARD.get("UNIQUE OPTIONAL order", 0) + 1
        return t
    if param and w == "GENERIC":
        c.next()
        label = None
        if c.accept_sym(":"):
            label = c.ident()
        return ("generic", label)
    if param and w == "GENERIC_ENTITY":
        c.next()
        label = None
        if c.accept_sym(":"):
            label = c.ident()
        return ("generic_entity", label)
    if param and w == "AGGREGATE":
        c.next()
        label = None
        if c.accept_sym(":"):
            label = c.ident()
        c.expect_kw("OF")
        return ("aggregate", label, parse_type(c, True))
    raise Unparsed("unsupported type", tok)


NONSTANDARD = {}      # census of accepted-but-not-ISO spellings seen while parsing (reset by the caller)


# ------------------------------------------------------------------------------------------------------------
# statements

def parse_stmts(c, enders):
    out = []
    while not (c.peek()[0] == "kw" and c.peek()[1] in enders):
        if c.eof():
            raise Unparsed("unexpected end of input in statement list")
        s = parse_stmt(c)
        if s[0] == "null" and c.norm.drop_null_stmt:
            continue
        out.append(s)
    return out


def parse_stmt(c):
    tok = c.peek()
    k, t = tok[0], tok[1]
    if k == "sym" and t == ";":
        c.next()
        return ("null",)
    if k == "kw":
        if t == "ALIAS":
            c.next()
            v = c.ident()
            c.expect_kw("FOR")
            # general_ref {qualifier}
            target = c.next()
            if target[0] == "id":
                e = ("id", target[1])
            elif target[0] == "kw" and target[1] == "SELF":
                e = ("const", "SELF")
            else:
                raise Unparsed("ALIAS target", target)
            e = _qualifiers(c, e)
            c.expect_sym(";")
            body = parse_stmts(c, ("END_ALIAS",))
            c.expect_kw("END_ALIAS")
            c.expect_sym(";")
            return ("alias", v, render(e), body)
        if t == "CASE":
            c.next()
            sel = expr(c)
            c.expect_kw("OF")
            actions = []
            otherwise = None
            while not c.at_kw("END_CASE"):
                if c.accept_kw("OTHERWISE"):
                    c.expect_sym(":")
                    otherwise = parse_stmt(c)
                    continue
                if otherwise is not None:
                    raise Unparsed("case action after OTHERWISE", c.peek())
                labels = [expr(c)]
                while c.accept_sym(","):
                    labels.append(expr(c))
                c.expect_sym(":")
                actions.append((tuple(labels), parse_stmt(c)))
            c.expect_kw("END_CASE")
            c.expect_sym(";")
            return ("case", sel, actions, otherwise)
        if t == "BEGIN":
            c.next()
            body = parse_stmts(c, ("END",))
            c.expect_kw("END")
            c.expect_sym(";")
            return ("compound", body)
        if t == "ESCAPE":
            c.next()
            c.expect_sym(";")
            return ("escape",)
        if t == "SKIP":
            c.next()
            c.expect_sym(";")
            return ("skip",)
        if t == "IF":
            c.next()
            cond = expr(c)
            c.expect_kw("THEN")
            then = parse_stmts(c, ("ELSE", "END_IF"))
            els = None
            if c.accept_kw("ELSE"):
                els = parse_stmts(c, ("END_IF",))
            c.expect_kw("END_IF")
            c.expect_sym(";")
            return ("if", cond, then, els)
        if t == "REPEAT":
            c.next()
            incr = None
            if c.at("id") and c.at("sym", ":=", 1):
                v = c.ident()
                c.next()
                lo = expr(c)
                c.expect_kw("TO")
                hi = expr(c)
                by = None
                if c.accept_kw("BY"):
                    by = expr(c)
                elif c.norm.default_increment:
                    by = mk_expr(("int", 1))
                incr = (v, lo, hi, by)
            wh = un = None
            if c.accept_kw("WHILE"):
                wh = expr(c)
            if c.accept_kw("UNTIL"):
                un = expr(c)
            c.expect_sym(";")
            body = parse_stmts(c, ("END_REPEAT",))
            c.expect_kw("END_REPEAT")
            c.expect_sym(";")
            return ("repeat", incr, wh, un, body)
        if t == "RETURN":
            c.next()
            e = None
            if c.accept_sym("("):
                e = expr(c)
                c.expect_sym(")")
            c.expect_sym(";")
            return ("return", e)
        if t in BUILTIN_PROCS:
            c.next()
            args = None
            if c.accept_sym("("):
                args = [expr_from_ast(c, a) for a in _args(c)]
            c.expect_sym(";")
            return ("pcall", t, args)
        raise Unparsed("unexpected reserved word at statement start", tok)
    if k == "id":
        # assignment or procedure call
        if c.at("sym", "(", 1) or c.at("sym", ";", 1):
            c.next()
            args = None
            if c.accept_sym("("):
                args = [expr_from_ast(c, a) for a in _args(c)]
            c.expect_sym(";")
            return ("pcall", t, args)
        c.next()
        lhs = _qualifiers(c, ("id", t))
        c.expect_sym(":=")
        rhs = expr(c)
        c.expect_sym(";")
        return ("assign", render(normalise(lhs, c.norm)), rhs)
    raise Unparsed("unexpected token at statement start", tok)


def expr_from_ast(c, ast):
    ast = normalise(ast, c.norm)
    pc = []
    s = Expr(render(ast, pc))
    s.pieces = tuple(pc)
    s.ast = ast
    return s


# ------------------------------------------------------------------------------------------------------------
# declarations

def _where(c, enders):
    """WHERE already consumed: list of (label|None, expr)"""
    rules = []
    while not (c.peek()[0] == "kw" and c.peek()[1] in enders):
        label = None
        if c.at("id") and c.at("sym", ":", 1):
            label = c.ident()
            c.next()
        e = expr(c)
        c.expect_sym(";")
        rules.append((label, e))
    if not rules:
        raise Unparsed("empty WHERE clause", c.peek())
    return rules


def _attr_name(c):
    """attribute_decl: simple id or SELF\\entity.attr [RENAMED id]"""
    if c.accept_kw("SELF"):
        c.expect_sym("\\")
        ent = c.ident()
        c.expect_sym(".")
        a = c.ident()
        if c.at_kw("RENAMED"):
            raise Unparsed("RENAMED", c.peek())
        return "SELF\\%s.%s" % (ent, a)
    return c.ident()


def _supertype_expr(c):
    """supertype_expression = supertype_factor {ANDOR supertype_factor}; factor = term {AND term} (9.2.5.? precedence)"""
    left = _supertype_factor(c)
    while c.accept_kw("ANDOR"):
        left = "(%s ANDOR %s)" % (left, _supertype_factor(c))
    return left


def _supertype_factor(c):
    left = _supertype_term(c)
    while c.accept_kw("AND"):
        left = "(%s AND %s)" % (left, _supertype_term(c))
    return left


def _supertype_term(c):
    if c.accept_kw("ONEOF"):
        c.expect_sym("(")
        items = [_supertype_expr(c)]
        while c.accept_sym(","):
            items.append(_supertype_expr(c))
        c.expect_sym(")")
        return "ONEOF(" + ", ".join(items) + ")"
    if c.accept_sym("("):
        e = _supertype_expr(c)
        c.expect_sym(")")
        return e
    return c.ident()


class Decls:
    """result of parsing one file: decls[(scope_path, kind, name)] = canonical; skipped[(scope_path, kind, name)] = reason"""

    def __init__(self):
        self.decls = {}
        self.skipped = {}
        self.order = []

    def add(self, key, val):
        if key in self.decls or key in self.skipped:
            raise Unparsed("duplicate declaration %r" % (key,))
        self.decls[key] = val
        self.order.append(key)


def _algorithm_head(c, scope, out):
    """{declaration} [constant_decl] [local_decl] -> locals list; nested declarations are added to `out`.
    (The front end under test accepts any order; so do we - the order of *kinds* is not part of a declaration.)"""
    locs = []
    while True:
        if c.at_kw("ENTITY", "TYPE", "FUNCTION", "PROCEDURE"):
            parse_declaration(c, scope, out)
        elif c.at_kw("CONSTANT"):
            _constants(c, scope, out)
        elif c.at_kw("LOCAL"):
            c.next()
            while not c.at_kw("END_LOCAL"):
                names = [c.ident()]
                while c.accept_sym(","):
                    names.append(c.ident())
                c.expect_sym(":")
                t = parse_type(c, True)
                init = None
                if c.accept_sym(":="):
                    init = expr(c)
                c.expect_sym(";")
                for n in names:
                    locs.append((n, t, init))
            c.expect_kw("END_LOCAL")
            c.expect_sym(";")
        else:
            return locs


def _constants(c, scope, out):
    c.expect_kw("CONSTANT")
    while not c.at_kw("END_CONSTANT"):
        name = c.ident()
        c.expect_sym(":")
        t = parse_type(c)
        c.expect_sym(":=")
        e = expr(c)
        c.expect_sym(";")
        out.add((scope, "constant", name), {"type": t, "init": e})
    c.expect_kw("END_CONSTANT")
    c.expect_sym(";")


def _formal_params(c, allow_var):
    params = []
    if c.accept_sym("("):
        while True:
            var = False
            if c.at_kw("VAR"):
                if not allow_var:
                    raise Unparsed("VAR in a function header", c.peek())
                c.next()
                var = True
            names = [c.ident()]
            while c.accept_sym(","):
                names.append(c.ident())
            c.expect_sym(":")
            t = parse_type(c, True)
            for n in names:
                params.append((var, n, t))
            if c.accept_sym(";"):
                continue
            c.expect_sym(")")
            break
    return params


def parse_declaration(c, scope, out):
    tok = c.next()
    w = tok[1]
    if w == "TYPE":
        name = c.ident()
        c.expect_sym("=")
        if c.at_kw("EXTENSIBLE", "GENERIC_ENTITY"):
            raise Unparsed("edition 2 type", c.peek())
        if c.accept_kw("ENUMERATION"):
            if not c.accept_kw("OF"):
                raise Unparsed("edition 2 enumeration", c.peek())
            c.expect_sym("(")
            items = [c.ident()]
            while c.accept_sym(","):
                items.append(c.ident())
            c.expect_sym(")")
            under = ("enum", tuple(items))
        elif c.accept_kw("SELECT"):
            if not c.at_sym("("):
                raise Unparsed("edition 2 select", c.peek())
            c.next()
            items = [c.ident()]
            while c.accept_sym(","):
                items.append(c.ident())
            c.expect_sym(")")
            under = ("select", tuple(items))
        else:
            under = parse_type(c)
        c.expect_sym(";")
        where = []
        if c.accept_kw("WHERE"):
            where = _where(c, ("END_TYPE",))
        c.expect_kw("END_TYPE")
        c.expect_sym(";")
        out.add((scope, "type", name), {"under": under, "where": where})
        return
    if w == "ENTITY":
        name = c.ident()
        d = {"abstract": False, "supertype_of": None, "subtype_of": (), "attrs": [], "derive": [], "inverse": [],
             "unique": [], "where": []}
        if c.accept_kw("ABSTRACT"):
            d["abstract"] = True
            c.expect_kw("SUPERTYPE")
            if c.accept_kw("OF"):
                c.expect_sym("(")
                d["supertype_of"] = _supertype_expr(c)
                c.expect_sym(")")
        elif c.accept_kw("SUPERTYPE"):
            c.expect_kw("OF")
            c.expect_sym("(")
            d["supertype_of"] = _supertype_expr(c)
            c.expect_sym(")")
        if c.accept_kw("SUBTYPE"):
            c.expect_kw("OF")
            c.expect_sym("(")
            sup = [c.ident()]
            while c.accept_sym(","):
                sup.append(c.ident())
            c.expect_sym(")")
            d["subtype_of"] = tuple(sup)
        c.expect_sym(";")
        while not c.at_kw("DERIVE", "INVERSE", "UNIQUE", "WHERE", "END_ENTITY"):
            names = [_attr_name(c)]
            while c.accept_sym(","):
                names.append(_attr_name(c))
            c.expect_sym(":")
            opt = c.accept_kw("OPTIONAL")
            t = parse_type(c)
            c.expect_sym(";")
            for n in names:
                d["attrs"].append((n, opt, t))
        if c.accept_kw("DERIVE"):
            while not c.at_kw("INVERSE", "UNIQUE", "WHERE", "END_ENTITY"):
                n = _attr_name(c)
                c.expect_sym(":")
                t = parse_type(c)
                c.expect_sym(":=")
                e = expr(c)
                c.expect_sym(";")
                d["derive"].append((n, t, e))
        if c.accept_kw("INVERSE"):
            while not c.at_kw("UNIQUE", "WHERE", "END_ENTITY"):
                n = _attr_name(c)
                c.expect_sym(":")
                t = parse_type(c)
                c.expect_kw("FOR")
                a = c.ident()
                ent = None
                if c.accept_sym("."):
                    ent, a = a, c.ident()
                c.expect_sym(";")
                d["inverse"].append((n, t, ent, a))
        if c.accept_kw("UNIQUE"):
            while not c.at_kw("WHERE", "END_ENTITY"):
                label = None
                if c.at("id") and c.at("sym", ":", 1):
                    label = c.ident()
                    c.next()
                refs = [_attr_name(c)]
                while c.accept_sym(","):
                    refs.append(_attr_name(c))
                c.expect_sym(";")
                d["unique"].append((label, tuple(refs)))
        if c.accept_kw("WHERE"):
            d["where"] = _where(c, ("END_ENTITY",))
        c.expect_kw("END_ENTITY")
        c.expect_sym(";")
        out.add((scope, "entity", name), d)
        return
    if w in ("FUNCTION", "PROCEDURE"):
        name = c.ident()
        kind = w.lower()
        params = _formal_params(c, allow_var=(w == "PROCEDURE"))
        ret = None
        if w == "FUNCTION":
            c.expect_sym(":")
            ret = parse_type(c, True)
        c.expect_sym(";")
        inner = scope + ((kind, name),)
        locs = _algorithm_head(c, inner, out)
        body = parse_stmts(c, ("END_" + w,))
        c.expect_kw("END_" + w)
        c.expect_sym(";")
        out.add((scope, kind, name), {"params": params, "ret": ret, "locals": locs, "body": body})
        return
    if w == "RULE":
        name = c.ident()
        c.expect_kw("FOR")
        c.expect_sym("(")
        ents = [c.ident()]
        while c.accept_sym(","):
            ents.append(c.ident())
        c.expect_sym(")")
        c.expect_sym(";")
        inner = scope + (("rule", name),)
        locs = _algorithm_head(c, inner, out)
        body = parse_stmts(c, ("WHERE",))
        c.expect_kw("WHERE")
        where = _where(c, ("END_RULE",))
        c.expect_kw("END_RULE")
        c.expect_sym(";")
        out.add((scope, "rule", name), {"for": tuple(ents), "locals": locs, "body": body, "where": where})
        return
    raise Unparsed("unsupported declaration", tok)


OPENERS = {"TYPE": "END_TYPE", "ENTITY": "END_ENTITY", "FUNCTION": "END_FUNCTION", "PROCEDURE": "END_PROCEDURE",
           "RULE": "END_RULE", "CONSTANT": "END_CONSTANT", "SUBTYPE_CONSTRAINT": "END_SUBTYPE_CONSTRAINT"}


def _slice_declaration(toks, i):
    """toks[i] is an opener keyword at schema level: returns j, the index after the ';' closing the matching END_."""
    opener = toks[i][1]
    stack = [OPENERS[opener]]
    j = i + 1
    n = len(toks)
    while j < n and stack:
        k, t = toks[j][0], toks[j][1]
        if k == "kw":
            if t == stack[-1]:
                stack.pop()
            elif t in ("FUNCTION", "PROCEDURE") and stack[0] in ("END_FUNCTION", "END_PROCEDURE", "END_RULE"):
                stack.append(OPENERS[t])
            elif t in ("TYPE", "ENTITY") and stack[0] in ("END_FUNCTION", "END_PROCEDURE", "END_RULE"):
                stack.append(OPENERS[t])
            elif t == "END_SCHEMA":
                raise Unparsed("END_SCHEMA inside a declaration", toks[j])
        j += 1
    if stack:
        raise Unparsed("declaration not closed", toks[i])
    if j < n and toks[j][0] == "sym" and toks[j][1] == ";":
        return j + 1
    raise Unparsed("';' expected after " + toks[j - 1][1], toks[j - 1])


def parse_file(text_or_tokens, norm=DEFAULT_NORM, robust=True):
    """-> (schemas, Decls).  schemas: list of schema names in source order.
    Decl keys: ((('schema', s), ...nested algorithm scopes...), kind, name); interface items are
    (scope, 'use'|'reference', (schema, item|None, alias|None)) -> True.
    robust=True: a declaration this parser cannot handle is recorded in Decls.skipped instead of raising."""
    toks = exptok.tokenize(text_or_tokens) if isinstance(text_or_tokens, str) else text_or_tokens
    out = Decls()
    schemas = []
    i, n = 0, len(toks)
    while i < n:
        if not (toks[i][0] == "kw" and toks[i][1] == "SCHEMA"):
            raise Unparsed("expected SCHEMA", toks[i])
        if i + 2 >= n or toks[i + 1][0] != "id":
            raise Unparsed("schema header", toks[i])
        sname = toks[i + 1][1]
        i += 2
        if i < n and toks[i][0] == "str":      # schema_version_id (edition 2)
            i += 1
        if not (toks[i][0] == "sym" and toks[i][1] == ";"):
            raise Unparsed("schema header", toks[i])
        i += 1
        if sname in schemas:
            raise Unparsed("schema %s declared twice" % sname)
        schemas.append(sname)
        scope = (("schema", sname),)
        while True:
            if i >= n:
                raise Unparsed("END_SCHEMA missing for " + sname)
            k, t = toks[i][0], toks[i][1]
            if k == "kw" and t == "END_SCHEMA":
                if not (i + 1 < n and toks[i + 1][1] == ";"):
                    raise Unparsed("';' after END_SCHEMA", toks[i])
                i += 2
                break
            if k == "kw" and t in ("USE", "REFERENCE"):
                c = Cursor(toks, norm)
                c.i = i + 1
                c.expect_kw("FROM")
                other = c.ident()
                items = []
                if c.accept_sym("("):
                    while True:
                        it = c.ident()
                        alias = None
                        if c.accept_kw("AS"):
                            alias = c.ident()
                        items.append((it, alias))
                        if c.accept_sym(","):
                            continue
                        c.expect_sym(")")
                        break
                c.expect_sym(";")
                if items:
                    for it, alias in items:
                        out.add((scope, t.lower(), (other, it, alias)), True)
                else:
                    out.add((scope, t.lower(), (other, None, None)), True)
                i = c.i
                continue
            if k == "kw" and t in OPENERS:
                j = _slice_declaration(toks, i)
                c = Cursor(toks[i:j], norm)
                tmp = Decls()
                try:
                    if t == "CONSTANT":
                        _constants(c, scope, tmp)
                    else:
                        parse_declaration(c, scope, tmp)
                    if not c.eof():
                        raise Unparsed("trailing tokens in declaration", c.peek())
                    for key in tmp.order:
                        out.add(key, tmp.decls[key])
                except Unparsed as e:
                    if not robust:
                        raise
                    name = toks[i + 1][1] if toks[i + 1][0] == "id" else "?"
                    out.skipped[(scope, t.lower(), name)] = str(e)
                i = j
                continue
            raise Unparsed("unexpected token at schema level", toks[i])
    return schemas, out
