"""Hypothesis strategies for EXPRESS schemas, *codegen profile*: the subset the C++/Python generators
document and the unitary schemas exercise.  Valid by construction (declared-before-use for types,
globally consistent names).  Every random choice is a Hypothesis draw."""
import copy

from hypothesis import strategies as st

from expmodel import SIMPLE, T, named, agg, Schema

EXPRESS_RESERVED = set("""abs abstract acos aggregate alias and andor array as asin atan bag begin binary blength boolean by case
const_e constant context cos derive div else end end_alias end_case end_constant end_context end_entity end_function end_if
end_local end_model end_procedure end_repeat end_rule end_schema end_type entity enumeration escape exists exp false fixed for
format from function generic hibound hiindex if in include insert integer inverse length like list lobound local log log10 log2
logical loindex mod model not number nvl odd of oneof optional or otherwise pi procedure query real reference remove repeat
return rolesof rule schema select self set sin sizeof skip sqrt string subtype supertype tan then to true type typeof unique
unknown until use usedin value value_in value_unique var where while xor""".split())

PLAIN = ["node", "item", "part", "edge", "face", "shape", "point", "curve", "thing", "widget", "alpha", "beta", "gamma",
         "delta", "owner", "holder", "unit", "measure", "label", "ident", "colour", "style", "layer", "group", "member",
         "a", "b", "c", "x", "y", "z", "p1", "q2", "r_3", "ab_cd", "abcd", "a_b_c", "n0", "t9_x", "long_name_with_many_parts"]
CXX_KW = ["class", "int", "namespace", "operator", "template", "new", "delete", "union", "struct", "double", "register",
          "this", "public", "virtual", "friend", "char", "long", "short", "float", "void", "default", "switch", "static",
          "const", "enum", "typedef", "goto", "try", "catch", "throw", "inline", "bool", "explicit", "mutable", "volatile"]
# file_name / file_schema / file_description / file_population / section_language / section_context are excluded: a schema entity with the name of a header-section entity
# makes exp2cxx emit a class (SdaiFile_name) that clashes with the built-in header schema classes (finding F22).
P21_KW = ["header", "data", "endsec", "iso", "scope", "endscope"]
PY_KW = ["lambda", "def", "pass", "none", "import", "global", "yield", "with", "assert", "del", "elif", "except", "finally",
         "is", "nonlocal", "raise", "print", "id", "object", "dict", "tuple", "str", "len", "range", "super", "property"]
LIB_CLASS_NAMES = {"registry"}      # generated identifiers which, capitalised, are class names of the run-time library
SC_INTERNAL = ["sdai", "registry", "schema_", "entitydescriptor", "attributes", "stepwrite", "name", "error", "nil", "std", "c"]


def _ident_pool(cfg):
    pool = list(PLAIN)
    kw = []
    if cfg.get("kw_cxx", True):
        kw += CXX_KW
    if cfg.get("kw_p21", True):
        kw += P21_KW
    if cfg.get("kw_py", False):
        kw += PY_KW
    if cfg.get("kw_sc", True):
        kw += SC_INTERNAL
    kw = [k for k in kw if k not in EXPRESS_RESERVED]
    return pool, kw


class Namer:
    def __init__(self, draw, cfg):
        self.draw, self.cfg = draw, cfg
        self.plain, self.kw = _ident_pool(cfg)
        self.used = set()
        self.kwish = 0

    def fresh(self, scope_used=None, allow_reuse_of=None):
        """A new identifier not in self.used (global) - or, if scope_used is given, not in that set."""
        used = self.used if scope_used is None else scope_used
        draw = self.draw
        for _ in range(50):
            if self.kw and draw(st.integers(0, 99)) < self.cfg.get("p_kw", 15):
                n = draw(st.sampled_from(self.kw))
                iskw = True
            else:
                n = draw(st.sampled_from(self.plain))
                iskw = False
            if draw(st.integers(0, 9)) < 3:
                n = n + draw(st.sampled_from(["1", "_2", "x", "_v", "0", "_"])) .rstrip("_")
            if draw(st.integers(0, 99)) < self.cfg.get("p_underscore_run", 6):
                # simple_id = letter { letter | digit | '_' }: runs of underscores are legal, and the generator and the run-time
                # library each have their own function that derives the registry spelling of a name from them
                n = n + draw(st.sampled_from(["__x", "__2", "___v", "__a_b", "_1__q"]))
            if n in EXPRESS_RESERVED or n in used:
                continue
            used.add(n)
            if scope_used is not None:
                pass
            if iskw:
                self.kwish += 1
            return n
        k = len(used)
        n = "gen%d" % k
        while n in used:
            k += 1
            n = "gen%d" % k
        used.add(n)
        return n


def _case_noise(draw, n, cfg):
    """EXPRESS is case-insensitive: sometimes write an identifier in mixed case at its declaration."""
    if draw(st.integers(0, 99)) < cfg.get("p_mixed_case", 8):
        return n[0].upper() + n[1:]
    return n


@st.composite
def schemas(draw, cfg=None):
    cfg = dict(cfg or {})
    nm = Namer(draw, cfg)
    sname = nm.fresh()
    excluded = []
    if sname in CXX_KW:
        # finding F38: the schema name is emitted verbatim as a C++ namespace (typedef::t_x): does not compile.
        excluded.append("schema named with a bare C++ keyword (finding F38)")
        sname = sname + "_s"
        nm.used.add(sname)
    if draw(st.booleans()):
        sname = sname + draw(st.sampled_from(["_schema", "_ap", "203", "_mim_lf", "_x1"]))
        nm.used.add(sname)
    n_ent = draw(st.integers(cfg.get("min_ent", 1), cfg.get("max_ent", 10)))
    n_typ = draw(st.integers(cfg.get("min_typ", 0), cfg.get("max_typ", 8)))

    ent_names = [nm.fresh() for _ in range(n_ent)]
    # ---- inheritance DAG first (so types may refer to entities and attribute names can be scoped)
    supers = []
    for i in range(n_ent):
        s = []
        if i > 0:
            k = draw(st.sampled_from(cfg.get("super_dist", [0, 0, 0, 1, 1, 1, 1, 2, 2, 3])))
            k = min(k, i)
            if k:
                idx = draw(st.lists(st.integers(0, i - 1), min_size=k, max_size=k, unique=True))
                s = [ent_names[j] for j in idx]
        supers.append(s)
    # drop redundant supers (a super that is an ancestor of another listed super is legal EXPRESS but unusual; keep 50%)
    ents = [{"name": ent_names[i], "supers": supers[i], "abstract": False, "superexpr": None, "attrs": [], "derived": [],
             "inverse": [], "unique": [], "where": []} for i in range(n_ent)]
    tmp = Schema({"name": sname, "types": [], "entities": ents})
    redundant_dropped = []
    for e in ents:
        if len(e["supers"]) > 1 and (draw(st.integers(0, 9)) < 7 or not cfg.get("redundant_supers", True)):
            keep = [s for s in e["supers"] if not any(o != s and tmp.is_a(o, s) for o in e["supers"])]
            if len(keep) < len(e["supers"]) and not cfg.get("redundant_supers", True):
                redundant_dropped.append(e["name"])
            e["supers"] = keep
    tmp = Schema({"name": sname, "types": [], "entities": ents})

    # ---- types
    types = []
    simple_defs, enums, selects, aggdefs = [], [], [], []
    tdict_sel = {}

    def simple_like():
        """a typeref that is simple or a defined type over simple / enum"""
        c = draw(st.integers(0, 9))
        if c < 5 or not (simple_defs or enums):
            return T(draw(st.sampled_from(cfg.get("simple_kinds", SIMPLE))))
        if enums and (c < 7 or not simple_defs):
            return named(draw(st.sampled_from(enums)))
        return named(draw(st.sampled_from(simple_defs)))

    def bounds(kind):
        if kind == "ARRAY":
            lo = draw(st.integers(-2, 3))
            hi = lo + draw(st.integers(0, 4))
            return lo, hi
        lo = draw(st.sampled_from([0, 0, 0, 1, 1, 2]))
        hi = draw(st.sampled_from([None, None, None, lo + 1, lo + 3, lo + 8]))
        return lo, hi

    def aggregate(depth, elem_choice):
        kind = draw(st.sampled_from(cfg.get("agg_kinds", ["LIST", "LIST", "SET", "BAG", "ARRAY"])))
        lo, hi = bounds(kind)
        if depth < cfg.get("max_agg_depth", 3) and draw(st.integers(0, 9)) < 2:
            of = aggregate(depth + 1, elem_choice)
        else:
            of = elem_choice()
        uniq = kind in ("LIST", "ARRAY") and draw(st.integers(0, 9)) < 2
        opt = kind == "ARRAY" and draw(st.integers(0, 99)) < cfg.get("p_array_optional", 10)
        return agg(kind, of, lo, hi, uniq, opt)

    for _ in range(n_typ):
        name = nm.fresh()
        tw = cfg.get("type_weights", {"simple": 25, "alias": 10, "enum": 20, "enum_alias": 10, "agg": 13, "select": 22})
        tot = sum(tw.values())
        c0 = draw(st.integers(0, tot - 1))
        c = 0
        acc = 0
        for kname, base in (("simple", 0), ("alias", 25), ("enum", 35), ("enum_alias", 55), ("agg", 65), ("select", 78)):
            acc += tw[kname]
            if c0 < acc:
                c = base
                break
        if c < 25:
            t = {"name": name, "kind": "defined", "of": T(draw(st.sampled_from(SIMPLE)))}
            simple_defs.append(name)
        elif c < 35 and simple_defs:
            # prefer the most recent defined type half of the time: chains of renames of depth >= 3
            base_t = simple_defs[-1] if draw(st.booleans()) else draw(st.sampled_from(simple_defs))
            t = {"name": name, "kind": "defined", "of": named(base_t)}
            simple_defs.append(name)
        elif c < 55:
            k = draw(st.integers(1, 5))
            scope = set()
            items = []
            for _i in range(k):
                if enums and draw(st.integers(0, 9)) < 2:
                    # same item name as in an earlier enumeration (legal: items are scoped by their type)
                    other = [t2 for t2 in types if t2["kind"] == "enum"]
                    cand = draw(st.sampled_from(draw(st.sampled_from(other))["items"]))
                    if cand not in scope:
                        scope.add(cand)
                        items.append(cand)
                        continue
                items.append(nm.fresh())
                scope.add(items[-1])
            if name.lower() in LIB_CLASS_NAMES:
                # finding F89: exp2cxx writes "enum Registry {...}" into the global namespace, where the run-time library has
                # a class of that name
                excluded.append("enumeration named like a class of the run-time library (finding F89)")
                name = name + "_e"
                while name in nm.used:
                    name = name + "e"
                nm.used.add(name)
            t = {"name": name, "kind": "enum", "items": items}
            enums.append(name)
        elif c < 65 and enums and cfg.get("enum_alias", True):
            t = {"name": name, "kind": "defined", "of": named(draw(st.sampled_from(enums)))}
            # an alias of an enumeration behaves as an enumeration
            t["alias_of_enum"] = True
            types.append(t)
            enums.append(name)
            continue
        elif c < 78:
            def elem():
                if ent_names and draw(st.integers(0, 9)) < 2:
                    return named(draw(st.sampled_from(ent_names)))
                return simple_like()
            t = {"name": name, "kind": "defined", "of": aggregate(1, elem)}
            aggdefs.append(name)
        else:
            cands = simple_defs + enums + aggdefs + ent_names + selects
            if len(cands) < 1:
                t = {"name": name, "kind": "defined", "of": T(draw(st.sampled_from(SIMPLE)))}
                simple_defs.append(name)
            else:
                k = draw(st.integers(1, min(5, len(cands))))
                members = draw(st.lists(st.sampled_from(cands), min_size=k, max_size=k, unique=True))
                # shapes that stress member look-up: a defined type listed BEFORE the type it renames; an earlier
                # select as a member (nested select)
                alias_pairs = [(t2["name"], t2["of"]["name"]) for t2 in types
                               if t2["kind"] == "defined" and t2["of"]["k"] == "named" and not t2.get("alias_of_enum")
                               and t2["of"]["name"] in simple_defs]
                if alias_pairs and draw(st.integers(0, 99)) < cfg.get("p_select_alias_pair", 20):
                    al, base = draw(st.sampled_from(alias_pairs))
                    members = [m for m in members if m not in (al, base)]
                    pos = draw(st.integers(0, len(members)))
                    members[pos:pos] = [al, base]
                if selects and draw(st.integers(0, 99)) < cfg.get("p_nested_select", 25):
                    # prefer an inner select that itself has an interesting member list (renamed type before its base)
                    rich = [sname_ for sname_ in selects if any(
                        al in tdict_sel[sname_] and base in tdict_sel[sname_] for al, base in alias_pairs)]
                    inner = draw(st.sampled_from(rich if rich and draw(st.booleans()) else selects))
                    if inner not in members:
                        members.insert(draw(st.integers(0, len(members))), inner)
                t = {"name": name, "kind": "select", "members": members}
                tdict_sel[name] = members
                selects.append(name)
        types.append(t)

    # resolve enum aliases to item lists for convenience
    tdict = {t["name"]: t for t in types}

    # ---- attributes
    # names unique within an inheritance-connected component; reuse across components allowed
    # simple union-find over indices
    parent = list(range(n_ent))
    def uf(x):
        while parent[x] != x:
            parent[x] = parent[parent[x]]
            x = parent[x]
        return x
    for i, e in enumerate(ents):
        for s in e["supers"]:
            a, b = uf(i), uf(ent_names.index(s))
            if a != b:
                parent[a] = b
    comp_used = {}
    global_attr_names = []

    def attr_name(i):
        r = uf(i)
        used = comp_used.setdefault(r, set())
        if global_attr_names and draw(st.integers(0, 9)) < 3:
            cand = draw(st.sampled_from(global_attr_names))
            if cand not in used:
                used.add(cand)
                return cand
        n = nm.fresh()
        used.add(n)
        global_attr_names.append(n)
        return n

    def attr_type():
        c = draw(st.integers(0, 99))
        w = cfg.get("attr_weights", {"simple": 35, "defined": 12, "enum": 8, "select": 8, "entity": 17, "agg": 20})
        order = ["simple", "defined", "enum", "select", "entity", "agg"]
        tot = sum(w[k] for k in order)
        c = c * tot // 100
        for k in order:
            if c < w[k]:
                break
            c -= w[k]
        if k == "defined" and simple_defs:
            return named(draw(st.sampled_from(simple_defs)))
        if k == "enum" and enums:
            return named(draw(st.sampled_from(enums)))
        if k == "select" and selects:
            return named(draw(st.sampled_from(selects)))
        if k == "entity":
            return named(draw(st.sampled_from(ent_names)))
        if k == "agg":
            def elem():
                c2 = draw(st.integers(0, 9))
                if c2 < 3:
                    return named(draw(st.sampled_from(ent_names)))
                if c2 < 4 and selects:
                    return named(draw(st.sampled_from(selects)))
                if c2 < 5 and aggdefs:
                    return named(draw(st.sampled_from(aggdefs)))
                return simple_like()
            return aggregate(1, elem)
        return T(draw(st.sampled_from(cfg.get("simple_kinds", SIMPLE))))

    for i, e in enumerate(ents):
        k = draw(st.integers(cfg.get("min_attrs", 0), cfg.get("max_attrs", 4)))
        for _ in range(k):
            e["attrs"].append({"name": attr_name(i), "type": attr_type(),
                               "optional": draw(st.integers(0, 9)) < 3, "redecl": None})

    sch = Schema({"name": sname, "types": types, "entities": ents})

    # ---- redeclarations / derived
    for i, e in enumerate(ents):
        anc = sch.ancestors(e["name"])
        already = set()
        # attributes already redeclared somewhere on the ancestor paths may not be redeclared again (keep it simple & sound)
        for a_ in anc:
            for x in sch.ent(a_)["attrs"] + sch.ent(a_)["derived"]:
                if x.get("redecl"):
                    already.add((x["redecl"].lower(), x["name"].lower()))
        # also: siblings redeclaring the same attribute is fine, but a common descendant would see two redeclarations;
        # avoid by allowing at most one redeclaration per (owner, attr) per component
        r = uf(i)
        comp_red = comp_used.setdefault(("red", r), set())
        cands = []
        for a_ in anc:
            for x in sch.ent(a_)["attrs"]:
                if not x.get("redecl") and (a_, x["name"].lower()) not in already and (a_, x["name"].lower()) not in comp_red:
                    cands.append((a_, x))
        if cands and draw(st.integers(0, 99)) < cfg.get("p_redecl", 25):
            owner, x = draw(st.sampled_from(cands))
            comp_red.add((owner, x["name"].lower()))
            mode = draw(st.sampled_from(cfg.get("redecl_modes", ["derived", "derived", "explicit"])))
            kind = sch.resolve(x["type"])
            if mode == "derived" and kind[0] == "simple" and kind[1] != "BINARY":
                lit = {"INTEGER": "1", "REAL": "1.5", "NUMBER": "2.5", "STRING": "'k'", "BOOLEAN": "TRUE",
                       "LOGICAL": "UNKNOWN"}[kind[1]]
                e["derived"].append({"name": x["name"], "type": copy.deepcopy(x["type"]), "expr": lit, "redecl": sch.ent(owner)["name"]})
            elif mode == "explicit":
                newt = None
                if kind[0] == "entity":
                    ds = sorted(sch.descendants(kind[1]))
                    if ds:
                        newt = named(sch.ent(draw(st.sampled_from(ds)))["name"])
                if newt is None and x["optional"]:
                    newt = copy.deepcopy(x["type"])
                if newt is not None:
                    e["attrs"].append({"name": x["name"], "type": newt, "optional": False, "redecl": sch.ent(owner)["name"]})
                else:
                    comp_red.discard((owner, x["name"].lower()))
            else:
                comp_red.discard((owner, x["name"].lower()))
        # new derived attributes
        if draw(st.integers(0, 99)) < cfg.get("p_derived", 15):
            k = draw(st.sampled_from(["INTEGER", "REAL", "STRING", "BOOLEAN"]))
            lit = {"INTEGER": "42", "REAL": "2.5", "STRING": "'dv'", "BOOLEAN": "FALSE"}[k]
            e["derived"].append({"name": attr_name(i), "type": T(k), "expr": lit, "redecl": None})

    sch = Schema({"name": sname, "types": types, "entities": ents})

    # ---- inverse attributes
    inv_cands = []
    for y in ents:
        for a in y["attrs"]:
            if a.get("redecl"):
                continue
            t = a["type"]
            aggregate_attr = False
            if t["k"] == "agg" and t["of"]["k"] == "named" and sch.is_entity(t["of"]["name"]):
                tgt, aggregate_attr = t["of"]["name"], True
            elif t["k"] == "named" and sch.is_entity(t["name"]):
                tgt = t["name"]
            else:
                continue
            inv_cands.append((y["name"], a["name"], tgt.lower(), aggregate_attr))
    if inv_cands:
        for i, e in enumerate(ents):
            n_inv = 0
            mine = [c for c in inv_cands if sch.is_a(e["name"], c[2])]
            while mine and n_inv < cfg.get("max_inverse", 2) and draw(st.integers(0, 99)) < cfg.get("p_inverse", 20):
                y, a, tgt, _ag = draw(st.sampled_from(mine))
                c = draw(st.integers(0, 9))
                if c < 6:
                    ag = {"agg": "SET", "lo": draw(st.sampled_from([0, 0, 1])), "hi": None}
                elif c < 8:
                    ag = {"agg": "BAG", "lo": 0, "hi": None}
                else:
                    ag = None
                e["inverse"].append({"name": attr_name(i), "agg": ag, "entity": y, "attr": a})
                n_inv += 1

    # ---- supertype constraints
    for e in ents:
        subs = [sch.ent(s)["name"] for s in sch.subs[e["name"].lower()]]
        if subs and draw(st.integers(0, 99)) < cfg.get("p_abstract", 15):
            e["abstract"] = True
        if len(subs) >= 1 and draw(st.integers(0, 99)) < cfg.get("p_superexpr", 45):
            k = draw(st.integers(1, len(subs)))
            chosen = draw(st.lists(st.sampled_from(subs), min_size=k, max_size=k, unique=True))

            def build(items, depth):
                if len(items) == 1:
                    return items[0]
                op = draw(st.sampled_from(["ONEOF", "ONEOF", "AND", "ANDOR"]))
                if depth >= 3 or len(items) == 2 or draw(st.booleans()):
                    return {"op": op, "args": list(items)}
                cut = draw(st.integers(1, len(items) - 1))
                left, right = items[:cut], items[cut:]
                args = []
                for part in (left, right):
                    args.append(build(part, depth + 1) if len(part) > 1 else part[0])
                return {"op": op, "args": args}
            if len(chosen) == 1:
                e["superexpr"] = draw(st.sampled_from([chosen[0], {"op": "ONEOF", "args": [chosen[0]]}])) \
                    if cfg.get("single_oneof", False) else chosen[0]
            else:
                e["superexpr"] = build(chosen, 1)

    # ---- rules (not validated by the library; must not disturb code generation)
    for e in ents:
        own = [a["name"] for a in e["attrs"] if not a.get("redecl")]
        if own and draw(st.integers(0, 99)) < cfg.get("p_unique", 12):
            k = draw(st.integers(1, min(2, len(own))))
            e["unique"].append({"label": "ur1", "attrs": own[:k]})
        if own and draw(st.integers(0, 99)) < cfg.get("p_where", 12):
            e["where"].append({"label": "wr1", "expr": "EXISTS(%s) OR TRUE" % own[0]})

    # case noise at declaration sites only (references keep lower case; EXPRESS is case-insensitive)
    d = {"name": sname, "types": types, "entities": ents, "tags": {"kwish": nm.kwish, "excluded": excluded + ["redundant supertype (an entity listing a supertype that is also an ancestor of another listed supertype): legality references disagree there, see DESIGN.md Appendix C"] * len(redundant_dropped)}}
    return d


def tags(d):
    """Classification of a schema for distribution reporting."""
    s = Schema(d)
    out = []
    if any(len(e["supers"]) > 1 for e in d["entities"]):
        out.append("multi-inherit")
    if any(e["supers"] for e in d["entities"]):
        out.append("inherit")
    # diamond: an entity reaching the same ancestor via two supers
    for e in d["entities"]:
        if len(e["supers"]) > 1:
            seen = set()
            for sp in e["supers"]:
                a = set([sp.lower()] + s.ancestors(sp))
                if a & seen:
                    out.append("diamond")
                    break
                seen |= a
    if any(a.get("redecl") for e in d["entities"] for a in e["attrs"]):
        out.append("redecl-explicit")
    if any(a.get("redecl") for e in d["entities"] for a in e["derived"]):
        out.append("redecl-derived")
    if any(not a.get("redecl") for e in d["entities"] for a in e["derived"]):
        out.append("derived-new")
    if any(e["inverse"] for e in d["entities"]):
        out.append("inverse")
    if any(e["superexpr"] is not None for e in d["entities"]):
        out.append("superexpr")
    if any(e["abstract"] for e in d["entities"]):
        out.append("abstract")
    if any(t["kind"] == "select" for t in d["types"]):
        out.append("select")
    if any(t["kind"] == "enum" for t in d["types"]):
        out.append("enum")
    if any(t["kind"] == "defined" and t["of"]["k"] == "agg" for t in d["types"]):
        out.append("aggregate-type")
    if d.get("tags", {}).get("kwish"):
        out.append("keyword-like-names")

    def depth(tr):
        return 1 + depth(tr["of"]) if tr["k"] == "agg" else 0
    md = max([depth(a["type"]) for e in d["entities"] for a in e["attrs"]] + [0])
    if md >= 2:
        out.append("nested-aggregate")
    return sorted(set(out))
