"""C02, accessor round trip: "every generated accessor reads back what its mutator stored".
Accessor/mutator pairs are DISCOVERED by parsing the generated entity headers (no naming rule of the generator is
re-implemented); for each pair a value is stored through the mutator, read back through the accessor, and the matching
STEPattribute of the instance must serialise that same value (so a mutator writing into the wrong member is seen)."""
import os
import re

import build
import common

_MUT = re.compile(r"^\s*void\s+(\w+)\(\s*const\s+([\w:]+)\s+x\s*\)\s*;", re.M)
_CLASS = re.compile(r"class\s+SC_SCHEMA_EXPORT\s+(\w+)\s*:")


def discover(gendir):
    """-> list of (header, classname, [(accessor, ctype)])"""
    out = []
    ed = os.path.join(gendir, "entity")
    if not os.path.isdir(ed):
        return out
    for fn in sorted(os.listdir(ed)):
        if not fn.endswith(".h"):
            continue
        text = open(os.path.join(ed, fn)).read()
        m = _CLASS.search(text)
        if not m:
            continue
        pairs = [(a, t) for a, t in _MUT.findall(text)]
        out.append(("entity/" + fn, m.group(1), pairs))
    return out


def value_code(ctype, k, entity_classes, enum_items):
    """C++ snippets (decl, value expr, compare expr on variable `got`, expected asStr or None)."""
    if ctype == "SDAI_Integer":
        v = 41 + k
        return ("", "%d" % v, "got == %d" % v, str(v))
    if ctype == "SDAI_Real":
        v = 2.5 + k
        return ("", "%r" % v, "got == %r" % v, None)
    if ctype == "SDAI_String":
        v = "'s%d'" % k
        return ("", 'SDAI_String("%s")' % v, 'std::string(got.c_str()) == "%s"' % v, v)
    if ctype == "Boolean":
        return ("", "BTrue" if k % 2 == 0 else "BFalse", "got == %s" % ("BTrue" if k % 2 == 0 else "BFalse"), "T" if k % 2 == 0 else "F")
    if ctype == "Logical":
        v = ["LTrue", "LFalse", "LUnknown"][k % 3]
        return ("", v, "got == %s" % v, {"LTrue": "T", "LFalse": "F", "LUnknown": "U"}[v])
    if ctype == "SDAI_Binary":
        return ("SDAI_Binary bv%d; bv%d = \"%dA\";" % (k, k, k % 4), "bv%d" % k, 'std::string(got.c_str()) == "%dA"' % (k % 4), None)
    m = re.match(r"^(Sdai\w+)_var$", ctype)
    if m and ctype in enum_items:
        n = enum_items[ctype]
        idx = k % n
        return ("%s ev%d; ev%d.put(%d);" % (ctype, k, k, idx), "ev%d" % k, "got.asInt() == %d" % idx, None)
    m = re.match(r"^(Sdai\w+)_ptr$", ctype)
    if m and m.group(1) in entity_classes:
        return ("%s * ip%d = new %s;" % (m.group(1), k, m.group(1)), "ip%d" % k, "got == ip%d" % k, None)
    return None


def make_tu(gendir, abstract_classes):
    found = discover(gendir)
    entity_classes = set(c for _h, c, _p in found)
    enum_items = {}
    td = os.path.join(gendir, "type")
    if os.path.isdir(td):
        for fn in os.listdir(td):
            if fn.endswith("_var.h"):
                t = open(os.path.join(td, fn)).read()
                m = re.search(r"class\s+SC_SCHEMA_EXPORT\s+(\w+_var)\s", t)
                n = re.search(r"no_elements \(\) const\s*\{\s*return\s+(\d+);", t)
                if m and n and int(n.group(1)) > 0:
                    enum_items[m.group(1)] = int(n.group(1))
    # renamed enumerations are typedefs of the original class
    for fn in os.listdir(gendir):
        if fn.startswith("Sdai") and fn.endswith(".h"):
            for a, b in re.findall(r"typedef\s+(Sdai\w+_var)\s+(Sdai\w+_var);", open(os.path.join(gendir, fn)).read()):
                if a in enum_items:
                    enum_items[b] = enum_items[a]
    lines = ['#include "schema.h"', '#include <iostream>', '#include <string>', '#include <cstring>',
             'extern void SchemaInit( class Registry & );',
             'static int bad = 0, done = 0, skipped = 0;',
             'static void fail( const char * what ) { std::cout << "ACCFAIL " << what << std::endl; bad++; }',
             'static void chk( SDAI_Application_instance * e, const char * attr, const char * want, const char * what ) {',
             '    for( int i = 0; i < e->attributes.list_length(); i++ ) {',
             '        STEPattribute & a = e->attributes[i];',
             '        if( !strcmp( a.Name(), attr ) && a.getADesc()->AttrType() != AttrType_Redefining && !strcmp( a.getADesc()->Owner().Name(), e->eDesc->Name() ) ) {',
             '            std::string s = a.asStr();',
             '            if( s != want ) { std::cout << "ACCFAIL " << what << ": attribute serialises " << s << ", mutator stored " << want << std::endl; bad++; }',
             '            return;',
             '        }',
             '    }',
             '}',
             'int main() {', '    Registry reg( SchemaInit );']
    n_pairs = 0
    n_skipped = 0
    for hdr, cls, pairs in found:
        if cls in abstract_classes:
            pass   # abstract entities still have a concrete C++ class; accessors work on it
        lines.append("    {")
        lines.append("        %s * e = new %s;" % (cls, cls))
        for k, (acc, ctype) in enumerate(pairs):
            vc = value_code(ctype, k, entity_classes, enum_items)
            if vc is None:
                n_skipped += 1
                lines.append("        skipped++; // %s %s" % (acc, ctype))
                continue
            decl, val, cmp_, want = vc
            n_pairs += 1
            what = "%s::%s" % (cls, acc)
            if decl:
                lines.append("        " + decl)
            lines.append("        e->%s( %s );" % (acc, val))
            lines.append("        { auto got = e->%s(); done++; if( !( %s ) ) fail( \"%s reads back a different value\" ); }" % (acc, cmp_, what))
            if want is not None and acc.endswith("_"):
                lines.append('        chk( e, "%s", "%s", "%s" );' % (acc[:-1], want.replace('"', '\\"'), what))
        # second pass: earlier values must have survived the later stores (mutators writing into a neighbour's member)
        for k, (acc, ctype) in enumerate(pairs):
            vc = value_code(ctype, k, entity_classes, enum_items)
            if vc is None:
                continue
            decl, val, cmp_, want = vc
            lines.append("        { auto got = e->%s(); if( !( %s ) ) fail( \"%s::%s lost its value after other attributes were set\" ); }" % (acc, cmp_, cls, acc))
        lines.append("    }")
    lines += ['    std::cout << "@@ACC done=" << done << " skipped=" << skipped << " bad=" << bad << std::endl;', '    return bad ? 1 : 0;', '}']
    return "\n".join(lines) + "\n", n_pairs, n_skipped


def run(lib, variant="plain"):
    """Returns (problems, pairs_exercised, pairs_skipped)."""
    gendir = lib["gendir"]
    src, n, skipped = make_tu(gendir, set())
    if n == 0:
        return [], 0, skipped
    cc = os.path.join(gendir, "acc_roundtrip.cc")
    exe = os.path.join(gendir, "acc_roundtrip")
    open(cc, "w").write(src)
    v = build.VARIANTS[variant]
    flags = [f for f in v["flags"].split() if not f.startswith("-O") and f != "-g"]
    cmd = [v["cxx"], "-std=c++11", "-O0", "-w", "-DSC_SDAI_UNITY_BUILD"] + flags + ["-I."] + build.includes(variant) + \
          [cc, "-o", exe, lib["lib"]] + v["ld"].split() + build.libs(variant) + ["-Wl,-rpath," + gendir]
    rc, out, err, _ = common.run(cmd, cwd=gendir, timeout=300)
    if rc != 0:
        return ["accessor round-trip translation unit does not compile: " + (out + err)[-800:]], n, skipped
    rc, out, err, _ = common.run([exe], cwd=gendir, timeout=60)
    probs = [l[8:] for l in out.splitlines() if l.startswith("ACCFAIL ")]
    if rc not in (0, 1) or "@@ACC" not in out:
        probs.append("accessor round-trip program died: rc=%s %s" % (rc, (out + err)[-400:]))
    return probs, n, skipped
