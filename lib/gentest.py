import sys, os
sys.path.insert(0, os.path.dirname(__file__))
from hypothesis import given, settings, seed, Phase, HealthCheck
import expgen, exprender, common, build
out=[]
@seed(int(sys.argv[1]))
@settings(max_examples=int(sys.argv[2]), database=None, deadline=None, phases=[Phase.generate], suppress_health_check=list(HealthCheck))
@given(expgen.schemas({}))
def t(s): out.append(s)
t()
print(len(out))
d=common.scratch("gentest")
bad=0
from collections import Counter
tg=Counter()
for i,s in enumerate(out):
    p=os.path.join(d,"s%d.exp"%i); open(p,"w").write(exprender.schema(s))
    for x in expgen.tags(s): tg[x]+=1
    rc,o,e,_=common.run([build.tool("plain","check-express"),p])
    if rc!=0:
        bad+=1; print("REJECT",p,rc, (o+e)[-400:])
print("bad",bad, dict(tg))
