"""Independent EXPRESS tokenizer, written from ISO 10303-11:2004 clause 7 (not from the scanner under test).

  7.1.6.1  embedded remark  (* ... *)   may nest; may span lines; may appear between any two tokens
  7.1.6.2  tail remark      -- ...      up to the end of the line
  7.2      reserved words / 7.4 identifiers: letter { letter | digit | '_' }; EXPRESS is case insensitive for both
           (7.2: "reserved words ... may be written in upper, lower or mixed case"; 7.4: "the case of letters is not
           significant in identifiers")
  7.3      symbols (longest match):  :<>:  :=:  :=  <*  <=  <>  >=  **  ||  and the single characters
  7.5.1    binary literal   % bit {bit}
  7.5.2    integer literal  digit {digit}
  7.5.3    real literal     digits '.' [digits] [ 'e' [sign] digits ]
  7.5.4    string literal   simple: ' ... ' with '' standing for one apostrophe, on one line
                            encoded: " {8 hex digits} "
  7.5.5    logical literal  FALSE | TRUE | UNKNOWN   (reserved words)

Token = (kind, text, line).  kind in: kw id int real str estr bin sym remark tail
  text: kw -> upper case; id -> lower case; str -> the *value* (apostrophes undoubled); estr -> hex digits upper case;
        bin -> the bits; int/real -> source spelling; sym -> the symbol; remark/tail -> raw text.
"""

KEYWORDS = frozenset("""ABS ABSTRACT ACOS AGGREGATE ALIAS AND ANDOR ARRAY AS ASIN ATAN BAG BASED_ON BEGIN BINARY BLENGTH BOOLEAN BY
CASE CONSTANT CONST_E COS DERIVE DIV ELSE END END_ALIAS END_CASE END_CONSTANT END_ENTITY END_FUNCTION END_IF END_LOCAL
END_PROCEDURE END_REPEAT END_RULE END_SCHEMA END_SUBTYPE_CONSTRAINT END_TYPE ENTITY ENUMERATION ESCAPE EXISTS EXTENSIBLE EXP
FALSE FIXED FOR FORMAT FROM FUNCTION GENERIC GENERIC_ENTITY HIBOUND HIINDEX IF IN INSERT INTEGER INVERSE LENGTH LIKE LIST
LOBOUND LOCAL LOG LOG10 LOG2 LOGICAL LOINDEX MOD NOT NUMBER NVL ODD OF ONEOF OPTIONAL OR OTHERWISE PI PROCEDURE QUERY REAL
REFERENCE REMOVE RENAMED REPEAT RETURN ROLESOF RULE SCHEMA SELECT SELF SET SIN SIZEOF SKIP SQRT STRING SUBTYPE
SUBTYPE_CONSTRAINT SUPERTYPE TAN THEN TO TOTAL_OVER TRUE TYPE TYPEOF UNIQUE UNKNOWN UNTIL USE USEDIN VALUE VALUE_IN
VALUE_UNIQUE VAR WHERE WHILE WITH XOR""".split())

# reserved words that denote built-in functions / procedures / constants (clause 14, 15, 16): they occur in
# expressions like identifiers do
BUILTIN_FUNCS = frozenset("""ABS ACOS ASIN ATAN BLENGTH COS EXISTS EXP FORMAT HIBOUND HIINDEX LENGTH LOBOUND LOINDEX LOG LOG2
LOG10 NVL ODD ROLESOF SIN SIZEOF SQRT TAN TYPEOF USEDIN VALUE VALUE_IN VALUE_UNIQUE""".split())
BUILTIN_PROCS = frozenset(["INSERT", "REMOVE"])
BUILTIN_CONSTS = frozenset(["CONST_E", "PI", "SELF", "TRUE", "FALSE", "UNKNOWN"])

SYMBOLS4 = (":<>:",)
SYMBOLS3 = (":=:",)
SYMBOLS2 = (":=", "<*", "<=", "<>", ">=", "**", "||")
SYMBOLS1 = "()[]{},;:.+-*/<>=|?\\"

LETTERS = "abcdefghijklmnopqrstuvwxyzABCDEFGHIJKLMNOPQRSTUVWXYZ"
DIGITS = "0123456789"
HEX = "0123456789abcdefABCDEF"


class TokError(Exception):
    def __init__(self, msg, line):
        Exception.__init__(self, "line %d: %s" % (line, msg))
        self.line = line


def tokenize(text, keep_remarks=False):
    """Returns the list of tokens. Raises TokError on anything clause 7 does not allow."""
    toks = []
    i, n, line = 0, len(text), 1
    while i < n:
        c = text[i]
        if c == "\n":
            line += 1
            i += 1
            continue
        if c in " \t\r\f\v":
            i += 1
            continue
        # remarks
        if c == "(" and text.startswith("(*", i):
            depth, j, start_line = 1, i + 2, line
            while depth:
                if j >= n:
                    raise TokError("unterminated embedded remark", start_line)
                if text.startswith("(*", j):
                    depth += 1
                    j += 2
                elif text.startswith("*)", j):
                    depth -= 1
                    j += 2
                else:
                    if text[j] == "\n":
                        line += 1
                    j += 1
            if keep_remarks:
                toks.append(("remark", text[i:j], start_line))
            i = j
            continue
        if c == "-" and text.startswith("--", i):
            j = text.find("\n", i)
            if j < 0:
                j = n
            if keep_remarks:
                toks.append(("tail", text[i:j], line))
            i = j
            continue
        if c == "*" and text.startswith("*)", i):
            raise TokError("close of an embedded remark that was never opened", line)
        # identifiers / reserved words
        if c in LETTERS:
            j = i + 1
            while j < n and (text[j] in LETTERS or text[j] in DIGITS or text[j] == "_"):
                j += 1
            w = text[i:j]
            up = w.upper()
            if up in KEYWORDS:
                toks.append(("kw", up, line))
            else:
                toks.append(("id", w.lower(), line))
            i = j
            continue
        # numbers
        if c in DIGITS:
            j = i
            while j < n and text[j] in DIGITS:
                j += 1
            kind = "int"
            if j < n and text[j] == ".":
                # 7.5.3: digits '.' [digits] [e[sign]digits]
                kind = "real"
                j += 1
                while j < n and text[j] in DIGITS:
                    j += 1
                if j < n and text[j] in "eE":
                    k = j + 1
                    if k < n and text[k] in "+-":
                        k += 1
                    if k < n and text[k] in DIGITS:
                        while k < n and text[k] in DIGITS:
                            k += 1
                        j = k
            toks.append((kind, text[i:j], line))
            i = j
            continue
        # simple string
        if c == "'":
            j = i + 1
            buf = []
            while True:
                if j >= n or text[j] == "\n":
                    raise TokError("unterminated string literal", line)
                if text[j] == "'":
                    if j + 1 < n and text[j + 1] == "'":
                        buf.append("'")
                        j += 2
                        continue
                    j += 1
                    break
                buf.append(text[j])
                j += 1
            toks.append(("str", "".join(buf), line))
            i = j
            continue
        # encoded string
        if c == '"':
            j = i + 1
            while j < n and text[j] in HEX:
                j += 1
            if j >= n or text[j] != '"':
                raise TokError("bad encoded string literal", line)
            body = text[i + 1:j]
            if len(body) % 8 != 0 or not body:
                raise TokError("encoded string literal is not a sequence of 8-digit groups", line)
            toks.append(("estr", body.upper(), line))
            i = j + 1
            continue
        # binary literal
        if c == "%":
            j = i + 1
            while j < n and text[j] in "01":
                j += 1
            if j == i + 1:
                raise TokError("'%' without bits", line)
            toks.append(("bin", text[i + 1:j], line))
            i = j
            continue
        # symbols, longest match
        for group, ln in ((SYMBOLS4, 4), (SYMBOLS3, 3), (SYMBOLS2, 2)):
            s = text[i:i + ln]
            if s in group:
                toks.append(("sym", s, line))
                i += ln
                break
        else:
            if c in SYMBOLS1:
                toks.append(("sym", c, line))
                i += 1
            else:
                raise TokError("character %r is not part of any EXPRESS token" % c, line)
    return toks


def show(tok):
    """Canonical spelling of a token (used in messages and in token-level comparisons)."""
    k, t = tok[0], tok[1]
    if k == "str":
        return "'" + t.replace("'", "''") + "'"
    if k == "estr":
        return '"' + t + '"'
    if k == "bin":
        return "%" + t
    return t
