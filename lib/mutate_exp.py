"""EXPRESS text mutators shared by C20 / C04 / C06.

* `tokenize(text)`            independent EXPRESS tokenizer (remarks, literals, operators) with offsets
* `scan(text)`                declaration-level scanner: schemas, entities (head / sections / attributes), types, algorithms
* `sources(seed, n, cfg)`     pluggable schema source: explang (language profile) when importable, else expgen; + shipped seeds
* `TEMPLATES`                 single-fault templates.  Each template receives a scanned valid schema and a PRNG (seeded from a
                              Hypothesis draw) and returns a Mutant: new text + the diagnostics that fault must produce together
                              with the *generator-chosen* offending texts (names `zzq_<n>`, characters, counts).
* `syntax_mutants`, `token_mutants`, `byte_mutants`, `stretch_shapes`   for C04 / C06.

All template names are spliced at a *declaration position* chosen by the PRNG ("at any declaration position").
Nothing here runs the tools."""
import random
import re

KEYWORDS = set("""abs abstract acos aggregate alias and andor array as asin atan bag begin binary blength boolean by case
const_e constant cos derive div else end end_alias end_case end_constant end_entity end_function end_if
end_local end_procedure end_repeat end_rule end_schema end_type entity enumeration escape exists exp false fixed for
format from function generic hibound hiindex if in include insert integer inverse length like list lobound local log log10 log2
logical loindex mod not number nvl odd of oneof optional or otherwise pi procedure query real reference remove repeat
return rolesof rule schema select self set sin sizeof skip sqrt string subtype supertype tan then to true type typeof unique
unknown until use usedin value value_in value_unique var where while xor""".split())

_OPS3 = (":<>:", ":=:")
_OPS2 = (":=", "<=", ">=", "<>", "<*", "**", "||")


class Tok:
    __slots__ = ("kind", "text", "start", "end", "line")

    def __init__(self, kind, text, start, end, line):
        self.kind, self.text, self.start, self.end, self.line = kind, text, start, end, line

    def __repr__(self):
        return "Tok(%s,%r,%d)" % (self.kind, self.text, self.start)

    @property
    def low(self):
        return self.text.lower()


def tokenize(text, keep_space=False):
    """kinds: ws, remark, id, kw, int, real, str, enc, bin, op, bad.  Never raises."""
    out = []
    i, n, line = 0, len(text), 1
    while i < n:
        c = text[i]
        s = i
        if c in " \t\r\n\f\v":
            while i < n and text[i] in " \t\r\n\f\v":
                i += 1
            kind = "ws"
        elif text.startswith("--", i):
            j = text.find("\n", i)
            i = n if j < 0 else j
            kind = "remark"
        elif text.startswith("(*", i):
            depth, i = 1, i + 2
            while i < n and depth:
                if text.startswith("(*", i):
                    depth += 1
                    i += 2
                elif text.startswith("*)", i):
                    depth -= 1
                    i += 2
                else:
                    i += 1
            kind = "remark"
        elif c == "'":
            i += 1
            while i < n:
                if text[i] == "'":
                    if text.startswith("''", i):
                        i += 2
                        continue
                    i += 1
                    break
                if text[i] == "\n":
                    break
                i += 1
            kind = "str"
        elif c == '"':
            i += 1
            while i < n and text[i] not in '"\n':
                i += 1
            if i < n and text[i] == '"':
                i += 1
            kind = "enc"
        elif c == "%" and i + 1 < n and text[i + 1] in "01":
            i += 1
            while i < n and text[i] in "01":
                i += 1
            kind = "bin"
        elif c.isdigit():
            while i < n and text[i].isdigit():
                i += 1
            kind = "int"
            if i < n and text[i] == "." and not text.startswith("..", i):
                kind = "real"
                i += 1
                while i < n and text[i].isdigit():
                    i += 1
                m = re.compile(r"[eE][+-]?\d+").match(text, i)
                if m:
                    i = m.end()
        elif c.isalpha() and c.isascii():
            while i < n and (text[i].isascii() and (text[i].isalnum() or text[i] == "_")):
                i += 1
            kind = "kw" if text[s:i].lower() in KEYWORDS else "id"
        else:
            for ops in (_OPS3, _OPS2):
                for o in ops:
                    if text.startswith(o, i):
                        i += len(o)
                        break
                else:
                    continue
                break
            else:
                i += 1
            kind = "op" if text[s:i] in _OPS3 + _OPS2 or c in ";:,.=|<>?[]{}()+-/*\\" else "bad"
        t = Tok(kind, text[s:i], s, i, line)
        line += text.count("\n", s, i)
        if keep_space or kind not in ("ws", "remark"):
            out.append(t)
    return out


# ----------------------------------------------------------------------------------------------------------------
# declaration-level scan

_BLOCKS = {"entity": "end_entity", "type": "end_type", "function": "end_function", "procedure": "end_procedure",
           "rule": "end_rule", "constant": "end_constant"}
_SECTIONS = ("derive", "inverse", "unique", "where")


class Decl:
    """One top-level declaration of a schema.  Offsets are character offsets into the scanned text."""

    def __init__(self, kind, name, toks):
        self.kind, self.name, self.toks = kind, name, toks
        self.start, self.end = toks[0].start, toks[-1].end

    def __repr__(self):
        return "Decl(%s %s)" % (self.kind, self.name)


class Entity(Decl):
    def __init__(self, name, toks):
        Decl.__init__(self, "entity", name, toks)
        # head = ENTITY name ... first ';'
        k = 0
        while toks[k].text != ";":
            k += 1
        self.head = toks[:k + 1]
        self.head_semi = toks[k]
        body = toks[k + 1:-2] if toks[-1].text == ";" else toks[k + 1:-1]
        self.end_kw = [t for t in toks if t.low == "end_entity"][-1]
        # a section keyword opens a section only at the start of a statement (UNIQUE also occurs inside aggregate types)
        self.sections = [t.low for i, t in enumerate(body) if t.kind == "kw" and t.low in _SECTIONS and (i == 0 or body[i - 1].text == ";")]
        self.supers = []
        self.super_close = None      # ')' token of SUBTYPE OF ( ... )
        self.has_supertype_clause = any(t.low == "supertype" for t in self.head)
        hl = [t.low for t in self.head]
        if "subtype" in hl:
            j = hl.index("subtype")
            j += 1
            while j < len(self.head) and self.head[j].text != "(":
                j += 1
            j += 1
            while j < len(self.head) and self.head[j].text != ")":
                if self.head[j].kind == "id":
                    self.supers.append(self.head[j].low)
                j += 1
            if j < len(self.head):
                self.super_close = self.head[j]
        # explicit attributes: tokens before the first section keyword; `name {, name} : type ;`
        self.attrs = []          # plain explicit attribute names declared here (not SELF\x.y redeclarations)
        self.redeclares = False
        stmt = []
        for t in body:
            if t.kind == "kw" and t.low in _SECTIONS and not stmt:
                break
            stmt.append(t)
            if t.text == ";":
                names = []
                for u in stmt:
                    if u.text == ":":
                        break
                    names.append(u)
                if any(u.low == "self" for u in names):
                    self.redeclares = True
                else:
                    self.attrs += [u.low for u in names if u.kind == "id"]
                stmt = []
        # every identifier followed by ':' anywhere in the body (attribute and rule-label names): avoid clashes
        self.labels = set()
        for a, b in zip(body, body[1:]):
            if a.kind == "id" and b.text == ":":
                self.labels.add(a.low)
        self.labels |= set(self.attrs)


class Schema:
    def __init__(self, name, head_end, body_start, end_tok, decls, toks):
        self.name, self.head_end, self.body_start, self.end_tok, self.decls, self.toks = name, head_end, body_start, end_tok, decls, toks

    @property
    def entities(self):
        return [d for d in self.decls if d.kind == "entity"]

    @property
    def types(self):
        return [d for d in self.decls if d.kind == "type"]

    def positions(self):
        """character offsets at which a new top-level declaration may be inserted (between declarations; a CONSTANT block,
        which must precede the other declarations in ISO 10303-11, is never displaced)."""
        ds = [d for d in self.decls if d.kind != "constant"]
        first = max([self.body_start] + [d.end for d in self.decls if d.kind == "constant"])
        return [first] + [d.end for d in ds]


class Scan:
    def __init__(self, text):
        self.text = text
        self.toks = tokenize(text)
        self.schemas = []
        self.ok = True
        self.idents = set(t.low for t in self.toks if t.kind in ("id", "kw"))
        try:
            self._scan()
        except (IndexError, ValueError, StopIteration):
            self.ok = False
        if not self.schemas:
            self.ok = False

    def _scan(self):
        toks = self.toks
        i, n = 0, len(toks)
        while i < n:
            if toks[i].low != "schema":
                i += 1
                continue
            name = toks[i + 1].low
            j = i + 2
            while toks[j].text != ";":
                j += 1
            head_end = toks[j].end
            j += 1
            # interface specifications
            while j < n and toks[j].low in ("use", "reference"):
                while toks[j].text != ";":
                    j += 1
                j += 1
            body_start = toks[j - 1].end
            decls = []
            while j < n and toks[j].low != "end_schema":
                t = toks[j]
                if t.kind == "kw" and t.low in _BLOCKS:
                    endkw = _BLOCKS[t.low]
                    depth, k = 0, j
                    while True:
                        lw = toks[k].low if toks[k].kind == "kw" else ""
                        if lw in ("function", "procedure", "rule") and t.low in ("function", "procedure", "rule"):
                            depth += 1
                        elif lw in ("end_function", "end_procedure", "end_rule") and t.low in ("function", "procedure", "rule"):
                            depth -= 1
                            if depth == 0:
                                break
                        elif lw == endkw and t.low not in ("function", "procedure", "rule"):
                            break
                        k += 1
                    if k + 1 < n and toks[k + 1].text == ";":
                        k += 1
                    span = toks[j:k + 1]
                    nm = toks[j + 1].low if t.low != "constant" else ""
                    decls.append(Entity(nm, span) if t.low == "entity" else Decl(t.low, nm, span))
                    j = k + 1
                else:
                    j += 1       # something this scanner does not know: skip
            end_tok = toks[j]
            self.schemas.append(Schema(name, head_end, body_start, end_tok, decls, toks[i:j + 1]))
            i = j + 1

    def entity(self, name):
        for s in self.schemas:
            for e in s.entities:
                if e.name == name:
                    return e
        return None


def scan(text):
    return Scan(text)


def splice(text, edits):
    """edits: list of (offset, delete_len, insert_text); applied right-to-left."""
    for off, dl, ins in sorted(edits, key=lambda e: (e[0], e[1]), reverse=True):
        text = text[:off] + ins + text[off + dl:]
    return text


# ----------------------------------------------------------------------------------------------------------------
# schema sources

def _hyp_collect(strategy, seed, n):
    from hypothesis import given, settings, seed as hseed, Phase, HealthCheck
    out = []

    @hseed(seed)
    @settings(max_examples=n, database=None, deadline=None, phases=[Phase.generate], suppress_health_check=list(HealthCheck))
    @given(strategy)
    def collect(x):
        out.append(x)
    collect()
    return out


def _draw_chunk(arg):
    kind, seed, k, cfg = arg
    from hypothesis import strategies as st
    out = []
    if kind == "explang":
        import explang
        strat = st.tuples(explang.schemas(cfg.get("explang", {})), st.integers(0, 2 ** 32 - 1))
        for d, r in _hyp_collect(strat, seed, k):
            out.append({"text": d["text"], "origin": "explang", "tags": list(d.get("tags", [])), "rseed": r})
    else:
        import expgen
        import exprender
        strat = st.tuples(expgen.schemas(cfg.get("expgen", {})), st.integers(0, 2 ** 32 - 1))
        for d, r in _hyp_collect(strat, seed, k):
            out.append({"text": exprender.schema(d), "origin": "expgen", "tags": expgen.tags(d), "rseed": r})
    return out


def have_explang():
    try:
        import explang      # noqa: F401
        return True
    except ImportError:
        return False


def sources(seed, n, cfg=None, profile="auto", chunk=12):
    """-> list of {"text", "origin", "tags", "rseed"}; distinct texts.  `rseed` is a Hypothesis-drawn integer from which the
    template choices for that schema are derived.  profile: 'auto' = language profile (lib/explang.py) for two thirds and
    codegen profile (lib/expgen.py) for one third when explang is importable, else expgen only; 'explang' / 'expgen' force one.
    Drawn in parallel chunks, each chunk an independent Hypothesis run seeded with a sub-seed."""
    import common
    cfg = dict(cfg or {})
    if profile == "auto":
        plan = [("explang", n - n // 3), ("expgen", n // 3)] if have_explang() else [("expgen", n)]
    else:
        plan = [(profile, n)]
    jobs = []
    for kind, want in plan:
        # Hypothesis repeats small examples: draw ~1.6x and de-duplicate
        total = int(want * 1.6) + 4
        k = 0
        while total > 0:
            jobs.append((kind, common.sub_seed(seed, "src", kind, k), min(chunk, total), cfg))
            total -= chunk
            k += 1
    res = common.pmap(_draw_chunk, jobs)
    out, seen, count = [], set(), {}
    want = dict(plan)
    for (kind, _s, _k, _c), lst in zip(jobs, res):
        for s in lst:
            if s["text"] in seen or count.get(kind, 0) >= want[kind]:
                continue
            seen.add(s["text"])
            count[kind] = count.get(kind, 0) + 1
            if cfg.get("interface_chains", True) and s["rseed"] % 5 == 0:
                t2 = interface_chain(s["text"], random.Random("%s|chain" % s["rseed"]))
                if t2 is not None:
                    s = dict(s, text=t2, tags=list(s.get("tags", [])) + ["interface-chain-with-rename"])
            out.append(s)
    return out


def interface_chain(text, rnd, broken=False):
    """Appends two schemas that pass an entity of `text` along a chain of interface clauses with a rename:
         SCHEMA <top>; USE FROM <s> (<e> AS <nick>); END_SCHEMA;
         SCHEMA <mid>; USE|REFERENCE FROM <top> (<nick>); ENTITY <u>; a : <nick>; END_ENTITY; END_SCHEMA;
    (valid: a USE'd item belongs to the using schema and can be interfaced from it under its new name).  The schema names
    are drawn so that the order in which the tools visit the schemas varies.  broken=True asks <top> for the ORIGINAL name,
    which is not visible there: an unresolvable reference.  -> new text, or None when text has no schema-level entity."""
    sc = scan(text)
    if not sc.ok or not sc.schemas:
        return None
    cands = [(sch, e) for sch in sc.schemas for e in sch.entities]
    if not cands:
        return None
    sch, ent = rnd.choice(cands)
    used = set(sc.idents)

    def fresh(stems):
        for _ in range(50):
            n = rnd.choice(stems) + rnd.choice(["", "_s", "_x", "1", "_sch"]) + (str(rnd.randrange(100)) if rnd.random() < 0.5 else "")
            if n.lower() not in used:
                used.add(n.lower())
                return n
        n = "zq%d" % rnd.randrange(10 ** 6)
        used.add(n)
        return n
    stems = ["a", "b", "mid", "top", "zz", "m", "q", "chain", "k", "w", "part", "units", "r"]
    top, mid = fresh(stems), fresh(stems)
    nick, user, attr = fresh(["nick", "nickname", "nm", "x"]), fresh(["user", "holder", "u"]), fresh(["a", "ref", "r"])
    kw2 = rnd.choice(["USE FROM", "USE FROM", "REFERENCE FROM"])
    asked = ent.name if broken else nick
    wrap = rnd.choice(["%s", "OPTIONAL %s", "LIST [1:?] OF %s", "SET OF %s"])
    tail = ("\nSCHEMA %s;\nUSE FROM %s (%s AS %s);\nEND_SCHEMA;\n\nSCHEMA %s;\n%s %s (%s);\nENTITY %s;\n  %s : %s;\nEND_ENTITY;\nEND_SCHEMA;\n"
            % (top, sch.name, ent.name, nick, mid, kw2, top, asked, user, attr, wrap % asked))
    if rnd.random() < 0.5:
        # the chain before the schema it starts from
        return tail.lstrip("\n") + "\n" + text
    return text.rstrip("\n") + "\n" + tail


def shipped(repo, which="unitary"):
    import glob
    import os
    pats = {"unitary": ["test/unitary_schemas/*.exp"], "data": ["data/*/*.exp"]}[which]
    out = []
    for p in pats:
        for f in sorted(glob.glob(os.path.join(repo, p))):
            out.append(f)
    return out


# ----------------------------------------------------------------------------------------------------------------
# single-fault templates

class Mutant(dict):
    """keys: text, template, flavour ('standalone'|'insitu'), expect [ {code, args} ], listed (C04 fault class or None),
    decl (declaration kind hit), pos (index of the declaration position), note"""


def A(*alts):
    """expected argument that may be any of several generator-known texts (cycles report one member)"""
    return {"any": [a.lower() for a in alts]}


ANY = None      # argument not asserted (line numbers, formatted reals)


class Ctx:
    def __init__(self, text, rnd, sc=None):
        self.text, self.rnd = text, rnd
        self.sc = sc or scan(text)
        self.n = 0
        self.prefix = "zzq"
        k = 0
        while any(i.startswith(self.prefix) for i in self.sc.idents):
            k += 1
            self.prefix = "zzq%d" % k
        self.base = rnd.randrange(1, 900)

    def name(self, tag=""):
        self.n += 1
        return "%s_%s%d" % (self.prefix, tag, self.base + self.n)

    def schema(self):
        return self.rnd.choice(self.sc.schemas)

    def position(self, sch):
        ps = sch.positions()
        k = self.rnd.randrange(len(ps))
        return k, ps[k]

    def insert_decl(self, sch, decl_text):
        k, off = self.position(sch)
        return k, [(off, 0, "\n" + decl_text.rstrip("\n") + "\n")]


def _mk(ctx, template, flavour, edits, expect, listed, decl, pos, note=""):
    return Mutant(text=splice(ctx.text, edits), template=template, flavour=flavour, expect=expect, listed=listed, decl=decl,
                  pos=pos, note=note)


def _plain_entities(sch):
    """entities whose body has only explicit attributes (a new section can be appended before END_ENTITY)"""
    return [e for e in sch.entities if not e.sections]


def _pick(ctx, seq):
    seq = list(seq)
    return ctx.rnd.choice(seq) if seq else None


TEMPLATES = {}


def template(name, listed=None, lexical=False):
    def deco(f):
        TEMPLATES[name] = {"fn": f, "listed": listed, "lexical": lexical}
        return f
    return deco


# ---- semantic, listed by C04 ---------------------------------------------------------------------------------

@template("undefined-type", listed="undefined type")
def t_undefined_type(ctx, insitu):
    sch = ctx.schema()
    z, a = ctx.name("t"), ctx.name("a")
    wrap = ctx.rnd.choice(["%s", "LIST [0:?] OF %s", "OPTIONAL %s", "SET OF %s"])
    if insitu and sch.entities:
        e = _pick(ctx, sch.entities)
        return _mk(ctx, "undefined-type", "insitu", [(e.head_semi.end, 0, "\n  %s : %s;" % (a, wrap % z))],
                   [{"code": "UNDEFINED_TYPE", "args": [z]}], "undefined type", "entity-attribute", sch.decls.index(e))
    form = ctx.rnd.choice(["entity", "type", "select"])
    if form == "entity":
        txt = "ENTITY %s;\n  %s : %s;\nEND_ENTITY;" % (ctx.name("e"), a, wrap % z)
    elif form == "type":
        txt = "TYPE %s = %s;\nEND_TYPE;" % (ctx.name("d"), (wrap % z).replace("OPTIONAL ", ""))
    else:
        txt = "TYPE %s = SELECT (%s);\nEND_TYPE;" % (ctx.name("d"), z)
    k, ed = ctx.insert_decl(sch, txt)
    return _mk(ctx, "undefined-type", "standalone", ed, [{"code": "UNDEFINED_TYPE", "args": [z]}], "undefined type", "new-" + form, k)


@template("unknown-supertype", listed="undefined supertype")
def t_unknown_supertype(ctx, insitu):
    sch = ctx.schema()
    z = ctx.name("s")
    if insitu and sch.entities:
        e = _pick(ctx, sch.entities)
        if e.super_close is not None:
            ed = [(e.super_close.start, 0, ", " + z)]
        else:
            ed = [(e.head_semi.start, 0, "\n  SUBTYPE OF (%s)" % z)]
        return _mk(ctx, "unknown-supertype", "insitu", ed, [{"code": "UNKNOWN_SUPERTYPE", "args": [z, e.name]}],
                   "undefined supertype", "entity-head", sch.decls.index(e))
    n = ctx.name("e")
    k, ed = ctx.insert_decl(sch, "ENTITY %s\n  SUBTYPE OF (%s);\nEND_ENTITY;" % (n, z))
    return _mk(ctx, "unknown-supertype", "standalone", ed, [{"code": "UNKNOWN_SUPERTYPE", "args": [z, n]}], "undefined supertype", "new-entity", k)


@template("unknown-subtype", listed="undefined subtype")
def t_unknown_subtype(ctx, insitu):
    sch = ctx.schema()
    z = ctx.name("s")
    shape = ctx.rnd.choice(["%s", "ONEOF(%s)"])
    cands = [e for e in sch.entities if not e.has_supertype_clause]
    if insitu and cands:
        e = _pick(ctx, cands)
        name_tok = e.head[1]
        return _mk(ctx, "unknown-subtype", "insitu", [(name_tok.end, 0, "\n  SUPERTYPE OF (%s)" % (shape % z))],
                   [{"code": "UNKNOWN_SUBTYPE", "args": [z, e.name]}], "undefined subtype", "entity-head", sch.decls.index(e))
    n = ctx.name("e")
    k, ed = ctx.insert_decl(sch, "ENTITY %s\n  SUPERTYPE OF (%s);\nEND_ENTITY;" % (n, shape % z))
    return _mk(ctx, "unknown-subtype", "standalone", ed, [{"code": "UNKNOWN_SUBTYPE", "args": [z, n]}], "undefined subtype", "new-entity", k)


@template("undefined-schema", listed="undefined schema")
def t_undefined_schema(ctx, insitu):
    sch = ctx.schema()
    z = ctx.name("sch")
    form = ctx.rnd.choice(["USE FROM %s;", "REFERENCE FROM %s;", "USE FROM %s (" + ctx.name("x") + ");",
                           "REFERENCE FROM %s (" + ctx.name("x") + ");"])
    return _mk(ctx, "undefined-schema", "insitu", [(sch.head_end, 0, "\n" + form % z)], [{"code": "UNDEFINED_SCHEMA", "args": [z]}],
               "undefined schema", "interface", 0)


@template("undefined-function", listed="undefined function")
def t_undefined_function(ctx, insitu):
    sch = ctx.schema()
    z = ctx.name("f")
    nargs = ctx.rnd.randrange(1, 4)
    call = "%s(%s)" % (z, ", ".join(str(ctx.rnd.randrange(0, 9)) for _ in range(nargs)))
    exp = [{"code": "UNDEFINED_FUNC", "args": [z]}]
    cands = _plain_entities(sch)
    if insitu and cands:
        e = _pick(ctx, cands)
        sect = ctx.rnd.choice(["DERIVE\n  %s : INTEGER := %s;" % (ctx.name("d"), call), "WHERE\n  %s : %s > 0;" % (ctx.name("w"), call)])
        return _mk(ctx, "undefined-function", "insitu", [(e.end_kw.start, 0, sect + "\n")], exp, "undefined function",
                   "entity-" + sect.split()[0].lower(), sch.decls.index(e))
    form = ctx.rnd.choice(["derive", "typewhere", "function"])
    if form == "derive":
        txt = "ENTITY %s;\nDERIVE\n  %s : INTEGER := %s;\nEND_ENTITY;" % (ctx.name("e"), ctx.name("d"), call)
    elif form == "typewhere":
        txt = "TYPE %s = INTEGER;\nWHERE\n  %s : SELF > %s;\nEND_TYPE;" % (ctx.name("d"), ctx.name("w"), call)
    else:
        txt = "FUNCTION %s(%s : INTEGER) : INTEGER;\n  RETURN (%s);\nEND_FUNCTION;" % (ctx.name("g"), ctx.name("p"), call)
    k, ed = ctx.insert_decl(sch, txt)
    return _mk(ctx, "undefined-function", "standalone", ed, exp, "undefined function", "new-" + form, k)


@template("unknown-attribute", listed="undefined attribute")
def t_unknown_attribute(ctx, insitu):
    sch = ctx.schema()
    z = ctx.name("a")
    cands = _plain_entities(sch)
    if insitu and cands:
        e = _pick(ctx, cands)
        return _mk(ctx, "unknown-attribute", "insitu", [(e.end_kw.start, 0, "UNIQUE\n  %s : %s;\n" % (ctx.name("u"), z))],
                   [{"code": "UNKNOWN_ATTR_IN_ENTITY", "args": [z, e.name]}], "undefined attribute", "entity-unique", sch.decls.index(e))
    p, c, x = ctx.name("e"), ctx.name("e"), ctx.name("a")
    form = ctx.rnd.choice(["unique", "dot", "unique-qualified", "unique-qualified"])
    if form == "unique":
        txt = "ENTITY %s;\n  %s : INTEGER;\nUNIQUE\n  %s : %s;\nEND_ENTITY;" % (p, x, ctx.name("u"), z)
        exp = [{"code": "UNKNOWN_ATTR_IN_ENTITY", "args": [z, p]}]
    elif form == "unique-qualified":
        # the qualified form SELF\super.attr in a UNIQUE rule of a (sub-)subtype: the rule is looked up qualified and unqualified
        m = ctx.name("e")
        txt = ("ENTITY %s;\n  %s : INTEGER;\nEND_ENTITY;\nENTITY %s\n  SUBTYPE OF (%s);\nEND_ENTITY;\nENTITY %s\n  SUBTYPE OF (%s);\nUNIQUE\n  %s : SELF\\%s.%s;\nEND_ENTITY;"
               % (p, x, m, p, c, m, ctx.name("u"), p, z))
        exp = [{"code": "UNKNOWN_ATTR_IN_ENTITY", "args": [z, A(p, m, c)]}]
    else:
        r = ctx.name("r")
        txt = ("ENTITY %s;\n  %s : INTEGER;\nEND_ENTITY;\nENTITY %s;\n  %s : %s;\nDERIVE\n  %s : INTEGER := %s.%s;\nEND_ENTITY;"
               % (p, x, c, r, p, ctx.name("d"), r, z))
        exp = [{"code": "UNKNOWN_ATTR_IN_ENTITY", "args": [z, p]}]
    k, ed = ctx.insert_decl(sch, txt)
    return _mk(ctx, "unknown-attribute", "standalone", ed, exp, "undefined attribute", "new-" + form, k)


@template("duplicate-declaration", listed="duplicate declaration")
def t_duplicate(ctx, insitu):
    sch = ctx.schema()
    named = [d for d in sch.decls if d.name and d.kind in ("entity", "type", "function", "procedure", "rule")]
    if insitu and named:
        d = _pick(ctx, named)
        how = ctx.rnd.choice(["entity", "type", "function"])
        txt = {"entity": "ENTITY %s;\nEND_ENTITY;", "type": "TYPE %s = INTEGER;\nEND_TYPE;",
               "function": "FUNCTION %s(" + ctx.name("p") + " : INTEGER) : INTEGER;\n  RETURN (1);\nEND_FUNCTION;"}[how] % d.name
        k, ed = ctx.insert_decl(sch, txt)
        return _mk(ctx, "duplicate-declaration", "insitu", ed, [{"code": "DUPLICATE_DECL", "args": [d.name, ANY]}], "duplicate declaration",
                   "%s-vs-%s" % (how, d.kind), k)
    form = ctx.rnd.choice(["attr", "decl", "enum-item", "param"])
    z = ctx.name("n")
    if form == "attr":
        txt = "ENTITY %s;\n  %s : INTEGER;\n  %s : REAL;\nEND_ENTITY;" % (ctx.name("e"), z, z)
    elif form == "decl":
        txt = "TYPE %s = INTEGER;\nEND_TYPE;\nENTITY %s;\nEND_ENTITY;" % (z, z)
    elif form == "enum-item":
        txt = "TYPE %s = ENUMERATION OF (%s, %s, %s);\nEND_TYPE;" % (ctx.name("d"), z, ctx.name("i"), z)
    else:
        txt = "FUNCTION %s(%s : INTEGER; %s : REAL) : INTEGER;\n  RETURN (1);\nEND_FUNCTION;" % (ctx.name("g"), z, z)
    k, ed = ctx.insert_decl(sch, txt)
    return _mk(ctx, "duplicate-declaration", "standalone", ed, [{"code": "DUPLICATE_DECL", "args": [z, ANY]}], "duplicate declaration", "new-" + form, k)


@template("subtype-cycle", listed="subtype cycle")
def t_subtype_cycle(ctx, insitu):
    sch = ctx.schema()
    if insitu:
        # a root entity made a subtype of one of its own descendants
        ents = {e.name: e for e in sch.entities}
        kids = {}
        for e in sch.entities:
            for s in e.supers:
                kids.setdefault(s, []).append(e.name)
        roots = [e for e in sch.entities if not e.supers and e.name in kids]
        if roots:
            r = _pick(ctx, roots)
            chain = [r.name]
            while chain[-1] in kids and (len(chain) < 2 or ctx.rnd.random() < 0.6):
                chain.append(ctx.rnd.choice(kids[chain[-1]]))
            d = chain[-1]
            members = A(*chain)
            return _mk(ctx, "subtype-cycle", "insitu", [(r.head_semi.start, 0, "\n  SUBTYPE OF (%s)" % d)],
                       [{"code": "SUBSUPER_LOOP", "args": [members]}, {"code": "SUBSUPER_CONTINUATION", "args": [members]}],
                       "subtype cycle", "entity-head-len%d" % len(chain), sch.decls.index(r))
    n = ctx.rnd.randrange(1, 5)
    names = [ctx.name("e") for _ in range(n)]
    parts = ["ENTITY %s\n  SUBTYPE OF (%s);\nEND_ENTITY;" % (names[i], names[(i + 1) % n]) for i in range(n)]
    # satellites: entities outside the cycle that inherit from one or two of its members (shared subtypes, attributes):
    # the cycle must be found whatever else hangs on it
    sats = ctx.rnd.choice([0, 0, 1, 2, 3])
    for _ in range(sats):
        sups = ctx.rnd.sample(names, min(len(names), ctx.rnd.choice([1, 2, 2])))
        body = "  %s : INTEGER;\n" % ctx.name("a") if ctx.rnd.random() < 0.5 else ""
        sat = "ENTITY %s\n  SUBTYPE OF (%s);\n%sEND_ENTITY;" % (ctx.name("e"), ", ".join(sups), body)
        parts.insert(ctx.rnd.randrange(len(parts) + 1), sat)
    k, ed = ctx.insert_decl(sch, "\n".join(parts))
    members = A(*names)
    exp = [{"code": "SUBSUPER_LOOP", "args": [members]}]
    if n > 1:
        exp.append({"code": "SUBSUPER_CONTINUATION", "args": [members]})
    return _mk(ctx, "subtype-cycle", "standalone", ed, exp, "subtype cycle", "new-cycle-len%d%s" % (n, "+satellites" if sats else ""), k)


@template("select-cycle", listed="select cycle")
def t_select_cycle(ctx, insitu):
    sch = ctx.schema()
    if insitu:
        sels = []
        for t in sch.types:
            lows = [x.low for x in t.toks]
            if "select" in lows:
                j = lows.index("select")
                close = None
                depth = 0
                for x in t.toks[j:]:
                    if x.text == "(":
                        depth += 1
                    elif x.text == ")":
                        depth -= 1
                        if depth == 0:
                            close = x
                            break
                if close is not None:
                    sels.append((t, close))
        if sels:
            t, close = _pick(ctx, sels)
            z = ctx.name("d")
            k, ed = ctx.insert_decl(sch, "TYPE %s = SELECT (%s);\nEND_TYPE;" % (z, t.name))
            ed.append((close.start, 0, ", " + z))
            members = A(t.name, z)
            return _mk(ctx, "select-cycle", "insitu", ed, [{"code": "SELECT_LOOP", "args": [members]}, {"code": "SELECT_CONTINUATION", "args": [members]}],
                       "select cycle", "select-type", k)
    n = ctx.rnd.randrange(1, 5)
    names = [ctx.name("d") for _ in range(n)]
    # each member of the cycle may also select a shared, harmless select type (listed first): the cycle must still be found
    shared = ctx.name("d") if ctx.rnd.random() < 0.5 else None
    parts = []
    if shared:
        leaf = ctx.name("e")
        parts.append("ENTITY %s;\nEND_ENTITY;\nTYPE %s = SELECT (%s);\nEND_TYPE;" % (leaf, shared, leaf))
    for i in range(n):
        items = [names[(i + 1) % n]]
        if shared and ctx.rnd.random() < 0.7:
            items.insert(0, shared)
        parts.append("TYPE %s = SELECT (%s);\nEND_TYPE;" % (names[i], ", ".join(items)))
    k, ed = ctx.insert_decl(sch, "\n".join(parts))
    members = A(*names)
    exp = [{"code": "SELECT_LOOP", "args": [members]}]
    if n > 1:
        exp.append({"code": "SELECT_CONTINUATION", "args": [members]})
    return _mk(ctx, "select-cycle", "standalone", ed, exp, "select cycle", "new-cycle-len%d" % n, k)


@template("missing-supertype", listed="subtype not listing its supertype")
def t_missing_supertype(ctx, insitu):
    sch = ctx.schema()
    shape = ctx.rnd.choice(["%s", "ONEOF(%s)"])
    if insitu and len(sch.entities) >= 2:
        # A SUPERTYPE OF (B) where B neither lists A nor is an ancestor of A (no cycle is created)
        anc = {}
        for e in sch.entities:
            anc[e.name] = set(e.supers)
        changed = True
        while changed:
            changed = False
            for n_, s in anc.items():
                for x in list(s):
                    new = anc.get(x, set()) - s
                    if new:
                        s |= new
                        changed = True
        pairs = [(a, b) for a in sch.entities for b in sch.entities
                 if a is not b and not a.has_supertype_clause and a.name not in b.supers and b.name not in anc[a.name]
                 and a.name not in anc[b.name]]
        if pairs:
            a, b = _pick(ctx, pairs)
            return _mk(ctx, "missing-supertype", "insitu", [(a.head[1].end, 0, "\n  SUPERTYPE OF (%s)" % (shape % b.name))],
                       [{"code": "MISSING_SUPERTYPE", "args": [a.name, b.name]}], "subtype not listing its supertype", "entity-head",
                       sch.decls.index(a))
    a, b = ctx.name("e"), ctx.name("e")
    txt = "ENTITY %s\n  SUPERTYPE OF (%s);\nEND_ENTITY;\nENTITY %s;\nEND_ENTITY;" % (a, shape % b, b)
    k, ed = ctx.insert_decl(sch, txt)
    return _mk(ctx, "missing-supertype", "standalone", ed, [{"code": "MISSING_SUPERTYPE", "args": [a, b]}], "subtype not listing its supertype", "new-pair", k)


@template("inherited-attribute-redeclared", listed="inherited attribute re-declared")
def t_overloaded(ctx, insitu):
    sch = ctx.schema()
    if insitu:
        ents = {e.name: e for e in sch.entities}
        cands = []
        for c in sch.entities:
            # direct supertypes only, and only when no other ancestor path could report first with another name
            if len(c.supers) == 1 and c.supers[0] in ents and not c.redeclares:
                p = ents[c.supers[0]]
                for a in p.attrs:
                    if a not in c.labels:
                        cands.append((c, p, a))
        if cands:
            c, p, a = _pick(ctx, cands)
            return _mk(ctx, "inherited-attribute-redeclared", "insitu", [(c.head_semi.end, 0, "\n  %s : INTEGER;" % a)],
                       [{"code": "OVERLOADED_ATTR", "args": [a, p.name]}], "inherited attribute re-declared", "entity-attribute",
                       sch.decls.index(c))
    p, c, a = ctx.name("e"), ctx.name("e"), ctx.name("a")
    depth = ctx.rnd.randrange(0, 3)
    mids = [ctx.name("e") for _ in range(depth)]
    chain = [p] + mids + [c]
    parts = ["ENTITY %s;\n  %s : INTEGER;\nEND_ENTITY;" % (p, a)]
    for i in range(1, len(chain)):
        body = "  %s : REAL;\n" % a if i == len(chain) - 1 else ""
        parts.append("ENTITY %s\n  SUBTYPE OF (%s);\n%sEND_ENTITY;" % (chain[i], chain[i - 1], body))
    k, ed = ctx.insert_decl(sch, "\n".join(parts))
    # the supertype quoted is the direct supertype through which the attribute arrives or its owner: both are generator-known
    return _mk(ctx, "inherited-attribute-redeclared", "standalone", ed, [{"code": "OVERLOADED_ATTR", "args": [a, A(*chain[:-1])]}],
               "inherited attribute re-declared", "new-chain-depth%d" % depth, k)


@template("bad-inverse", listed="bad INVERSE")
def t_bad_inverse(ctx, insitu):
    sch = ctx.schema()
    z = ctx.name("a")
    agg = ctx.rnd.choice(["", "SET OF ", "SET [0:?] OF ", "BAG [1:?] OF "])
    which = ctx.rnd.choice(["attr", "entity"])
    cands = _plain_entities(sch)
    if insitu and cands and sch.entities:
        e = _pick(ctx, cands)
        o = _pick(ctx, sch.entities)
        if which == "attr":
            return _mk(ctx, "bad-inverse", "insitu", [(e.end_kw.start, 0, "INVERSE\n  %s : %s%s FOR %s;\n" % (ctx.name("i"), agg, o.name, z))],
                       [{"code": "INVERSE_BAD_ATTR", "args": [z, o.name]}], "bad INVERSE", "entity-inverse-attr", sch.decls.index(e))
    o, e = ctx.name("e"), ctx.name("e")
    if which == "attr":
        txt = ("ENTITY %s;\n  %s : INTEGER;\nEND_ENTITY;\nENTITY %s;\nINVERSE\n  %s : %s%s FOR %s;\nEND_ENTITY;"
               % (o, ctx.name("a"), e, ctx.name("i"), agg, o, z))
        exp = [{"code": "INVERSE_BAD_ATTR", "args": [z, o]}]
    else:
        txt = ("TYPE %s = INTEGER;\nEND_TYPE;\nENTITY %s;\nINVERSE\n  %s : %s%s FOR %s;\nEND_ENTITY;"
               % (o, e, ctx.name("i"), agg, o, z))
        exp = [{"code": "INVERSE_BAD_ENTITY", "args": [z]}]
    k, ed = ctx.insert_decl(sch, txt)
    return _mk(ctx, "bad-inverse", "standalone", ed, exp, "bad INVERSE", "new-inverse-" + which, k)


# ---- semantic, argument-carrying, not listed by C04 -------------------------------------------------------------

def _standalone(name, build):
    @template(name)
    def t(ctx, insitu, _b=build, _n=name):
        sch = ctx.schema()
        txt, exp, decl = _b(ctx)
        k, ed = ctx.insert_decl(sch, txt)
        return _mk(ctx, _n, "standalone", ed, exp, None, decl, k)
    return t


def _b_undefined_object(ctx):
    z = ctx.name("v")
    op = ctx.rnd.choice(["%s + 1", "2 * %s", "-%s", "%s"])
    return ("ENTITY %s;\nDERIVE\n  %s : INTEGER := %s;\nEND_ENTITY;" % (ctx.name("e"), ctx.name("d"), op % z),
            [{"code": "UNDEFINED", "args": [z]}], "derive-expr")


def _b_undefined_attr_select(ctx):
    z, p, s = ctx.name("a"), ctx.name("e"), ctx.name("d")
    return ("ENTITY %s;\n  %s : INTEGER;\nEND_ENTITY;\nTYPE %s = SELECT (%s);\nEND_TYPE;\nENTITY %s;\n  %s : %s;\nDERIVE\n  %s : INTEGER := %s.%s;\nEND_ENTITY;"
            % (p, ctx.name("a"), s, p, ctx.name("e"), "zr", s, ctx.name("d"), "zr", z),
            [{"code": "UNDEFINED_ATTR", "args": [z]}], "select-dot")


def _b_attr_on_aggregate(ctx):
    z = ctx.name("a")
    return ("ENTITY %s;\n  zl : LIST OF INTEGER;\nDERIVE\n  %s : INTEGER := zl.%s;\nEND_ENTITY;" % (ctx.name("e"), ctx.name("d"), z),
            [{"code": "ATTRIBUTE_REF_ON_AGGREGATE", "args": [z]}], "aggregate-dot")


def _b_attr_non_entity(ctx):
    z = ctx.name("a")
    ty = ctx.rnd.choice(["INTEGER", "REAL", "STRING", "BOOLEAN"])
    return ("ENTITY %s;\n  zs : %s;\nDERIVE\n  %s : INTEGER := zs.%s;\nEND_ENTITY;" % (ctx.name("e"), ty, ctx.name("d"), z),
            [{"code": "ATTRIBUTE_REF_FROM_NON_ENTITY", "args": [z]}], "simple-dot")


def _b_enum_item(ctx):
    z, t = ctx.name("i"), ctx.name("d")
    return ("TYPE %s = ENUMERATION OF (%s, %s);\nEND_TYPE;\nENTITY %s;\n  zc : %s;\nDERIVE\n  %s : %s := zc.%s;\nEND_ENTITY;"
            % (t, ctx.name("i"), ctx.name("i"), ctx.name("e"), t, ctx.name("d"), t, z),
            [{"code": "ENUM_NO_SUCH_ITEM", "args": [t, z]}], "enum-dot")


def _b_group_no_entity(ctx):
    z, p = ctx.name("g"), ctx.name("e")
    return ("ENTITY %s;\n  zx : INTEGER;\nEND_ENTITY;\nENTITY %s\n  SUBTYPE OF (%s);\nDERIVE\n  %s : INTEGER := SELF\\%s.zx;\nEND_ENTITY;"
            % (p, ctx.name("e"), p, ctx.name("d"), z),
            [{"code": "GROUP_REF_NO_SUCH_ENTITY", "args": [z]}], "group-ref")


def _b_group_unexpected(ctx):
    p, a = ctx.name("e"), ctx.name("a")
    ty = ctx.rnd.choice(["INTEGER", "LIST OF INTEGER", "STRING", "SET OF REAL"])
    return ("ENTITY %s;\n  zx : INTEGER;\nEND_ENTITY;\nENTITY %s\n  SUBTYPE OF (%s);\n  %s : %s;\nDERIVE\n  %s : INTEGER := %s\\%s.zx;\nEND_ENTITY;"
            % (p, ctx.name("e"), p, a, ty, ctx.name("d"), a, p),
            [{"code": "GROUP_REF_UNEXPECTED_TYPE", "args": [a]}], "group-ref-on-" + ty.split()[0].lower())


def _b_ref_nonexistent(ctx):
    # needs a second schema: handled by the multi-schema wrapper below
    raise NotImplementedError


def _b_unlabelled(ctx):
    f = ctx.name("f")
    return ("FUNCTION %s(%s : INTEGER) : AGGREGATE OF GENERIC;\n  RETURN (?);\nEND_FUNCTION;" % (f, ctx.name("p")),
            [{"code": "UNLABELLED_PARAM_TYPE", "args": [f]}], "function-return")


def _b_not_a_type(ctx):
    f = ctx.name("f")
    return ("FUNCTION %s(%s : INTEGER) : INTEGER;\n  RETURN (1);\nEND_FUNCTION;\nENTITY %s;\n  %s : %s;\nEND_ENTITY;"
            % (f, ctx.name("p"), ctx.name("e"), ctx.name("a"), f),
            [{"code": "NOT_A_TYPE", "args": [f, ANY]}], "function-as-type")


def _b_no_such_procedure(ctx):
    z = ctx.name("p")
    return ("PROCEDURE %s(%s : INTEGER);\n  %s(1);\nEND_PROCEDURE;" % (ctx.name("q"), ctx.name("a"), z),
            [{"code": "NO_SUCH_PROCEDURE", "args": [z]}], "procedure-call")


def _b_type_is_entity(ctx):
    e = ctx.name("e")
    return ("ENTITY %s;\nEND_ENTITY;\nTYPE %s = %s;\nEND_TYPE;" % (e, ctx.name("d"), e),
            [{"code": "TYPE_IS_ENTITY", "args": [e]}], "type-over-entity")


def _b_redecl_no_attr(ctx):
    p, z = ctx.name("e"), ctx.name("a")
    return ("ENTITY %s;\n  zx : INTEGER;\nEND_ENTITY;\nENTITY %s\n  SUBTYPE OF (%s);\n  SELF\\%s.%s : INTEGER;\nEND_ENTITY;" % (p, ctx.name("e"), p, p, z),
            [{"code": "REDECL_NO_SUCH_ATTR", "args": [z, p]}], "redeclaration")


def _b_redecl_no_super(ctx):
    p, z = ctx.name("e"), ctx.name("s")
    return ("ENTITY %s;\n  zx : INTEGER;\nEND_ENTITY;\nENTITY %s\n  SUBTYPE OF (%s);\n  SELF\\%s.zx : INTEGER;\nEND_ENTITY;" % (p, ctx.name("e"), p, z),
            [{"code": "REDECL_NO_SUCH_SUPERTYPE", "args": [z, "zx"]}], "redeclaration")


def _b_missing_self(ctx):
    w = ctx.name("w")
    return ("TYPE %s = INTEGER;\nWHERE\n  %s : 1 > 0;\nEND_TYPE;" % (ctx.name("d"), w),
            [{"code": "MISSING_SELF", "args": [w]}], "type-where")


def _b_undefined_tag(ctx):
    z = ctx.name("t")
    return ("FUNCTION %s(%s : GENERIC:%s) : GENERIC:%s;\n  RETURN (?);\nEND_FUNCTION;" % (ctx.name("f"), ctx.name("p"), ctx.name("t"), z),
            [{"code": "UNDEFINED_TAG", "args": [z]}], "generic-tag")


def _b_wrong_arg_count(ctx):
    f = ctx.name("f")
    m = ctx.rnd.randrange(0, 6)
    k = ctx.rnd.choice([x for x in range(1, 8) if x != m])
    params = "; ".join("%s : INTEGER" % ctx.name("p") for _ in range(m))
    head = "FUNCTION %s%s : INTEGER;" % (f, "(%s)" % params if m else "")
    return ("%s\n  RETURN (1);\nEND_FUNCTION;\nENTITY %s;\nDERIVE\n  %s : INTEGER := %s(%s);\nEND_ENTITY;"
            % (head, ctx.name("e"), ctx.name("d"), f, ", ".join(str(i) for i in range(k))),
            [{"code": "WRONG_ARG_COUNT", "args": [f, str(k), str(m)]}], "call-%d-of-%d" % (k, m))


def _b_funcref_no_args(ctx):
    f = ctx.name("f")
    m = ctx.rnd.randrange(1, 5)
    params = "; ".join("%s : INTEGER" % ctx.name("p") for _ in range(m))
    return ("FUNCTION %s(%s) : INTEGER;\n  RETURN (1);\nEND_FUNCTION;\nENTITY %s;\nDERIVE\n  %s : INTEGER := %s;\nEND_ENTITY;"
            % (f, params, ctx.name("e"), ctx.name("d"), f),
            [{"code": "WRONG_ARG_COUNT", "args": [f, "0", str(m)]}], "call-without-list-of-%d" % m)


# warnings with a class name (for the -i / -w metamorphic part)
def _b_w_downcast(ctx):
    p, c, y = ctx.name("e"), ctx.name("e"), ctx.name("a")
    return ("ENTITY %s;\nEND_ENTITY;\nENTITY %s\n  SUBTYPE OF (%s);\n  %s : INTEGER;\nEND_ENTITY;\nENTITY %s;\n  zr : %s;\nDERIVE\n  %s : INTEGER := zr.%s;\nEND_ENTITY;"
            % (p, c, p, y, ctx.name("e"), p, ctx.name("d"), y),
            [{"code": "IMPLICIT_DOWNCAST", "args": [c]}], "downcast")


def _b_w_ambig_downcast(ctx):
    p, q, c1, c2, y, s = ctx.name("e"), ctx.name("e"), ctx.name("e"), ctx.name("e"), ctx.name("a"), ctx.name("d")
    return (("ENTITY %s;\nEND_ENTITY;\nENTITY %s;\nEND_ENTITY;\nENTITY %s\n  SUBTYPE OF (%s);\n  %s : INTEGER;\nEND_ENTITY;\n"
             "ENTITY %s\n  SUBTYPE OF (%s);\n  %s : INTEGER;\nEND_ENTITY;\nTYPE %s = SELECT (%s, %s);\nEND_TYPE;\n"
             "ENTITY %s;\n  zr : %s;\nDERIVE\n  %s : INTEGER := zr.%s;\nEND_ENTITY;")
            % (p, q, c1, p, y, c2, q, y, s, p, q, ctx.name("e"), s, ctx.name("d"), y),
            [{"code": "AMBIG_IMPLICIT_DOWNCAST", "args": [A(c1, c2)]}], "ambiguous-downcast")


def _b_w_unsupported(ctx):
    return ("ENTITY %s;\n  zb : BINARY;\nDERIVE\n  %s : BINARY := zb[1];\nEND_ENTITY;" % (ctx.name("e"), ctx.name("d")),
            [{"code": "WARN_UNSUPPORTED_LANG_FEAT", "args": [ANY, ANY, ANY]}], "binary-index")


def _b_w_limits(ctx):
    e = ctx.rnd.randrange(60, 300)
    return ("ENTITY %s;\nDERIVE\n  %s : REAL := 1.5E-%d;\nEND_ENTITY;" % (ctx.name("e"), ctx.name("d"), e),
            [{"code": "WARN_SMALL_REAL", "args": [ANY]}], "small-real")


def _b_w_case(ctx):
    e1, e2, s, z = ctx.name("d"), ctx.name("d"), ctx.name("d"), ctx.name("i")
    i1, i2 = ctx.name("i"), ctx.name("i")
    return (("TYPE %s = ENUMERATION OF (%s);\nEND_TYPE;\nTYPE %s = ENUMERATION OF (%s);\nEND_TYPE;\nTYPE %s = SELECT (%s, %s);\nEND_TYPE;\n"
             "FUNCTION %s(za : %s) : INTEGER;\n  CASE za OF\n    %s : RETURN (1);\n    za.%s : RETURN (2);\n  END_CASE;\n  RETURN (0);\nEND_FUNCTION;")
            % (e1, i1, e2, i2, s, e1, e2, ctx.name("f"), s, i1, z),
            [{"code": "CASE_SKIP_LABEL", "args": [z]}], "case-label")


def _b_w_unique_qual(ctx):
    p, c, a = ctx.name("e"), ctx.name("e"), ctx.name("a")
    return ("ENTITY %s;\n  %s : INTEGER;\nEND_ENTITY;\nENTITY %s\n  SUBTYPE OF (%s);\n  SELF\\%s.%s : INTEGER;\nUNIQUE\n  %s : SELF\\%s.%s;\nEND_ENTITY;"
            % (p, a, c, p, p, a, ctx.name("u"), p, a),
            [{"code": "UNIQUE_QUAL_REDECL", "args": [a, c]}], "unique-qualified")


def _b_w_indexing(ctx):
    l1, s1, sel = ctx.name("d"), ctx.name("d"), ctx.name("d")
    second = ctx.rnd.choice(["SET OF INTEGER", "INTEGER"])
    return (("TYPE %s = LIST OF INTEGER;\nEND_TYPE;\nTYPE %s = %s;\nEND_TYPE;\nTYPE %s = SELECT (%s, %s);\nEND_TYPE;\n"
             "ENTITY %s;\n  zm : %s;\nDERIVE\n  %s : INTEGER := zm[1];\nEND_ENTITY;")
            % (l1, s1, second, sel, l1, s1, ctx.name("e"), sel, ctx.name("d")),
            [{"code": "WARN_INDEXING_MIXED", "args": []}], "index-select")


def _b_index_non_aggregate(ctx):
    """an index / sub-range qualifier on something that is not an aggregate: a select without any aggregate member (of entities,
    of simple types, nested), an entity-valued attribute, a simple value"""
    e1, e2, sel, sel2, ent, d = ctx.name("e"), ctx.name("e"), ctx.name("d"), ctx.name("d"), ctx.name("e"), ctx.name("d")
    shape = ctx.rnd.choice(["select-of-entities", "select-of-simple", "nested-select", "entity", "simple"])
    idx = ctx.rnd.choice(["[1]", "[1:2]", "[zi]"])
    pre = "ENTITY %s;\nEND_ENTITY;\nENTITY %s;\nEND_ENTITY;\n" % (e1, e2)
    if shape == "select-of-entities":
        pre += "TYPE %s = SELECT (%s, %s);\nEND_TYPE;\n" % (sel, e1, e2)
        at = sel
    elif shape == "select-of-simple":
        pre += "TYPE %s = REAL;\nEND_TYPE;\nTYPE %s = SELECT (%s, %s);\nEND_TYPE;\n" % (sel2, sel, sel2, e1)
        at = sel
    elif shape == "nested-select":
        pre += "TYPE %s = SELECT (%s);\nEND_TYPE;\nTYPE %s = SELECT (%s, %s);\nEND_TYPE;\n" % (sel2, e1, sel, sel2, e2)
        at = sel
    elif shape == "entity":
        at = e1
    else:
        at = ctx.rnd.choice(["REAL", "INTEGER", "BOOLEAN"])
    where = ctx.rnd.choice(["derive", "where"])
    body = "ENTITY %s;\n  zm : %s;\n  zi : INTEGER;\n" % (ent, at)
    if where == "derive":
        body += "DERIVE\n  %s : REAL := zm%s;\nEND_ENTITY;" % (d, idx)
    else:
        body += "WHERE\n  %s : zm%s > 0.0;\nEND_ENTITY;" % (d, idx)
    return (pre + body, [{"code": "INDEXING_ILLEGAL", "args": []}], "index-" + shape)


for _n, _b in [("index-non-aggregate", _b_index_non_aggregate), ("undefined-object", _b_undefined_object), ("undefined-attribute-in-select", _b_undefined_attr_select),
               ("attribute-of-aggregate", _b_attr_on_aggregate), ("attribute-of-non-entity", _b_attr_non_entity),
               ("enum-no-such-item", _b_enum_item), ("group-no-such-entity", _b_group_no_entity),
               ("group-unexpected-type", _b_group_unexpected), ("unlabelled-generic", _b_unlabelled),
               ("not-a-type", _b_not_a_type), ("no-such-procedure", _b_no_such_procedure), ("type-is-entity", _b_type_is_entity),
               ("redeclared-no-such-attribute", _b_redecl_no_attr), ("redeclared-no-such-supertype", _b_redecl_no_super),
               ("missing-self", _b_missing_self), ("undefined-tag", _b_undefined_tag),
               ("wrong-argument-count", _b_wrong_arg_count), ("function-reference-without-arguments", _b_funcref_no_args),
               ("w-downcast", _b_w_downcast), ("w-ambiguous-downcast", _b_w_ambig_downcast), ("w-unsupported", _b_w_unsupported),
               ("w-limits", _b_w_limits), ("w-invalid-case", _b_w_case), ("w-unnecessary-qualifiers", _b_w_unique_qual),
               ("w-indexing", _b_w_indexing)]:
    _standalone(_n, _b)

WARNING_TEMPLATES = ["w-downcast", "w-ambiguous-downcast", "w-unsupported", "w-limits", "w-invalid-case", "w-unnecessary-qualifiers",
                     "w-indexing", "wrong-argument-count"]


@template("use-of-nonexistent-object")
def t_ref_nonexistent(ctx, insitu):
    """USE/REFERENCE FROM <existing other schema> (zzq): needs two schemas in the file; a second one is appended."""
    sch = ctx.schema()
    z, other = ctx.name("x"), ctx.name("sch")
    kw = ctx.rnd.choice(["USE", "REFERENCE"])
    ed = [(sch.head_end, 0, "\n%s FROM %s (%s);" % (kw, other, z)),
          (len(ctx.text), 0, "\nSCHEMA %s;\nENTITY %s;\nEND_ENTITY;\nEND_SCHEMA;\n" % (other, ctx.name("e")))]
    return _mk(ctx, "use-of-nonexistent-object", "insitu", ed, [{"code": "REF_NONEXISTENT", "args": [z, other]}], None, "interface", 0)


@template("include-missing-file")
def t_include(ctx, insitu):
    sch = ctx.schema()
    z = ctx.name("inc") + ".exp"
    k, ed = ctx.insert_decl(sch, "INCLUDE '%s';" % z)
    return _mk(ctx, "include-missing-file", "standalone", ed, [{"code": "INCLUDE_FILE", "args": [z]}], None, "include", k)


# ---- lexical ----------------------------------------------------------------------------------------------------

ILLEGAL_CHARS = "$%&@^~"


def _code_gaps(ctx):
    """offsets between two code tokens (not inside remarks / literals)"""
    toks = ctx.sc.toks
    return [t.end for t in toks[:-1]]


@template("illegal-character", lexical=True)
def t_illegal_char(ctx, insitu):
    c = ctx.rnd.choice(ILLEGAL_CHARS)
    off = ctx.rnd.choice(_code_gaps(ctx))
    return _mk(ctx, "illegal-character", "insitu", [(off, 0, " %s " % c)], [{"code": "UNEXPECTED_CHARACTER", "args": [c]}], None,
               "char-" + c, 0)


@template("non-ascii-byte", lexical=True)
def t_nonascii(ctx, insitu):
    b = ctx.rnd.randrange(0x80, 0x100)
    off = ctx.rnd.choice(_code_gaps(ctx))
    m = _mk(ctx, "non-ascii-byte", "insitu", [(off, 0, " " + chr(b) + " ")], [{"code": "NONASCII_CHAR", "args": ["%x" % b]}], None, "byte", 0)
    m["latin1"] = True
    return m


@template("underscore-identifier", lexical=True)
def t_bad_identifier(ctx, insitu):
    sch = ctx.schema()
    if insitu:
        ids = [t for t in ctx.sc.toks if t.kind == "id"]
        t = ctx.rnd.choice(ids)
        us = "_" * ctx.rnd.randrange(1, 3)
        return _mk(ctx, "underscore-identifier", "insitu", [(t.start, 0, us)], [{"code": "BAD_IDENTIFIER", "args": [us + t.text]}], None,
                   "existing-identifier", 0)
    z = "_" + ctx.name("u")
    k, ed = ctx.insert_decl(sch, "ENTITY %s;\nEND_ENTITY;" % z)
    return _mk(ctx, "underscore-identifier", "standalone", ed, [{"code": "BAD_IDENTIFIER", "args": [z]}], None, "new-entity", k)


_HEX = "0123456789ABCDEFabcdef"
_NONHEX = [chr(c) for c in range(0x21, 0x7f) if chr(c) not in _HEX and chr(c) not in '"']


def _enc_context(ctx, lit):
    form = ctx.rnd.choice(["derive", "where", "local"])
    if form == "derive":
        return "ENTITY %s;\nDERIVE\n  %s : STRING := %s;\nEND_ENTITY;" % (ctx.name("e"), ctx.name("d"), lit), form
    if form == "where":
        return "TYPE %s = STRING;\nWHERE\n  %s : SELF <> %s;\nEND_TYPE;" % (ctx.name("d"), ctx.name("w"), lit), form
    return ("FUNCTION %s(%s : STRING) : STRING;\n  LOCAL\n    %s : STRING := %s;\n  END_LOCAL;\n  RETURN (%s);\nEND_FUNCTION;"
            % (ctx.name("f"), ctx.name("p"), "zv", lit, "zv")), form


@template("encoded-string-bad-digit", lexical=True)
def t_enc_digit(ctx, insitu):
    sch = ctx.schema()
    n = 8 * ctx.rnd.randrange(1, 4)
    digits = [ctx.rnd.choice(_HEX) for _ in range(n)]
    c = ctx.rnd.choice(_NONHEX)
    digits[ctx.rnd.randrange(n)] = c
    txt, form = _enc_context(ctx, '"%s"' % "".join(digits))
    k, ed = ctx.insert_decl(sch, txt)
    return _mk(ctx, "encoded-string-bad-digit", "standalone", ed, [{"code": "ENCODED_STRING_BAD_DIGIT", "args": [c]}], None, form, k)


@template("encoded-string-bad-count", lexical=True)
def t_enc_count(ctx, insitu):
    sch = ctx.schema()
    n = ctx.rnd.choice([x for x in range(1, 40) if x % 8])
    txt, form = _enc_context(ctx, '"%s"' % "".join(ctx.rnd.choice(_HEX) for _ in range(n)))
    k, ed = ctx.insert_decl(sch, txt)
    return _mk(ctx, "encoded-string-bad-count", "standalone", ed, [{"code": "ENCODED_STRING_BAD_COUNT", "args": [str(n)]}], None, form, k)


def make(template_name, text, rseed, insitu=None, sc=None):
    """Build one mutant.  `rseed` comes from a Hypothesis draw.  Returns Mutant or None (template not applicable)."""
    rnd = random.Random("%s|%s" % (rseed, template_name))
    ctx = Ctx(text, rnd, sc)
    if not ctx.sc.ok:
        return None
    if insitu is None:
        insitu = rnd.random() < 0.5
    m = TEMPLATES[template_name]["fn"](ctx, insitu)
    if m is not None:
        m["prefix"] = ctx.prefix
    return m


# ----------------------------------------------------------------------------------------------------------------
# certainly-ungrammatical edits (C04 class "syntax error")

_NULL_STMT_PREV = {";", "then", "else", "begin", "otherwise", ":"}


def syntax_mutant(text, rseed, sc=None):
    rnd = random.Random("%s|syntax" % rseed)
    sc = sc or scan(text)
    toks = sc.toks
    kinds = ["drop-semicolon", "drop-end-keyword", "double-keyword", "stray-paren", "drop-decl-name", "colon-to-equals",
             "drop-end-schema", "keyword-as-name"]
    rnd.shuffle(kinds)
    for kind in kinds:
        cands = []
        if kind == "drop-semicolon":
            for i, t in enumerate(toks):
                if t.text == ";" and i > 0 and toks[i - 1].low not in _NULL_STMT_PREV and (i + 1 >= len(toks) or toks[i + 1].text != ";"):
                    cands.append((t.start, 1, ""))
        elif kind == "drop-end-keyword":
            for t in toks:
                if t.kind == "kw" and t.low in ("end_entity", "end_type", "end_function", "end_procedure", "end_rule", "end_constant"):
                    cands.append((t.start, len(t.text), ""))
        elif kind == "double-keyword":
            for t in toks:
                if t.kind == "kw" and t.low in ("entity", "type", "schema", "subtype", "supertype", "of", "end_entity", "end_type"):
                    cands.append((t.start, 0, t.text + " "))
        elif kind == "stray-paren":
            for i, t in enumerate(toks):
                if t.text == ";" and i > 0:
                    cands.append((t.start, 0, rnd.choice([")", "(", "]", ","])))
        elif kind == "drop-decl-name":
            for i, t in enumerate(toks[:-1]):
                if t.kind == "kw" and t.low in ("entity", "type", "schema", "function", "procedure", "rule") and toks[i + 1].kind == "id":
                    cands.append((toks[i + 1].start, len(toks[i + 1].text), ""))
        elif kind == "colon-to-equals":
            for d in [e for s in sc.schemas for e in s.entities]:
                for i, t in enumerate(d.toks):
                    if t.text == ":" and d.toks[i - 1].kind == "id" and d.toks[i - 2].text == ";":
                        cands.append((t.start, 1, "="))
        elif kind == "drop-end-schema":
            for s in sc.schemas:
                cands.append((s.end_tok.start, len(s.end_tok.text), ""))
        elif kind == "keyword-as-name":
            for i, t in enumerate(toks[:-1]):
                if t.kind == "kw" and t.low in ("entity", "type") and toks[i + 1].kind == "id":
                    cands.append((toks[i + 1].start, len(toks[i + 1].text), rnd.choice(["ENTITY", "SELECT", "WHERE", "END_TYPE", "OF"])))
        if cands:
            ed = rnd.choice(cands)
            where = "?"
            for s in sc.schemas:
                for d in s.decls:
                    if d.start <= ed[0] <= d.end:
                        where = d.kind
            return Mutant(text=splice(text, [ed]), template="syntax:" + kind, flavour="insitu", expect=[{"code": "SYNTAX", "args": None}],
                          listed="syntax error", decl=where, pos=0)
    return None


# ----------------------------------------------------------------------------------------------------------------
# token / byte level mutants and pathological shapes (C06)

def token_mutant(text, rnd):
    """-> (new_text, kind).  text is str (latin-1 view of the bytes)."""
    toks = tokenize(text)
    if len(toks) < 3:
        return text + ";", "tok-append"
    kind = rnd.choice(["tok-delete", "tok-duplicate", "tok-swap", "tok-kw-to-id", "tok-id-to-kw", "tok-unbalanced-end", "tok-open-remark",
                       "tok-close-remark", "tok-delete-range", "tok-splice-decl", "tok-literal-swap"])
    i = rnd.randrange(len(toks))
    t = toks[i]
    if kind == "tok-delete":
        return text[:t.start] + text[t.end:], kind
    if kind == "tok-duplicate":
        k = rnd.choice([1, 1, 2, 5, 50])
        return text[:t.end] + (" " + t.text) * k + text[t.end:], kind
    if kind == "tok-swap":
        j = rnd.randrange(len(toks))
        a, b = sorted((i, j))
        if a == b:
            return text, kind
        ta, tb = toks[a], toks[b]
        return text[:ta.start] + tb.text + text[ta.end:tb.start] + ta.text + text[tb.end:], kind
    if kind == "tok-kw-to-id":
        ks = [x for x in toks if x.kind == "kw"]
        if not ks:
            return text, kind
        x = rnd.choice(ks)
        return text[:x.start] + rnd.choice(["abc", "x1", "self_", "q"]) + text[x.end:], kind
    if kind == "tok-id-to-kw":
        ks = [x for x in toks if x.kind == "id"]
        if not ks:
            return text, kind
        x = rnd.choice(ks)
        return text[:x.start] + rnd.choice(sorted(KEYWORDS)).upper() + text[x.end:], kind
    if kind == "tok-unbalanced-end":
        kw = rnd.choice(["END_ENTITY;", "END_TYPE;", "END_SCHEMA;", "END_FUNCTION;", "END_IF;", "END_LOCAL;", "END_CASE;", "END_REPEAT;",
                         "ENTITY x;", "FUNCTION f : INTEGER;", "SCHEMA q;", "BEGIN", "END;", "CONSTANT", "LOCAL", "RULE r FOR (x);", "WHERE", "DERIVE",
                         "INVERSE", "UNIQUE", "SUBTYPE OF (", "SUPERTYPE OF (ONEOF("])
        return text[:t.start] + kw + " " + text[t.start:], kind
    if kind == "tok-open-remark":
        return text[:t.start] + "(* " + text[t.start:], kind
    if kind == "tok-close-remark":
        return text[:t.start] + " *) " + text[t.start:], kind
    if kind == "tok-delete-range":
        j = min(len(toks) - 1, i + rnd.randrange(1, 12))
        return text[:t.start] + text[toks[j].end:], kind
    if kind == "tok-splice-decl":
        j = rnd.randrange(len(toks))
        a, b = sorted((i, j))
        b = min(b, a + 40)
        frag = text[toks[a].start:toks[b].end]
        k = rnd.randrange(len(toks))
        return text[:toks[k].start] + frag + " " + text[toks[k].start:], kind
    lits = ["'a''b'", "''", "'", '"00000041"', '"0041"', '"', "%0101", "%", "1.E5", "1.5E", "99999999999999999999", "1.0E400", "1.0E-400",
            "0.0", "?", "\\", "SELF\\a.b", "[1:?]", "[", "{1 < x < 2}", "<*", "||", ":=:", ":<>:", "**", "--x\n", "_a", "a__b", "\x00", "\xff"]
    return text[:t.start] + rnd.choice(lits) + text[t.end:], "tok-literal-swap"


def byte_mutant(data, rnd):
    """data: bytes -> (bytes, kind)"""
    if not data:
        return b"\x00", "byte-nul"
    kind = rnd.choice(["byte-flip", "byte-nul", "byte-high", "byte-truncate", "byte-no-final-newline", "byte-insert-random", "byte-delete",
                       "byte-cr", "byte-repeat-chunk"])
    i = rnd.randrange(len(data))
    b = bytearray(data)
    if kind == "byte-flip":
        for _ in range(rnd.choice([1, 1, 2, 8])):
            j = rnd.randrange(len(b))
            b[j] ^= 1 << rnd.randrange(8)
    elif kind == "byte-nul":
        b[i:i] = b"\x00" * rnd.choice([1, 1, 3])
    elif kind == "byte-high":
        b[i:i] = bytes(rnd.randrange(0x80, 0x100) for _ in range(rnd.choice([1, 2, 4])))
    elif kind == "byte-truncate":
        b = b[:i]
    elif kind == "byte-no-final-newline":
        while b and b[-1:] in (b"\n", b"\r", b" "):
            b = b[:-1]
    elif kind == "byte-insert-random":
        b[i:i] = bytes(rnd.randrange(256) for _ in range(rnd.choice([1, 4, 16])))
    elif kind == "byte-delete":
        del b[i:i + rnd.choice([1, 1, 2, 7, 30])]
    elif kind == "byte-cr":
        b = bytearray(bytes(b).replace(b"\n", b"\r\n"))
    else:
        j = min(len(b), i + rnd.randrange(1, 200))
        b[i:i] = bytes(b[i:j]) * rnd.choice([2, 10])
    return bytes(b), kind


# ----------------------------------------------------------------------------------------------------------------
# reference cycles (C06): declarations that refer to each other in a ring of length 1..3, used where the tools evaluate
# or follow the reference (aggregate bounds, string widths, underlying types, supertypes, interface clauses).  Some rings
# are legal EXPRESS (entities referring to each other, recursive functions), most are not; C06 only asks that the tools
# survive them.

def _ring(rnd, prefix, k):
    return ["%s%d_%d" % (prefix, rnd.randrange(1000), i) for i in range(k)]


def ref_cycle_snippet(rnd):
    """-> (label, declarations to put inside a schema, extra schemas text)"""
    k = rnd.choice([1, 1, 2, 2, 3])
    shape = rnd.choice(["constant", "constant", "constant", "derived", "type-rename", "type-aggregate", "type-select", "function",
                        "entity-attr", "subtype", "interface", "interface", "inverse", "where", "include", "select-direct", "select-direct"])
    extra = ""
    if shape == "constant":
        ns = _ring(rnd, "zc", k)
        wrap = lambda x: rnd.choice(["%s", "%s", "%s", "%s", "%s + 1", "-%s", "%s * 2", "(%s)", "%s DIV 1", "1 + %s"]) % x
        decl = "CONSTANT\n" + "".join("  %s : INTEGER := %s;\n" % (ns[i], wrap(ns[(i + 1) % k])) for i in range(k)) + "END_CONSTANT;\n"
        c = rnd.choice(ns)
        uses = ["TYPE zt%d = LIST [1:%s] OF INTEGER;\nEND_TYPE;\n" % (rnd.randrange(1000), c),
                "TYPE zt%d = ARRAY [%s:%s] OF REAL;\nEND_TYPE;\n" % (rnd.randrange(1000), c, rnd.choice(ns)),
                "TYPE zt%d = STRING(%s);\nEND_TYPE;\n" % (rnd.randrange(1000), c),
                "TYPE zt%d = SET [0:%s * 2] OF BINARY(%s);\nEND_TYPE;\n" % (rnd.randrange(1000), c, c),
                "ENTITY ze%d;\n  a : BAG [%s:?] OF LIST [0:%s] OF INTEGER;\n  s : STRING(%s) FIXED;\nEND_ENTITY;\n" % (rnd.randrange(1000), c, c, c),
                "ENTITY ze%d;\n  a : INTEGER;\nWHERE\n  w : a < %s;\nEND_ENTITY;\n" % (rnd.randrange(1000), c),
                "TYPE zt%d = INTEGER;\nWHERE\n  w : SELF > %s;\nEND_TYPE;\n" % (rnd.randrange(1000), c)]
        decl += "".join(rnd.sample(uses, rnd.choice([1, 2, 3])))
    elif shape == "derived":
        ns = _ring(rnd, "zd", k)
        e = "ze%d" % rnd.randrange(1000)
        use = rnd.choice(["  a : ARRAY [1:SELF\\%s.%s] OF INTEGER;\n" % (e, ns[0]), "  a : LIST [1:%s] OF INTEGER;\n" % ns[0], "  a : STRING(%s);\n" % ns[0], ""])
        decl = "ENTITY %s;\n%sDERIVE\n" % (e, use) + "".join("  %s : INTEGER := %s;\n" % (ns[i], rnd.choice(["%s", "%s + 1", "SELF.%s"]) % ns[(i + 1) % k]) for i in range(k)) + "END_ENTITY;\n"
    elif shape == "type-rename":
        ns = _ring(rnd, "zt", k)
        decl = "".join("TYPE %s = %s;\nEND_TYPE;\n" % (ns[i], ns[(i + 1) % k]) for i in range(k))
        if rnd.random() < 0.6:
            decl += "ENTITY ze%d;\n  a : %s;\n  b : LIST OF %s;\nEND_ENTITY;\n" % (rnd.randrange(1000), ns[0], ns[-1])
    elif shape == "type-aggregate":
        ns = _ring(rnd, "zt", k)
        aggs = ["LIST OF %s", "SET [1:?] OF %s", "ARRAY [1:2] OF OPTIONAL %s", "BAG OF LIST OF %s", "LIST [0:3] OF UNIQUE %s"]
        decl = "".join("TYPE %s = %s;\nEND_TYPE;\n" % (ns[i], rnd.choice(aggs) % ns[(i + 1) % k]) for i in range(k))
        if rnd.random() < 0.6:
            decl += "ENTITY ze%d;\n  a : %s;\nEND_ENTITY;\n" % (rnd.randrange(1000), ns[0])
    elif shape == "type-select":
        ns = _ring(rnd, "zt", k)
        lst = "zl%d" % rnd.randrange(1000)
        decl = "".join("TYPE %s = SELECT (%s%s);\nEND_TYPE;\n" % (ns[i], ns[(i + 1) % k] if i else lst, rnd.choice(["", ", " + ns[0]])) for i in range(k))
        decl += "TYPE %s = %s %s;\nEND_TYPE;\n" % (lst, rnd.choice(["LIST OF", "SET OF", "ARRAY [1:2] OF"]), ns[-1] if k > 1 else ns[0])
    elif shape == "select-direct":
        # selects that list each other directly (an illegal ring, the checker reports it) and further selects that reach the ring
        # from outside; the names vary so that the order in which the types are visited varies
        stems = ["choice", "top", "aa", "pick", "z0", "x", "outer", "k", "m", "w", "a", "b", "sel", "q9"]
        k2 = max(k, 1)
        ns = []
        while len(ns) < k2 + 2:
            n = rnd.choice(stems) + rnd.choice(["", "_r", "1", "_t"]) + str(rnd.randrange(1000))
            if n not in ns:
                ns.append(n)
        ring, outer = ns[:k2], ns[k2:]
        filler = "ze%d" % rnd.randrange(1000)
        decl = "ENTITY %s;\nEND_ENTITY;\n" % filler
        parts = ["TYPE %s = SELECT (%s%s);\nEND_TYPE;\n" % (ring[i], ring[(i + 1) % k2], rnd.choice(["", ", " + filler])) for i in range(k2)]
        parts += ["TYPE %s = SELECT (%s%s);\nEND_TYPE;\n" % (o, rnd.choice(ring), rnd.choice(["", ", " + filler])) for o in outer[:rnd.choice([1, 2])]]
        rnd.shuffle(parts)
        decl += "".join(parts)
        if rnd.random() < 0.5:
            decl += "ENTITY ze%d;\n  a : %s;\nEND_ENTITY;\n" % (rnd.randrange(1000), rnd.choice(outer[:1] + ring))
    elif shape == "function":
        ns = _ring(rnd, "zf", k)
        par = rnd.choice(["", "(x : INTEGER)"])
        arg = "(1)" if par else ""
        decl = "".join("FUNCTION %s%s : INTEGER;\n  RETURN (%s%s);\nEND_FUNCTION;\n" % (ns[i], par, ns[(i + 1) % k], arg) for i in range(k))
        decl += rnd.choice(["TYPE zt%d = LIST [1:%s%s] OF INTEGER;\nEND_TYPE;\n" % (rnd.randrange(1000), ns[0], arg),
                            "CONSTANT\n  zc%d : INTEGER := %s%s;\nEND_CONSTANT;\n" % (rnd.randrange(1000), ns[0], arg),
                            "ENTITY ze%d;\nDERIVE\n  d : INTEGER := %s%s;\nEND_ENTITY;\n" % (rnd.randrange(1000), ns[0], arg)])
    elif shape == "entity-attr":
        ns = _ring(rnd, "ze", k)
        decl = "".join("ENTITY %s;\n  r : %s %s;\nEND_ENTITY;\n" % (ns[i], rnd.choice(["", "OPTIONAL", "LIST [1:?] OF", "SET OF"]), ns[(i + 1) % k]) for i in range(k))
    elif shape == "subtype":
        ns = _ring(rnd, "ze", max(k, 1))
        k2 = len(ns)
        sat = "ze%d" % rnd.randrange(1000)
        decl = "".join("ENTITY %s SUBTYPE OF (%s);\n  a%d : INTEGER;\nEND_ENTITY;\n" % (ns[i], ns[(i + 1) % k2], i) for i in range(k2))
        decl += "ENTITY %s SUBTYPE OF (%s);\n  b : REAL;\nDERIVE\n  d : INTEGER := a0;\nEND_ENTITY;\n" % (sat, ", ".join(rnd.sample(ns, rnd.choice([1, min(2, k2)]))))
    elif shape == "include":
        # INCLUDE of existing files: the file itself (C06 substitutes the path), once or several times in a row
        n = rnd.choice([1, 2, 5, 6, 7, 12])
        decl = "".join("INCLUDE '@@SELF@@';\n" for _ in range(n))
    elif shape == "interface":
        ns = _ring(rnd, "zs", max(k, 2))
        k2 = len(ns)
        kw = rnd.choice(["USE FROM", "REFERENCE FROM"])
        if rnd.random() < 0.4:
            # ... plus a schema that asks one member of the ring for an item none of them has
            extra_bad = "SCHEMA zq%d;\n%s %s (zz_no_such_item);\nEND_SCHEMA;\n" % (rnd.randrange(1000), rnd.choice(["USE FROM", "REFERENCE FROM"]), ns[0])
        else:
            extra_bad = ""
        extra = "".join("SCHEMA %s;\n%s %s%s;\nENTITY e%d;\nEND_ENTITY;\nEND_SCHEMA;\n" %
                        (ns[i], kw, ns[(i + 1) % k2], rnd.choice(["", " (e%d)" % ((i + 1) % k2), " (e%d AS e%d)" % ((i + 1) % k2, i)]), i) for i in range(k2)) + extra_bad
        decl = "%s %s;\n" % (kw, ns[0])
    elif shape == "inverse":
        ns = _ring(rnd, "ze", max(k, 2))
        k2 = len(ns)
        decl = "".join("ENTITY %s;\n  r : %s;\nINVERSE\n  i : SET OF %s FOR %s;\nEND_ENTITY;\n" % (ns[i], ns[(i + 1) % k2], ns[(i + 1) % k2], rnd.choice(["r", "i"])) for i in range(k2))
    else:
        t = "zt%d" % rnd.randrange(1000)
        decl = "TYPE %s = INTEGER;\nWHERE\n  w : %s;\nEND_TYPE;\n" % (t, rnd.choice(["SELF IN [%s]" % t, "SIZEOF(QUERY(x <* [SELF] | x > SELF)) = %s" % t,
                                                                                       "'%s' IN TYPEOF(SELF)" % t.upper(), "%s(SELF) > 0" % t]))
    return "%s/%d" % (shape, k), decl, extra


def ref_cycle(text, rnd):
    """text: a (valid) EXPRESS file or "" -> (new text, kind): a reference ring spliced into the last schema of text, or alone"""
    label, decl, extra = ref_cycle_snippet(rnd)
    low = text.lower()
    at = low.rfind("end_schema")
    if at < 0 or rnd.random() < 0.25:
        name = "zs%d" % rnd.randrange(1000)
        if label.startswith("interface"):
            return "%sSCHEMA %s;\n%sEND_SCHEMA;\n" % (extra, name, decl), "ref-cycle:" + label + ":alone"
        return "SCHEMA %s;\n%sEND_SCHEMA;\n%s" % (name, decl, extra), "ref-cycle:" + label + ":alone"
    if label.startswith("interface"):
        # interface clauses come first in a schema body
        m = re.search(r"(?is)\bschema\s+\w+\s*;", text)
        if m:
            return text[:m.end()] + "\n" + decl + text[m.end():] + "\n" + extra, "ref-cycle:" + label
    return text[:at] + decl + text[at:] + extra, "ref-cycle:" + label


def _wrap(body, name="zs"):
    return "SCHEMA %s;\n%s\nEND_SCHEMA;\n" % (name, body)


def _shape_tail_remark(n):
    return _wrap("ENTITY e;\n  a : INTEGER; --" + "r" * n + "\nEND_ENTITY;")


def _shape_line_remark(n):
    return _wrap("--" + "r" * n + "\nENTITY e;\n  a : INTEGER;\nEND_ENTITY;")


def _shape_embedded_remark(n):
    return _wrap("(*" + "r" * n + "*)\nENTITY e;\n  a : INTEGER;\nEND_ENTITY;")


def _shape_nested_remark(n):
    return _wrap("(* " * n + "x" + " *)" * n + "\nENTITY e;\n  a : INTEGER;\nEND_ENTITY;")


def _shape_string(n):
    return _wrap("ENTITY e;\nDERIVE\n  a : STRING := '" + "s" * n + "';\nEND_ENTITY;")


def _shape_encoded(n):
    return _wrap("ENTITY e;\nDERIVE\n  a : STRING := \"" + "0000004A" * max(1, n // 8) + "\";\nEND_ENTITY;")


def _shape_binary(n):
    return _wrap("ENTITY e;\nDERIVE\n  a : BINARY := %" + "01" * max(1, n // 2) + ";\nEND_ENTITY;")


def _shape_integer(n):
    return _wrap("ENTITY e;\nDERIVE\n  a : INTEGER := " + "9" * n + ";\nEND_ENTITY;")


def _shape_real(n):
    return _wrap("ENTITY e;\nDERIVE\n  a : REAL := 1." + "3" * n + "E5;\nEND_ENTITY;")


def _shape_identifier(n):
    return _wrap("ENTITY e" + "x" * n + ";\n  a" + "y" * n + " : INTEGER;\nEND_ENTITY;")


def _shape_identifier_in_interface(n):
    kw = ["USE FROM", "REFERENCE FROM"][n % 2]
    item = ["", " (x)", " (x AS y)"][n % 3]
    return "SCHEMA zs;\n%s s%s%s;\nENTITY e;\nEND_ENTITY;\nEND_SCHEMA;\n" % (kw, "x" * n, item)


def _shape_nested_functions(n):
    head = "".join("FUNCTION f%d(a : INTEGER) : INTEGER;\n" % i for i in range(n))
    tail = "".join("  RETURN (a);\nEND_FUNCTION;\n" for _ in range(n))
    return _wrap(head + tail)


def _shape_nested_parens(n):
    return _wrap("ENTITY e;\nDERIVE\n  a : INTEGER := " + "(" * n + "1" + ")" * n + ";\nEND_ENTITY;")


def _shape_nested_aggregate_init(n):
    return _wrap("ENTITY e;\nDERIVE\n  a : LIST OF GENERIC := " + "[" * n + "1" + "]" * n + ";\nEND_ENTITY;")


def _shape_nested_aggregate_type(n):
    return _wrap("ENTITY e;\n  a : " + "LIST OF " * n + "INTEGER;\nEND_ENTITY;")


def _shape_nested_if(n):
    return _wrap("FUNCTION f(a : INTEGER) : INTEGER;\n" + "IF a > 0 THEN\n" * n + "RETURN (1);\n" + "END_IF;\n" * n + "RETURN (0);\nEND_FUNCTION;")


def _shape_nested_query(n):
    expr = "a"
    for i in range(n):
        expr = "QUERY(q%d <* %s | TRUE)" % (i, expr)
    return _wrap("ENTITY e;\n  a : LIST OF INTEGER;\nWHERE\n  w : SIZEOF(%s) > 0;\nEND_ENTITY;" % expr)


def _shape_oneof(n):
    subs = "".join("ENTITY s%d SUBTYPE OF (e);\nEND_ENTITY;\n" % i for i in range(n))
    return _wrap("ENTITY e SUPERTYPE OF (ONEOF(" + ", ".join("s%d" % i for i in range(n)) + "));\nEND_ENTITY;\n" + subs)


def _shape_many_attrs(n):
    return _wrap("ENTITY e;\n" + "".join("  a%d : INTEGER;\n" % i for i in range(n)) + "END_ENTITY;")


def _shape_many_where(n):
    return _wrap("ENTITY e;\n  a : INTEGER;\nWHERE\n" + "".join("  w%d : a > %d;\n" % (i, i) for i in range(n)) + "END_ENTITY;")


def _shape_long_expression(n):
    return _wrap("ENTITY e;\nDERIVE\n  a : INTEGER := " + " + ".join(["1"] * max(1, n)) + ";\nEND_ENTITY;")


def _shape_enum_items(n):
    return _wrap("TYPE t = ENUMERATION OF (" + ", ".join("i%d" % i for i in range(max(1, n))) + ");\nEND_TYPE;")


def _shape_select_items(n):
    ents = "".join("ENTITY s%d;\nEND_ENTITY;\n" % i for i in range(max(1, n)))
    return _wrap(ents + "TYPE t = SELECT (" + ", ".join("s%d" % i for i in range(max(1, n))) + ");\nEND_TYPE;")


def _shape_supertype_chain(n):
    return _wrap("ENTITY s0;\nEND_ENTITY;\n" + "".join("ENTITY s%d SUBTYPE OF (s%d);\nEND_ENTITY;\n" % (i, i - 1) for i in range(1, n + 1)))


def _shape_many_schemas(n):
    return "".join("SCHEMA z%d;\nENTITY e;\nEND_ENTITY;\nEND_SCHEMA;\n" % i for i in range(max(1, n)))


def _shape_nested_remark_unclosed(n):
    return _wrap("ENTITY e;\nEND_ENTITY;\n" + "(* " * n)


def _shape_label_where_type(n):
    return _wrap("TYPE t = STRING(" + "9" * min(n, 9) + ") FIXED;\nEND_TYPE;\nTYPE u = ARRAY [1:" + "9" * min(n, 9) + "] OF INTEGER;\nEND_TYPE;")


STRETCH = {
    "tail-remark": (_shape_tail_remark, 100000), "line-remark": (_shape_line_remark, 100000),
    "embedded-remark": (_shape_embedded_remark, 100000), "nested-remark": (_shape_nested_remark, 200),
    "string-literal": (_shape_string, 100000), "encoded-string-literal": (_shape_encoded, 100000),
    "binary-literal": (_shape_binary, 100000), "integer-literal": (_shape_integer, 100000), "real-literal": (_shape_real, 100000),
    "identifier": (_shape_identifier, 100000), "identifier-in-interface-clause": (_shape_identifier_in_interface, 100000),
    "nested-functions": (_shape_nested_functions, 200),
    "nested-parentheses": (_shape_nested_parens, 10000), "nested-aggregate-initialiser": (_shape_nested_aggregate_init, 10000),
    "nested-aggregate-type": (_shape_nested_aggregate_type, 1000), "nested-if": (_shape_nested_if, 1000),
    "nested-query": (_shape_nested_query, 200), "oneof-list": (_shape_oneof, 5000), "attributes": (_shape_many_attrs, 10000),
    "where-rules": (_shape_many_where, 1000), "long-expression": (_shape_long_expression, 10000),
    "enumeration-items": (_shape_enum_items, 10000), "select-items": (_shape_select_items, 3000),
    "supertype-chain": (_shape_supertype_chain, 1000), "schemas": (_shape_many_schemas, 1000),
    "unclosed-nested-remark": (_shape_nested_remark_unclosed, 200),
}


def stretch(name, n):
    return STRETCH[name][0](n)
