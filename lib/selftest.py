"""Self-test of the verification machinery itself (not of stepcode): render(parse) on generated populations."""
import sys
from hypothesis import given, settings, seed, HealthCheck, strategies as st
import expgen, exprender, p21gen, p21render, p21parse, farm

schemas = farm.draw_schemas(12345, 12, {})
n = [0]
for sd in schemas:
    exprender.schema(sd)

    @seed(777)
    @settings(max_examples=25, database=None, deadline=None, suppress_health_check=list(HealthCheck))
    @given(p21gen.populations(sd, {}), st.integers(0, 10**6))
    def t(pop, layout):
        pop.pop("excluded", None)
        text = p21render.render(pop, layout)
        parsed = p21parse.parse(text)
        probs = p21gen.cmp_population(pop, parsed)
        assert not probs, probs
        n[0] += 1
    t()
for bad in ["ISO-10303-21;\nHEADER;\nENDSEC;\nDATA;\nENDSEC;\nEND-ISO-10303-21;\n",
            "ISO-10303-21;\nHEADER;\nFILE_DESCRIPTION((''),'2;1');\nFILE_NAME('','',(''),(''),'','','');\nFILE_SCHEMA(('S'));\nENDSEC;\nDATA;\n#1=a(1);\nENDSEC;\nEND-ISO-10303-21;\n",
            "ISO-10303-21;\nHEADER;\nFILE_DESCRIPTION((''),'2;1');\nFILE_NAME('','',(''),(''),'','','');\nFILE_SCHEMA(('S'));\nENDSEC;\nDATA;\n#1=A(1.e5);\nENDSEC;\nEND-ISO-10303-21;\n",
            "ISO-10303-21;\nHEADER;\nFILE_DESCRIPTION((''),'2;1');\nFILE_NAME('','',(''),(''),'','','');\nFILE_SCHEMA(('S'));\nENDSEC;\nDATA;\n#1=A('a'b');\nENDSEC;\nEND-ISO-10303-21;\n"]:
    try:
        p21parse.parse(bad)
    except p21parse.P21SyntaxError:
        continue
    print("selftest: parser accepted an invalid file")
    sys.exit(1)
print("selftest ok: %d render/parse round trips" % n[0])
