"""C07 oracle: run the pretty printer, check valid / equivalent / stable; classify failures by root-cause signature.
Shared by lib/checks/c07.py (check + replay) and the self-test."""
import os
import re
import shutil

import build
import common
import exptok
import expparse
from expparse import Expr, Unparsed

# ------------------------------------------------------------------------------------------------------------
# running the tools


def opt_args(opts):
    a = []
    if opts.get("l") is not None:
        a += ["-l", str(opts["l"])]
    if opts.get("t"):
        a.append("-t")
    if opts.get("c"):
        a.append("-c")
    return a


def opt_name(opts):
    return "l%s%s%s" % (opts.get("l") if opts.get("l") is not None else "dflt", "t" if opts.get("t") else "", "c" if opts.get("c") else "")


def line_length(opts):
    return opts.get("l") if opts.get("l") is not None else 130     # exppp_linelength default


def crash_frames(cmd, cwd):
    """top frames of a crashing run (root-cause signature of a crash)"""
    rc, out, err, _ = common.run(["gdb", "-batch", "-ex", "run", "-ex", "bt 4", "--args"] + cmd, cwd=cwd, timeout=60)
    fr = re.findall(r"^#\d+\s+(?:0x[0-9a-f]+ in )?([A-Za-z_][A-Za-z_0-9]*) \(", out, re.M)
    fr = [f for f in fr if not f.startswith("__") and f not in ("raise", "abort", "gsignal")]
    return "<-".join(fr[:2]) if fr else "?"


def run_exppp(variant, src, outdir, opts, schema_names, single_o=None):
    """Pretty print `src`.  One schema: `exppp <opts> -o outdir/p.exp src`; several schemas: exppp writes <schema>.exp
    files into the working directory, which are concatenated in the order of schema_names.
    single_o=True forces -o even for several schemas (probe).  Returns dict(ok, text|None, stage, detail, cmd)."""
    shutil.rmtree(outdir, ignore_errors=True)
    os.makedirs(outdir)
    exe = build.tool(variant, "exppp")
    use_o = (len(schema_names) == 1) if single_o is None else single_o
    cmd = [exe] + opt_args(opts) + (["-o", "p.exp"] if use_o else []) + [src]
    rc, out, err, _ = common.run(cmd, cwd=outdir, timeout=120)
    res = {"cmd": " ".join(cmd), "ok": False, "text": None}
    if rc is None:
        res.update(stage="exppp", sig="exppp-timeout", detail="exppp did not finish in 120 s")
        return res
    if rc != 0:
        if rc < 0 or rc in (134, 139):
            fr = crash_frames(cmd, outdir)
            res.update(stage="exppp", sig="exppp-crash:" + fr, detail="exppp died (rc=%s) in %s; stderr: %s" % (rc, fr, err[-300:]))
        else:
            res.update(stage="exppp", sig="exppp-exit-%s" % rc, detail="exppp exit status %s on an accepted schema: %s" % (rc, (out + err)[-400:]))
        return res
    texts = []
    if use_o:
        p = os.path.join(outdir, "p.exp")
        if not os.path.exists(p):
            res.update(stage="exppp", sig="exppp-no-output", detail="exppp exit 0 but wrote no output file")
            return res
        texts.append(open(p, encoding="latin-1").read())
    else:
        for s in schema_names:
            p = os.path.join(outdir, s + ".exp")
            if not os.path.exists(p):
                res.update(stage="exppp", sig="exppp-schema-file-missing", detail="exppp wrote no file for schema %s (files: %s)" % (s, sorted(os.listdir(outdir))))
                return res
            texts.append(open(p, encoding="latin-1").read())
    res["ok"] = True
    res["text"] = "\n".join(texts)
    return res


def check_express(variant, path, cwd):
    rc, out, err, _ = common.run([build.tool(variant, "check-express"), path], cwd=cwd, timeout=300)
    return rc, (out + err)


# ------------------------------------------------------------------------------------------------------------
# (3) stability: token level

def stable_tokens(text):
    """Token list for the stability comparison: remarks dropped, case folded; the only normalisation (DESIGN C07 (3)):
    a run  'a' + 'b' (+ 'c')...  of simple string literals is merged into one literal, and a parenthesis pair that
    directly encloses nothing but such a literal/run is dropped.  No other parentheses are touched."""
    toks = [(k, t) for k, t, _ in exptok.tokenize(text)]
    changed = True
    while changed:
        changed = False
        out = []
        i, n = 0, len(toks)
        while i < n:
            k, t = toks[i]
            if k == "str":
                j = i
                val = t
                while j + 2 < n and toks[j + 1] == ("sym", "+") and toks[j + 2][0] == "str":
                    val += toks[j + 2][1]
                    j += 2
                if j != i:
                    changed = True
                # ( 'literal' )  ->  'literal'   but not  f( 'literal' )
                if out and out[-1] == ("sym", "(") and j + 1 < n and toks[j + 1] == ("sym", ")") and \
                        not (len(out) >= 2 and out[-2][0] in ("id", "kw") and not _is_operator_word(out[-2])):
                    out.pop()
                    out.append(("str", val))
                    i = j + 2
                    changed = True
                    continue
                out.append(("str", val))
                i = j + 1
                continue
            out.append((k, t))
            i += 1
        toks = out
    return toks


def _is_operator_word(tok):
    """reserved words after which '(' opens a parenthesised expression, not an argument list"""
    return tok[0] == "kw" and tok[1] in ("AND", "OR", "XOR", "NOT", "DIV", "MOD", "IN", "LIKE", "IF", "THEN", "ELSE", "CASE", "OF", "WHILE",
                                         "UNTIL", "TO", "BY", "RETURN", "WHERE", "BEGIN", "REPEAT", "OTHERWISE", "END_IF", "END_CASE",
                                         "END_REPEAT", "END", "END_ALIAS", "END_LOCAL", "DERIVE", "ANDOR", "ONEOF", "SUPERTYPE", "SUBTYPE")


def first_token_diff(a, b):
    n = min(len(a), len(b))
    for i in range(n):
        if a[i] != b[i]:
            return i
    return n if len(a) != len(b) else None


def show_toks(toks, i, w=6):
    return " ".join(exptok.show(t) for t in toks[max(0, i - w):i + w])


# ------------------------------------------------------------------------------------------------------------
# (2) equivalence: declaration maps

def walk_exprs(x, f):
    if isinstance(x, Expr):
        f(x)
    elif isinstance(x, dict):
        for k in sorted(x):
            walk_exprs(x[k], f)
    elif isinstance(x, (list, tuple)):
        for y in x:
            walk_exprs(y, f)


def _flatten_all(e):
    """AST with every same-operator grouping erased (used only to *recognise* a pure regrouping)"""
    if not isinstance(e, tuple):
        return e
    if e[0] == "str":
        return ("str", e[1])            # without the piece list
    if e[0] == "op":
        ops = []

        def rec(x):
            if isinstance(x, tuple) and x[0] == "op" and x[1] == e[1]:
                rec(x[2])
                rec(x[3])
            else:
                ops.append(_flatten_all(x))
        rec(e)
        return ("chain", e[1], tuple(ops))
    return tuple(_flatten_all(x) if isinstance(x, tuple) else ([_flatten_all(y) for y in x] if isinstance(x, list) else x) for x in e)


def ast_first_diff(a, b):
    """first pair of differing nodes in preorder"""
    if a == b:
        return None
    if not (isinstance(a, tuple) and isinstance(b, tuple)) or a[0] != b[0] or len(a) != len(b):
        return (a, b)
    if a[0] in ("int", "real", "str", "estr", "bin", "log", "const", "id"):
        if a[0] == "str" and a[1] == b[1]:
            return None
        return (a, b)
    if a[0] == "op":
        if a[1] != b[1]:
            return (a, b)
        # a pure regrouping of one operator shows at the node whose operands no longer pair up
        if _flatten_all(a) == _flatten_all(b) and _flatten_all(a[2]) != _flatten_all(b[2]):
            return (a, b)
    for x, y in zip(a[1:], b[1:]):
        if isinstance(x, list) and isinstance(y, list):
            if len(x) != len(y):
                return (a, b)
            for p, q in zip(x, y):
                if isinstance(p, tuple) and isinstance(q, tuple) and len(p) == 2 and a[0] == "agg":
                    d = ast_first_diff(p[0], q[0])
                    if d:
                        return d
                    if p[1] != q[1]:
                        return (a, b)       # the repetition differs: a property of the initialiser
                else:
                    d = ast_first_diff(p, q)
                    if d:
                        return d
        elif isinstance(x, tuple) and isinstance(y, tuple):
            d = ast_first_diff(x, y)
            if d:
                return d
        elif x != y:
            return (a, b)
    return None


def classify_expr_diff(sa, pa):
    """root-cause signature of a difference between two expression ASTs (source, printed)"""
    d = ast_first_diff(sa, pa)
    if d is None:
        return "expr:pieces"
    a, b = d
    ka = a[0] if isinstance(a, tuple) else "?"
    kb = b[0] if isinstance(b, tuple) else "?"
    if ka == "real" and kb == "int":
        if float(a[1]) == b[1]:
            return "real-literal-printed-as-integer" + ("-zero" if b[1] == 0 else "")
        return "real-literal-value-changed"
    if ka == "real" and kb == "real":
        return "real-literal-value-changed"
    if a == ("const", "CONST_E") and b == ("id", "e"):
        return "const_e-printed-as-e"
    if ka == "op" and kb == "op" and _flatten_all(a) == _flatten_all(b):
        return "parentheses-dropped-regrouping:" + a[1]
    if ka == "agg" and kb == "agg":
        return "aggregate-initialiser-repetition"
    if ka == "str" and kb == "str":
        return "string-literal-changed"
    if ka == "call" and kb == "call" and a[1] == b[1] and (a[2] is None or b[2] is None):
        return "call-empty-parameter-list"
    if ka == "id" and kb == "call" and a[1] == b[1] and not b[2]:
        return "call-empty-parameter-list"
    if ka == "op" and kb == "op":
        return "expr-op:%s->%s" % (a[1], b[1])
    return "expr:%s->%s" % (ka, kb)


class Diff:
    def __init__(self, key, path, a, b, sig):
        self.key, self.path, self.a, self.b, self.sig = key, path, a, b, sig

    def __str__(self):
        scope, kind, name = self.key
        where = "/".join("%s %s" % s for s in scope) + " / %s %s" % (kind, name if not isinstance(name, tuple) else list(name))
        return "[%s] %s: %s\n   source : %s\n   printed: %s" % (self.sig, where, self.path, _short(self.a), _short(self.b))


def _short(x, n=400):
    s = x if isinstance(x, str) else repr(x)
    return s if len(s) <= n else s[:n] + " ..."


def _pieces_refine(src, prt):
    """every source literal is the concatenation of a run of printed pieces: the piece boundaries of the source are
    boundaries of the printed text too (the printer only *split*, it never joined two source literals)"""
    if len(src) != len(prt):
        return False
    for s, p in zip(src, prt):
        def cuts(pieces):
            out, n = set(), 0
            for x in pieces:
                n += len(x)
                out.add(n)
            return out, n
        cs, ns = cuts(s)
        cp, np_ = cuts(p)
        if ns != np_ or not cs <= cp:
            return False
    return True


def _cmp(key, path, a, b, out, mode):
    """structural comparison of two canonical values; appends Diff objects"""
    if isinstance(a, Expr) or isinstance(b, Expr):
        if not (isinstance(a, Expr) and isinstance(b, Expr)):
            out.append(Diff(key, path, a, b, "expr-presence"))
        elif str(a) != str(b):
            out.append(Diff(key, path, str(a), str(b), classify_expr_diff(getattr(a, "ast", None), getattr(b, "ast", None))))
        elif mode == "source-vs-printed" and not _pieces_refine(a.pieces, b.pieces):
            out.append(Diff(key, path, repr(a.pieces), repr(b.pieces), "string-literal-merged-not-split"))
        return
    if isinstance(a, dict) and isinstance(b, dict):
        for k in sorted(set(a) | set(b)):
            if k not in a or k not in b:
                out.append(Diff(key, path + "." + k, a.get(k), b.get(k), "clause-presence:" + k))
            else:
                _cmp(key, path + "." + k, a[k], b[k], out, mode)
        return
    if isinstance(a, (list, tuple)) and isinstance(b, (list, tuple)):
        if len(a) != len(b):
            out.append(Diff(key, path, a, b, _list_sig(path, a, b)))
            return
        for i, (x, y) in enumerate(zip(a, b)):
            _cmp(key, "%s[%d]" % (path, i), x, y, out, mode)
        return
    if a != b:
        out.append(Diff(key, path, a, b, _scalar_sig(path, a, b)))


def _list_sig(path, a, b):
    # case statement: ('case', sel, actions, otherwise): actions are at index 2
    if re.search(r"\[2\]$", path) and _looks_like_case_actions(a) and _looks_like_case_actions(b):
        fa = [(l, st) for labels, st in a for l in labels]
        fb = [(l, st) for labels, st in b for l in labels]
        if len(fa) == len(fb) and all(str(x[0]) == str(y[0]) and _same(x[1], y[1]) for x, y in zip(fa, fb)):
            return "case-labels-split-into-actions"
    return "list-length:" + _path_kind(path)


def _looks_like_case_actions(x):
    return isinstance(x, list) and all(isinstance(y, tuple) and len(y) == 2 and isinstance(y[0], tuple) for y in x)


def _same(a, b):
    o = []
    _cmp(None, "", a, b, o, "printed-vs-printed")
    return not o


def _path_kind(path):
    return re.sub(r"\[\d+\]", "[]", path)


def _scalar_sig(path, a, b):
    pk = _path_kind(path)
    if a is None and b == [] or a == [] and b is None:
        return "call-empty-parameter-list"
    if pk.endswith("supertype_of") and isinstance(a, str) and isinstance(b, str):
        strip = lambda x: x.replace("(", "").replace(")", "")
        if strip(a.replace("ONEOF(", "ONEOF<")) == strip(b.replace("ONEOF(", "ONEOF<")):
            # same operands in the same order, grouped differently.  Find the operators of the innermost group that changed:
            # one operator only -> the printer dropped parentheses around the same operator (a AND (b AND c));
            # AND mixed with ANDOR -> their relative precedence
            ops = set(re.findall(r"\b(ANDOR|AND)\b", _changed_group(a, b))) | set(re.findall(r"\b(ANDOR|AND)\b", _changed_group(b, a)))
            if len(ops) == 1:
                return "parentheses-dropped-regrouping:" + ops.pop()
            return "supertype-expression-regrouped"
    if isinstance(a, str) and isinstance(b, str) and pk.endswith("[]") and ("attrs" in pk or "locals" in pk or "params" in pk or "under" in pk
                                                                            or "derive" in pk or "ret" in pk or "type" in pk or "inverse" in pk):
        return "type-reference-changed"
    return "value:" + pk


def _changed_group(a, b):
    """smallest parenthesised group of a (canonical supertype expression) that does not occur in b"""
    best = a
    stack = []
    for i, ch in enumerate(a):
        if ch == "(":
            stack.append(i)
        elif ch == ")" and stack:
            j = stack.pop()
            g = a[j:i + 1]
            if not a[max(0, j - 5):j].endswith("ONEOF") and g not in b and len(g) < len(best):
                best = g
    return best


def compare_decls(sd, pd, mode="source-vs-printed", robust=False):
    """sd, pd: expparse.Decls.  Two sided: nothing dropped, nothing added.  Returns (diffs, n_compared, n_skipped)."""
    out = []
    skipped = set(sd.skipped) | set(pd.skipped)
    if skipped and not robust:
        for k in sorted(skipped, key=repr):
            out.append(Diff(k, "", sd.skipped.get(k), pd.skipped.get(k), "unparsed"))
    skip_prefix = [k[0] + ((k[1], k[2]),) for k in skipped if k[1] in ("function", "procedure", "rule")]
    const_scopes = set(k[0] for k in skipped if k[1] == "constant")

    def is_skipped(k):
        if k in skipped:
            return True
        if k[1] == "constant" and k[0] in const_scopes:
            return True
        return any(k[0][:len(p)] == p for p in skip_prefix)
    ncmp = nskip = 0
    for k in sorted(set(sd.decls) | set(pd.decls), key=repr):
        if is_skipped(k):
            nskip += 1
            continue
        if k not in pd.decls:
            out.append(Diff(k, "", "declared", "MISSING from the printed text", "declaration-dropped:" + k[1]))
            continue
        if k not in sd.decls:
            out.append(Diff(k, "", "not declared", "ADDED by the printer", "declaration-added:" + k[1]))
            continue
        ncmp += 1
        _cmp(k, k[1], sd.decls[k], pd.decls[k], out, mode)
    return out, ncmp, nskip + len(skipped)


# ------------------------------------------------------------------------------------------------------------
# classification of a rejected P1

def classify_rejected(p1, msg, s_decls):
    """root-cause signature for 'check-express rejects the printer's output'"""
    m = re.search(r":(\d+): --ERROR", msg)
    line = ""
    if m:
        ls = p1.split("\n")
        ln = int(m.group(1))
        line = "\n".join(ls[max(0, ln - 2):ln + 1])
    if "<unnamed>" in line or ("<unnamed>" in p1 and not line):
        return "unlabelled-rule-printed-as-<unnamed>"
    if "%(null)" in line:
        return "binary-literal-printed-as-(null)"
    if "ALIAS (null)" in line or re.search(r"ALIAS \S+ for", line):
        return "alias-statement-garbled"
    if re.search(r"Reference to undefined object e\.", msg) and re.search(r"(^|[^A-Za-z0-9_'])E([^A-Za-z0-9_']|$)", p1):
        return "const_e-printed-as-e"
    if s_decls is not None:
        quoted = []

        def f(e):
            def rec(a):
                if isinstance(a, tuple):
                    if a[0] == "str":
                        if "'" in a[1]:
                            quoted.append(a[1])
                        return
                    for x in a[1:]:
                        rec(x)
                elif isinstance(a, list):
                    for x in a:
                        rec(x)
            rec(getattr(e, "ast", None))
        walk_exprs(s_decls.decls, f)
        for q in quoted:
            # the literal as the printer would emit it WITHOUT doubling: 'it's
            head = "'" + q[:q.index("'") + 1]
            pos = line.find(head)
            if pos >= 0 and line[pos + len(head):pos + len(head) + 1] != "'":
                return "apostrophe-in-string-not-doubled"
    m2 = re.search(r"Reference to undefined type ([a-z0-9_]+)", msg)
    if m2 and s_decls is not None:
        for (scope, kind, name) in s_decls.decls:
            if kind in ("use", "reference") and name[1] == m2.group(1) and name[2]:
                return "renamed-import-printed-under-original-name"
    gen = re.sub(r"^.*--ERROR PE\d+: ", "", msg.strip().split("\n")[0])
    gen = re.sub(r"(schema|type|entity|function|procedure|rule|object|attribute) [A-Za-z0-9_]+", r"\1 X", gen)
    return "printed-text-rejected:" + gen[:80]


# ------------------------------------------------------------------------------------------------------------
# the oracle for one (schema text, option set)

class Outcome:
    """stage: None (held) | 'exppp' | 'valid' | 'equivalent' | 'stable' | 'machinery'"""

    def __init__(self):
        self.stage = None
        self.sig = None
        self.detail = ""
        self.p1 = self.p2 = None
        self.s_decls = self.p_decls = None
        self.ncmp = self.nskip = 0
        self.notes = []
        self.all_sigs = []

    def fail(self, stage, sig, detail):
        if self.stage is None:
            self.stage, self.sig, self.detail = stage, sig, detail
        self.all_sigs.append(sig)
        return self


def oracle(text, opts, wd, variant="plain", shipped=False, s_parsed=None, stages=("valid", "equivalent", "stable")):
    """Runs the whole C07 oracle for one case.  text: EXPRESS source accepted by check-express."""
    o = Outcome()
    os.makedirs(wd, exist_ok=True)
    src = os.path.join(wd, "s.exp")
    with open(src, "w", encoding="latin-1") as f:
        f.write(text)
    # independent parse of the source
    if s_parsed is None:
        try:
            s_parsed = expparse.parse_file(text, robust=shipped)
        except (Unparsed, exptok.TokError) as e:
            return o.fail("machinery", "source-unparsed", "the independent parser cannot read the SOURCE: %s" % e)
    names, sd = s_parsed
    o.s_decls = sd
    if sd.skipped and not shipped:
        return o.fail("machinery", "source-unparsed", "the independent parser skipped source declarations: %r" % list(sd.skipped.items())[:2])
    r1 = run_exppp(variant, src, os.path.join(wd, "o1"), opts, names)
    if not r1["ok"]:
        return o.fail("exppp", r1["sig"], r1["detail"] + "\n   command: " + r1["cmd"])
    o.p1 = p1 = r1["text"]
    p1path = os.path.join(wd, "p1.exp")
    with open(p1path, "w", encoding="latin-1") as f:
        f.write(p1)
    # (1) valid
    if "valid" in stages:
        rc, msg = check_express(variant, p1path, wd)
        if rc != 0:
            return o.fail("valid", classify_rejected(p1, msg, sd), "check-express rejects the pretty printer's output (exit %s): %s" % (rc, msg.strip()[:400]))
    # (2) equivalent
    pd = None
    if "equivalent" in stages:
        try:
            pnames, pd = expparse.parse_file(p1, robust=shipped)
            o.p_decls = pd
        except (Unparsed, exptok.TokError) as e:
            why = re.sub(r" at line.*", "", str(e))
            sig = "printed-relational-chain-not-iso" if why.startswith("non-ISO chain of relational") else "printed-text-not-iso:" + why[:70]
            return o.fail("equivalent", sig,
                          "the printed text is accepted by check-express but is not ISO 10303-11 syntax: %s" % e)
        if sorted(pnames) != sorted(names):
            return o.fail("equivalent", "schemas-differ", "schemas declared: source %s, printed %s" % (names, pnames))
        diffs, o.ncmp, o.nskip = compare_decls(sd, pd, robust=shipped)
        if diffs:
            sigs = []
            for d in diffs:
                if d.sig not in sigs:
                    sigs.append(d.sig)
            o.fail("equivalent", sigs[0], "%d difference(s); first of each kind:\n" % len(diffs) +
                   "\n".join(str([d for d in diffs if d.sig == s][0]) for s in sigs[:4]))
            o.all_sigs = sigs
            return o
    # (3) stable
    if "stable" in stages:
        r2 = run_exppp(variant, p1path, os.path.join(wd, "o2"), opts, names)
        if not r2["ok"]:
            return o.fail("stable", "second-pass:" + r2["sig"], "printing the output again fails: " + r2["detail"])
        o.p2 = p2 = r2["text"]
        try:
            t1, t2 = stable_tokens(p1), stable_tokens(p2)
        except exptok.TokError as e:
            return o.fail("stable", "second-pass-untokenizable", "second pass output cannot be tokenized: %s" % e)
        i = first_token_diff(t1, t2)
        if i is not None:
            sig = "second-pass-changes-tokens"
            # root cause: classify through the declaration maps if both parse
            try:
                _, pd2 = expparse.parse_file(p2, robust=shipped)
                if pd is None:
                    _, pd = expparse.parse_file(p1, robust=shipped)
                d2, _, _ = compare_decls(pd, pd2, mode="printed-vs-printed", robust=shipped)
                if d2:
                    sig = "second-pass:" + d2[0].sig
            except (Unparsed, exptok.TokError) as e:
                sig = "second-pass-not-iso"
            return o.fail("stable", sig, "printing the output again changes tokens (token %d):\n   first pass : %s\n   second pass: %s" % (
                i, show_toks(t1, i), show_toks(t2, i)))
    return o


def cross_length(p_a, p_b, shipped=False):
    """tokens(P1) for two line lengths equal modulo literal splitting: returns None or (i, shown_a, shown_b)"""
    ta, tb = stable_tokens(p_a), stable_tokens(p_b)
    i = first_token_diff(ta, tb)
    if i is None:
        return None
    return (i, show_toks(ta, i), show_toks(tb, i))


# ------------------------------------------------------------------------------------------------------------
# census of the source (evidence classes, non-trivial rule)

def census(sd, text, opts):
    import expparse as ep
    acc = {"exprs": 0, "multi_op_exprs": 0, "maxstr": 0, "agg_init": 0, "unlabelled": 0}
    feats = {}

    def f(e):
        a = {}
        ep.expr_features(e.ast, a)
        acc["exprs"] += 1
        if len(a.get("binops", ())) >= 2:
            acc["multi_op_exprs"] += 1
        acc["maxstr"] = max(acc["maxstr"], a.get("maxstr", 0))
        acc["agg_init"] += a.get("agg_init", 0)
        for op in a.get("binops", ()):
            feats["op:" + op] = 1
        for op in a.get("unops", ()):
            feats["un:" + op] = 1
        for l in a.get("lits", ()):
            feats["lit:" + l] = 1
        for k in ("agg_init", "agg_rep", "query", "interval", "dot", "grp", "idx", "rng"):
            if a.get(k):
                feats[k] = 1
    walk_exprs(sd.decls, f)
    for k, v in sd.decls.items():
        if isinstance(v, dict) and "where" in v:
            for label, _ in v["where"]:
                if label is None:
                    acc["unlabelled"] += 1
    nontrivial = bool(acc["multi_op_exprs"] or acc["maxstr"] > line_length(opts) or acc["unlabelled"] or acc["agg_init"])
    return nontrivial, acc, sorted(feats)
