"""Generators for C08: subtype/supertype graphs of 2..8 entities with supertype expressions, as plain schema dicts
(see expmodel).  Every random choice comes from a random.Random that Hypothesis seeds (st.randoms).

graphs()          trees, stars, diamonds, two roots joined by a multiply inheriting subtype, free DAGs; each supertype gets
                  (80%) an expression over a random subset of its direct subtypes, nested ONEOF/AND/ANDOR to depth 3, the
                  other subtypes stay implicit; 30% ABSTRACT; 0-2 simple attributes per entity.
shapes()          the complete list of expression shapes of depth <= 2 over <= 4 operands (all mentioned, or some implicit).
shape_graphs(sh)  a graph whose first entity carries exactly that expression over its direct subtypes, decorated at random
                  (subtypes below the operands, a second root joined by multiple inheritance, ABSTRACT flags)."""
from hypothesis import strategies as st

OPS = ("ONEOF", "AND", "ANDOR")
# short names; their alphabetical order (the library sorts by name) is unrelated to the position in the graph because
# the names are dealt out by a drawn permutation
NAMES = ["a", "ab", "b", "b2", "c", "d", "e_1", "f", "g", "h", "k", "m", "p", "q", "r", "z"]
ATTR_KINDS = ["BOOLEAN", "INTEGER", "STRING", "REAL", "LOGICAL", "NUMBER"]


def _i(rnd, lo, hi):
    return rnd.randint(lo, hi)


def _rnd(draw):
    """A random.Random seeded by Hypothesis (reproducible under @seed): the draws below are uniform, which the integer
    strategies of Hypothesis are not (they favour small values and end points)."""
    return draw(st.randoms(use_true_random=True))


def _ancestors(supers, i):
    out = set()
    todo = list(supers[i])
    while todo:
        x = todo.pop()
        if x not in out:
            out.add(x)
            todo += supers[x]
    return out


def _entity(name, supers):
    return {"name": name, "supers": supers, "abstract": False, "superexpr": None, "attrs": [], "derived": [],
            "inverse": [], "unique": [], "where": []}


def build_expr(draw, items, depth, max_depth=3, single_oneof=8):
    """Random expression over the operand list `items` (each exactly once, in order)."""
    if len(items) == 1:
        if depth == 1 and _i(draw, 0, 99) < single_oneof:
            return {"op": "ONEOF", "args": [items[0]]}
        return items[0]
    op = draw.choice(OPS)
    if depth >= max_depth or len(items) == 2 or _i(draw, 0, 99) < 30:
        return {"op": op, "args": list(items)}
    k = _i(draw, 2, min(3, len(items) - 1)) if len(items) > 2 else 2
    cuts = sorted(draw.sample(range(1, len(items)), k - 1))
    groups = []
    prev = 0
    for c in cuts + [len(items)]:
        groups.append(items[prev:c])
        prev = c
    args = [build_expr(draw, g, depth + 1, max_depth, 0) if len(g) > 1 else g[0] for g in groups]
    return {"op": op, "args": args}


def _attrs(draw, ents, max_attrs=2):
    for i, e in enumerate(ents):
        for j in range(_i(draw, 0, max_attrs)):
            e["attrs"].append({"name": "at%d_%d" % (i, j), "type": {"k": draw.choice(ATTR_KINDS)},
                               "optional": _i(draw, 0, 9) < 2, "redecl": None})


def _finish(draw, names, supers, fixed_expr=None, p_expr=80, p_abstract=30):
    """supers: list of lists of indices. Returns the schema dict."""
    n = len(names)
    ents = [_entity(names[i], [names[j] for j in supers[i]]) for i in range(n)]
    subs = {i: [] for i in range(n)}
    for i in range(n):
        for j in supers[i]:
            subs[j].append(i)
    for i, e in enumerate(ents):
        if not subs[i]:
            continue
        if _i(draw, 0, 99) < p_abstract:
            e["abstract"] = True
        if fixed_expr is not None and i == 0:
            e["superexpr"] = fixed_expr
            continue
        if _i(draw, 0, 99) < p_expr:
            sn = [names[j] for j in subs[i]]
            k = len(sn) if _i(draw, 0, 99) < 55 else _i(draw, 1, len(sn))
            chosen = draw.sample(sn, k)
            e["superexpr"] = build_expr(draw, chosen, 1)
    _attrs(draw, ents)
    return {"name": "c08s", "types": [], "entities": ents, "tags": {"kwish": 0, "excluded": []}}


@st.composite
def graphs(hdraw, max_ent=8):
    draw = _rnd(hdraw)
    kind = draw.choice(["tree", "star", "star", "diamond", "diamond", "tworoots", "tworoots", "free", "free"])
    lo = {"tree": 2, "star": 3, "diamond": 4, "tworoots": 3, "free": 2}[kind]
    n = max(_i(draw, lo, max_ent), _i(draw, lo, max_ent))      # favour the larger graphs
    names = draw.sample(NAMES, n)
    supers = [[] for _ in range(n)]
    if kind in ("tree", "star", "diamond"):
        for i in range(1, n):
            if kind == "star" and _i(draw, 0, 9) < 7:
                supers[i] = [0]
            else:
                supers[i] = [_i(draw, 0, i - 1)]
        if kind == "diamond":
            # an entity with two supertypes that share an ancestor (everything shares the root here)
            j = _i(draw, 3, n - 1)
            cand = [x for x in range(1, j) if x not in supers[j]]
            if cand:
                supers[j] = supers[j] + [draw.choice(cand)]
    elif kind == "tworoots":
        root_of = {0: 0, 1: 1}
        for i in range(2, n):
            p = _i(draw, 0, i - 1)
            supers[i] = [p]
            root_of[i] = root_of[p]
        j = _i(draw, 2, n - 1)
        other = [x for x in range(j) if root_of[x] != root_of[j]]
        supers[j] = supers[j] + [draw.choice(other)]
    else:
        for i in range(1, n):
            k = min(i, draw.choice([0, 1, 1, 1, 1, 1, 2, 2, 3]))
            if i == 1:
                k = 1
            if k:
                supers[i] = sorted(draw.sample(range(i), k))
    # occasional extra supertype anywhere
    for i in range(2, n):
        if _i(draw, 0, 99) < 8:
            cand = [x for x in range(i) if x not in supers[i]]
            if cand:
                supers[i] = supers[i] + [draw.choice(cand)]
    # a supertype that is also an ancestor of another listed supertype is legal EXPRESS but unusual: mostly dropped
    for i in range(n):
        if len(supers[i]) > 1 and _i(draw, 0, 9) < 8:
            keep = [s for s in supers[i] if not any(o != s and s in _ancestors(supers, o) for o in supers[i])]
            supers[i] = keep
    d = _finish(draw, names, supers)
    d["tags"]["kind"] = kind
    return d


# ---- enumerated expression shapes -------------------------------------------------------------------------------------

def _compositions(m, minparts):
    """All ways to cut a sequence of m operands into consecutive groups."""
    out = []

    def rec(rest, acc):
        if rest == 0:
            if len(acc) >= minparts:
                out.append(list(acc))
            return
        for k in range(1, rest + 1):
            rec(rest - k, acc + [k])
    rec(m, [])
    return out


def shapes(max_operands=4):
    """Expression shapes of depth <= 2: (k direct subtypes, m mentioned, expr over operand indices 0..m-1)."""
    out = []
    for k in range(1, max_operands + 1):
        for m in range(1, k + 1):
            exprs = []
            if m == 1:
                exprs = [0, ("ONEOF", [0])]
            else:
                for top in OPS:
                    for comp in _compositions(m, 2):
                        # inner operators for every group of size >= 2
                        slots = [g for g in comp if g >= 2]
                        combos = [[]]
                        for _g in slots:
                            combos = [c + [o] for c in combos for o in OPS]
                        for inner in combos:
                            args = []
                            pos = 0
                            it = iter(inner)
                            for g in comp:
                                idx = list(range(pos, pos + g))
                                pos += g
                                args.append(idx[0] if g == 1 else (next(it), idx))
                            exprs.append((top, args))
            for ex in exprs:
                out.append((k, m, ex))
    return out


def _shape_expr(ex, names):
    if isinstance(ex, int):
        return names[ex]
    op, args = ex
    return {"op": op, "args": [_shape_expr(a, names) for a in args]}


def shape_id(sh):
    k, m, ex = sh

    def r(x):
        if isinstance(x, int):
            return "s%d" % x
        if x[0] == "ONEOF":
            return "ONEOF(" + ",".join(r(a) for a in x[1]) + ")"
        return "(" + (" %s " % x[0]).join(r(a) for a in x[1]) + ")"
    return "k%d:%s" % (k, r(ex))


@st.composite
def shape_graphs(hdraw, sh, max_ent=8, mode=None):
    draw = _rnd(hdraw)
    k, m, ex = sh
    if mode == "uncle":
        # the entity that carries the expression is not a root: it has a sibling below a common supertype, and one operand of
        # the expression is also a subtype of that sibling (it occurs at two places of the joined hierarchy, once as operand)
        n = k + 3
        names = draw.sample(NAMES, n)
        supers = [[] for _ in range(n)]
        for i in range(1, k + 1):
            supers[i] = [0]
        supers[0] = [k + 1]
        supers[k + 2] = [k + 1]
        j = _i(draw, 1, k)
        supers[j] = [0, k + 2]
        order = draw.sample(range(1, k + 1), k)
        expr = _shape_expr(ex, [names[order[i]] for i in range(m)])
        d = _finish(draw, names, supers, fixed_expr=expr, p_expr=50)
        d["tags"]["kind"] = "shape-uncle"
        d["tags"]["shape"] = shape_id(sh)
        return d
    n = _i(draw, k + 1, max_ent)
    names = draw.sample(NAMES, n)
    supers = [[] for _ in range(n)]
    for i in range(1, k + 1):
        supers[i] = [0]
    mode = draw.choice(["below", "below", "join", "diamond"])
    for i in range(k + 1, n):
        if mode == "join" and i == k + 1:
            continue                                # a second root
        supers[i] = [_i(draw, 1, i - 1)]            # below one of the operands (or below an earlier decoration)
    if mode == "join" and n > k + 1:
        j = _i(draw, 1, k)
        if n > k + 2:
            # the last entity inherits from the second root and from an operand
            supers[n - 1] = sorted(set([k + 1, j]))
        else:
            supers[j] = [0, k + 1]                  # operand j itself inherits from both roots
            # keep declaration-before-use irrelevant: EXPRESS allows forward references
    if mode == "diamond" and n > k + 1 and k >= 2:
        a, b = draw.sample(range(1, k + 1), 2)
        supers[n - 1] = sorted([a, b])
    order = draw.sample(range(1, k + 1), k)     # which subtype plays which operand
    expr = _shape_expr(ex, [names[order[i]] for i in range(m)])
    d = _finish(draw, names, supers, fixed_expr=expr)
    d["tags"]["kind"] = "shape"
    d["tags"]["shape"] = shape_id(sh)
    return d


# ---- enumerated family: two root hierarchies joined by a multiply inheriting entity --------------------------------------

FAMILY_KINDS = ("abstract-oneof", "abstract-and", "abstract-andor", "abstract-implicit", "oneof", "abstract-single", "abstract-deep")
FAMILY_ROOT_EXPR = (None, "ONEOF", "ANDOR", "AND", "x-only")
FAMILY_PLACES = ("first-root", "last-root", "both-roots")
FAMILY_JOINS = ("roots", "below-first", "below-last")


def family():
    """All parameter tuples of the two-root family (see family_graph)."""
    return [(k, r, pl, jn) for k in FAMILY_KINDS for r in FAMILY_ROOT_EXPR for pl in FAMILY_PLACES for jn in FAMILY_JOINS]


def _constrained(ents, name, root, kind, leaves, deep):
    """entity `name` below `root` with two leaves and the constraint `kind`; returns the names added"""
    x = _entity(name, [root])
    ents.append(x)
    kids = [_entity(l, [name]) for l in leaves]
    ents.extend(kids)
    if kind.startswith("abstract"):
        x["abstract"] = True
    op = {"abstract-oneof": "ONEOF", "oneof": "ONEOF", "abstract-and": "AND", "abstract-andor": "ANDOR", "abstract-deep": "ONEOF"}.get(kind)
    if kind == "abstract-single":
        x["superexpr"] = leaves[0]          # the second leaf stays implicit
    elif op:
        x["superexpr"] = {"op": op, "args": list(leaves)}
    if kind == "abstract-deep":
        ents.append(_entity(deep, [leaves[0]]))


def family_graph(params):
    """Two independent root hierarchies; an entity j inherits from both (directly from the roots, or from a plain entity below
    one of them); below the alphabetically first root, the last root or both hangs an entity with two leaves and a constraint
    (ABSTRACT and/or ONEOF/AND/ANDOR over its leaves, a leaf with a subtype of its own); the roots optionally constrain j
    against that entity.  The run-time matcher joins the two hierarchies in alphabetical order of the root names, so the
    position of the constrained entity relative to that order is a parameter of its own."""
    kind, rexpr, place, join = params
    ents = []
    r1, r2 = "ra", "rb"                     # ra sorts first
    ents.append(_entity(r1, []))
    ents.append(_entity(r2, []))
    s1, s2 = [r1], [r2]
    if join == "below-first":
        ents.append(_entity("ka", [r1]))
        s1 = ["ka"]
    if join == "below-last":
        ents.append(_entity("kb", [r2]))
        s2 = ["kb"]
    ents.append(_entity("m", s1 + s2))
    if place in ("first-root", "both-roots"):
        _constrained(ents, "x", r1, kind, ["p", "q"], "pp")
    if place in ("last-root", "both-roots"):
        _constrained(ents, "y", r2, kind, ["u", "v"], "uu")
    if rexpr:
        for root, cons, jn in ((r1, "x", s1[0] if s1[0] != r1 else "m"), (r2, "y", s2[0] if s2[0] != r2 else "m")):
            have = [e["name"] for e in ents]
            if cons not in have:
                continue
            e = [z for z in ents if z["name"] == root][0]
            e["superexpr"] = cons if rexpr == "x-only" else {"op": rexpr, "args": [jn, cons]}
    d = {"name": "c08s", "types": [], "entities": ents, "tags": {"kwish": 0, "excluded": [], "kind": "two-root-family",
                                                             "family": "%s/%s/%s/%s" % params}}
    return d


# ---- classification -----------------------------------------------------------------------------------------------------

def expr_depth(x):
    if x is None or isinstance(x, str):
        return 0
    return 1 + max(expr_depth(a) for a in x["args"])


def expr_ops(x, out):
    if x is None or isinstance(x, str):
        return out
    out.add(x["op"] if len(x["args"]) > 1 else "ONEOF-single")
    for a in x["args"]:
        expr_ops(a, out)
    return out


def expr_names(x, out):
    if x is None:
        return out
    if isinstance(x, str):
        out.append(x.lower())
    else:
        for a in x["args"]:
            expr_names(a, out)
    return out


def tags(d):
    """Distribution classes of one graph."""
    ents = d["entities"]
    idx = {e["name"].lower(): i for i, e in enumerate(ents)}
    supers = [[idx[s.lower()] for s in e["supers"]] for e in ents]
    subs = {i: [] for i in range(len(ents))}
    for i, ss in enumerate(supers):
        for s in ss:
            subs[s].append(i)
    out = set()
    roots = [i for i in range(len(ents)) if not supers[i]]
    out.add("roots:%d" % min(len(roots), 3))
    multi = [i for i in range(len(ents)) if len(supers[i]) > 1]
    if multi:
        out.add("multi-inherit")
    else:
        out.add("tree-only")
    for i in multi:
        anc = [set([s]) | _ancestors(supers, s) for s in supers[i]]
        shared = False
        for a in range(len(anc)):
            for b in range(a + 1, len(anc)):
                if anc[a] & anc[b]:
                    shared = True
        if shared:
            out.add("diamond")
        rts = set()
        for a in anc:
            rts |= set(x for x in a if not supers[x])
        if len(rts) > 1:
            out.add("roots-joined-by-subtype")
        if any(o != s and s in _ancestors(supers, o) for s in supers[i] for o in supers[i]):
            out.add("redundant-supertype")
    for i, e in enumerate(ents):
        if not subs[i]:
            continue
        if e["abstract"]:
            out.add("abstract")
        ex = e["superexpr"]
        if ex is None:
            out.add("no-expression(all implicit)")
        else:
            for o in expr_ops(ex, set()):
                out.add("op:" + o)
            out.add("expr-depth:%d" % expr_depth(ex))
            if len(expr_names(ex, [])) < len(subs[i]):
                out.add("expression+implicit-subtypes")
            if isinstance(ex, str):
                out.add("op:single-operand")
    depth = 0

    def lvl(i):
        return 0 if not supers[i] else 1 + max(lvl(s) for s in supers[i])
    depth = max(lvl(i) for i in range(len(ents)))
    out.add("levels:%d" % min(depth, 4))
    out.add("entities:%d" % len(ents))
    return sorted(out)
