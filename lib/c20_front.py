"""Shared by C20 / C04 / C06: running the EXPRESS front-end tools, reading the diagnostic table of the tree under test
(LibErrors[] in src/express/error.c + enum ErrorCode), parsing the diagnostics a tool printed."""
import os
import re
import resource
import shutil
import signal
import subprocess
import tempfile
import time

import build
import common

TOOLS = ("check-express", "exppp", "exp2cxx", "exp2python")
TRAILERS = ("Errors in input", "No errors in input")
OUTPUT_CAP = 48 << 20      # bytes of stdout+stderr after which a run is stopped ("output flood")


# ----------------------------------------------------------------------------------------------------------------
# the table

_C_STR = r'"(?:[^"\\]|\\.)*"'


def _cstr(lits):
    s = "".join(m[1:-1] for m in re.findall(_C_STR, lits))
    return s.replace('\\"', '"').replace("\\\\", "\\").replace("\\n", "\n").replace("\\t", "\t")


class ErrTable:
    """codes[name] = dict(num, severity ('WARNING'|'ERROR'|'EXIT'|'DUMP'), fmt, cls (warning class name or None), nargs, rx)"""

    def __init__(self, repo=None):
        repo = repo or common.REPO
        hdr = open(os.path.join(repo, "include/express/error.h")).read()
        src = open(os.path.join(repo, "src/express/error.c")).read()
        m = re.search(r"enum\s+ErrorCode\s*\{(.*?)\}", hdr, re.S)
        body = re.sub(r"/\*.*?\*/", "", m.group(1), flags=re.S)
        self.codes, self.by_num = {}, {}
        num = -1
        for item in body.split(","):
            item = item.strip()
            if not item:
                continue
            if "=" in item:
                name, v = [x.strip() for x in item.split("=")]
                num = int(v, 0)
            else:
                name, num = item, num + 1
            self.codes[name] = {"name": name, "num": num, "severity": None, "fmt": None, "cls": None}
        tab = src[src.index("LibErrors[]"):]
        tab = tab[:tab.index("\n};")]
        for m in re.finditer(r"\[(\w+)\]\s*=\s*\{\s*SEVERITY_(\w+)\s*,\s*((?:%s\s*)+),\s*(NULL|%s)\s*," % (_C_STR, _C_STR), tab):
            name, sev, fmt, cls = m.group(1), m.group(2), _cstr(m.group(3)), m.group(4)
            c = self.codes[name]
            c["severity"], c["fmt"], c["cls"] = sev, fmt, (None if cls == "NULL" else cls[1:-1])
        for c in self.codes.values():
            self.by_num[c["num"]] = c
            if c["fmt"] is not None:
                c["slots"] = re.findall(r"%[sdcxf]", c["fmt"])
                c["rx"] = self._rx(c["fmt"])
        self.classes = sorted(set(c["cls"] for c in self.codes.values() if c["cls"]))

    @staticmethod
    def _rx(fmt):
        out, i = "", 0
        for m in re.finditer(r"%[sdcxf]", fmt):
            out += re.escape(fmt[i:m.start()])
            out += {"%s": "(.*?)", "%d": r"(-?\d+)", "%c": "(.|\n)", "%x": "([0-9a-fA-F]+)", "%f": r"(-?(?:\d+\.?\d*(?:[eE][+-]?\d+)?|inf|nan))"}[m.group(0)]
            i = m.end()
        out += re.escape(fmt[i:])
        return re.compile("^" + out + "$", re.S)

    def is_error(self, c):
        return c["severity"] in ("ERROR", "EXIT", "DUMP")

    def warning_codes_of(self, cls):
        """codes switched by -i/-w <cls> ('all'/'none' = every warning)"""
        return set(c["num"] for c in self.codes.values() if c["severity"] == "WARNING" and (cls in ("all", "none") or c["cls"] == cls))


# ----------------------------------------------------------------------------------------------------------------
# running a tool

def _limits(cpu_s, as_bytes):
    def f():
        os.setsid()
        if cpu_s:
            resource.setrlimit(resource.RLIMIT_CPU, (cpu_s, cpu_s + 2))
        resource.setrlimit(resource.RLIMIT_CORE, (0, 0))
        resource.setrlimit(resource.RLIMIT_FSIZE, (1 << 31, 1 << 31))
    return f


class Run:
    __slots__ = ("rc", "sig", "timeout", "out", "err", "cpu", "wall", "cmd", "cpu_exceeded", "flood")

    def __repr__(self):
        return "Run(rc=%s sig=%s timeout=%s cpu=%.2f)" % (self.rc, self.sig, self.timeout, self.cpu)

    @property
    def status(self):
        if self.timeout:
            return "timeout"
        if self.sig:
            return "signal %d (%s)" % (self.sig, signal.Signals(self.sig).name if self.sig in list(map(int, signal.Signals)) else "?")
        return "exit %d" % self.rc


def run_tool(exe, args, cwd, timeout=60, cpu_limit=None, env=None, max_out=4 << 20, light=False):
    """Runs exe in cwd; stdout/stderr captured to files (large outputs cannot dead-lock); returns Run with bytes decoded as
    latin-1 (1 byte = 1 char) and the child's CPU time from wait4()."""
    r = Run()
    r.cmd = [exe] + list(args)
    fo = tempfile.TemporaryFile()
    fe = tempfile.TemporaryFile()
    t0 = time.time()
    # light: no preexec_fn, so that CPython can use vfork/posix_spawn (several times cheaper; for tools that start no children)
    p = subprocess.Popen(r.cmd, cwd=cwd, stdin=subprocess.DEVNULL, stdout=fo, stderr=fe, env=env,
                         preexec_fn=None if light else _limits(cpu_limit, None))
    # kernel-enforced limits set from outside (no preexec_fn needed): if this process is killed while the child runs, an
    # orphaned tool that loops or floods its (unlinked) output file still dies by itself instead of filling the disk
    try:
        hard_cpu = int((cpu_limit or timeout) * 2 + 30)
        resource.prlimit(p.pid, resource.RLIMIT_CPU, (hard_cpu, hard_cpu + 2))
        resource.prlimit(p.pid, resource.RLIMIT_FSIZE, (4 * OUTPUT_CAP, 4 * OUTPUT_CAP))
        resource.prlimit(p.pid, resource.RLIMIT_CORE, (0, 0))
    except (OSError, ValueError):
        pass
    r.timeout = False
    deadline = t0 + timeout
    ru = None
    r.cpu_exceeded = False
    r.flood = False
    tick = os.sysconf("SC_CLK_TCK")
    polls = 0
    while True:
        pid, st, ru = os.wait4(p.pid, os.WNOHANG)
        if pid:
            break
        polls += 1
        over = False
        if cpu_limit and light and polls % 25 == 0:
            # CPU time of the child so far (utime + stime of /proc/<pid>/stat): verdicts about termination use CPU time, not wall time
            try:
                with open("/proc/%d/stat" % p.pid) as fh:
                    parts = fh.read().rsplit(")", 1)[1].split()
                over = (int(parts[11]) + int(parts[12])) / tick > cpu_limit
            except (OSError, IndexError, ValueError):
                over = False
        flood = False
        if polls % 25 == 0:
            # a tool that loops while printing must not fill the disk: captured output is capped
            try:
                flood = os.fstat(fo.fileno()).st_size + os.fstat(fe.fileno()).st_size > OUTPUT_CAP
            except OSError:
                flood = False
        if over or flood or time.time() > deadline:
            r.cpu_exceeded = over
            r.flood = flood
            r.timeout = True
            try:
                if light:
                    os.kill(p.pid, signal.SIGKILL)
                else:
                    os.killpg(p.pid, signal.SIGKILL)
            except OSError:
                pass
            pid, st, ru = os.wait4(p.pid, 0)
            break
        time.sleep(0.002 if time.time() - t0 < 0.2 else 0.02)
    p.returncode = 0      # reaped by us
    r.wall = time.time() - t0
    r.cpu = (ru.ru_utime + ru.ru_stime) if ru else 0.0
    if os.WIFSIGNALED(st):
        r.sig, r.rc = os.WTERMSIG(st), None
    else:
        r.sig, r.rc = 0, os.WEXITSTATUS(st)
    if r.sig in (signal.SIGXFSZ, signal.SIGXCPU):
        # the kernel-enforced safety limits above, not a fault of the tool's own: same meaning as the polled ones
        r.flood = r.flood or r.sig == signal.SIGXFSZ
        r.cpu_exceeded = r.cpu_exceeded or r.sig == signal.SIGXCPU
        r.timeout = True
    if r.timeout:
        r.sig, r.rc = 0, None
    for f, attr in ((fo, "out"), (fe, "err")):
        f.seek(0)
        setattr(r, attr, f.read(max_out).decode("latin-1"))
        f.close()
    return r


def tool_args(tool, path):
    """command line after the executable for one input file (exppp: calibrated - `-o <file>` writes a single output file
    instead of one per schema)"""
    if tool == "exppp":
        return ["-o", "exppp_out.exp", path]
    return [path]


class Scratch:
    """empty cwd per run (exp2cxx / exp2python write many files into cwd); the input lives outside so that it is not
    mistaken for an artefact"""

    def __init__(self, name):
        self.root = common.scratch(name)
        self.n = 0

    def fresh(self, tag="w"):
        self.n += 1
        d = os.path.join(self.root, "%s%d_%d" % (tag, os.getpid(), self.n))
        shutil.rmtree(d, ignore_errors=True)
        os.makedirs(d)
        return d

    def put(self, name, data):
        p = os.path.join(self.root, name)
        with open(p, "wb") as f:
            f.write(data if isinstance(data, bytes) else data.encode("latin-1"))
        return p

    def close(self):
        shutil.rmtree(self.root, ignore_errors=True)


# ----------------------------------------------------------------------------------------------------------------
# diagnostics

class Diag:
    __slots__ = ("file", "line", "tag", "num", "msg", "code", "args", "raw", "located", "fmt_ok")

    def key(self):
        return (self.file, self.line, self.tag, self.num, self.msg)

    def __repr__(self):
        return self.raw


_LOC = re.compile(r"^(.*?):(-?\d+): (--ERROR PE|WARNING PW)(\d+): (.*)$", re.S)
_UNLOC = re.compile(r"^(ERROR PE|WARNING PW)(\d+): (.*)$", re.S)


def _mk_diag(table, raw):
    d = Diag()
    d.raw = raw
    m = _LOC.match(raw)
    if m:
        d.file, d.line, d.tag, d.num, d.msg, d.located = m.group(1), int(m.group(2)), m.group(3), int(m.group(4)), m.group(5), True
    else:
        m = _UNLOC.match(raw)
        if not m:
            return None
        d.file, d.line, d.tag, d.num, d.msg, d.located = None, None, m.group(1), int(m.group(2)), m.group(3), False
    d.tag = "ERROR" if "ERROR" in d.tag else "WARNING"
    d.code = table.by_num.get(d.num)
    d.args, d.fmt_ok = None, False
    if d.code is not None and d.code.get("rx") is not None:
        msg = d.msg
        if not d.located and d.tag == "WARNING":
            # ERRORreport() prints the severity number in front of an unlocated warning ("WARNING PW005: 0Integer ...")
            msg = re.sub(r"^\d", "", msg, count=1) if not d.code["rx"].match(msg) else msg
        mm = d.code["rx"].match(msg)
        if mm:
            d.args, d.fmt_ok = list(mm.groups()), True
    return d


def parse_stderr(table, err, fname, buffered=False):
    """-> (diags, others): every diagnostic printed, and the remaining non-empty lines (trailers, usage text, anything else).
    buffered: messages were printed by -B without separators; they are cut at every `<fname>:<n>: (--ERROR PE|WARNING PW)ddd: `."""
    diags, others = [], []
    if buffered:
        cut = re.compile(r"(?=%s:-?\d+: (?:--ERROR PE|WARNING PW)\d+: )" % re.escape(fname))
        pieces = []
        for chunk in cut.split(err):
            # a trailer (or an unlocated message) may be glued to the end of the last buffered message
            for tr in TRAILERS:
                if chunk.endswith(tr + "\n"):
                    pieces.append(chunk[:-len(tr) - 1])
                    pieces.append(tr)
                    break
            else:
                pieces.append(chunk)
        lines = []
        for p in pieces:
            if _LOC.match(p) and p.startswith(fname + ":"):
                lines.append(p.rstrip("\n"))
            else:
                lines += p.split("\n")
    else:
        lines = err.split("\n")
    for ln in lines:
        if not ln.strip():
            continue
        d = _mk_diag(table, ln)
        if d is None:
            others.append(ln)
        else:
            diags.append(d)
    return diags, others


def has_error(diags, others=()):
    return any(d.tag == "ERROR" for d in diags)


def minimise_decls(text, still_fails, max_rounds=3, lines=True):
    """greedy removal of whole top-level declarations (and then of single lines) while `still_fails(text)` holds"""
    import mutate_exp
    for _ in range(max_rounds):
        changed = False
        sc = mutate_exp.scan(text)
        if not sc.ok:
            break
        spans = [(d.start, d.end) for s in sc.schemas for d in s.decls]
        for a, b in sorted(spans, reverse=True):
            cand = text[:a] + text[b:]
            if still_fails(cand):
                text = cand
                changed = True
        if not changed:
            break
    if not lines:
        return text
    lines = text.split("\n")
    i = len(lines) - 1
    while i >= 0 and len(lines) < 400:
        cand = lines[:i] + lines[i + 1:]
        if still_fails("\n".join(cand)):
            lines = cand
        i -= 1
    return "\n".join(lines)
