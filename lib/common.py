"""Common infrastructure for all checks: seeds, tiers, evidence, known findings,
violation reporting, subprocess helpers, parallel map."""
import hashlib
import json
import os
import shutil
import subprocess
import sys
import time
import traceback

VERIF = os.path.dirname(os.path.dirname(os.path.abspath(__file__)))
REPO = os.environ.get("VERIF_REPO", "/repo")
WORK = os.environ.get("VERIF_WORK") or os.path.join(VERIF, ".work")
NPROC = int(os.environ.get("VERIF_JOBS", "0")) or (os.cpu_count() or 4)
DEFAULT_SEED = 20260925


def get_seed():
    try:
        s = int(os.environ.get("VERIF_SEED", "0"))
    except ValueError:
        s = 0
    return s if s != 0 else DEFAULT_SEED


def sub_seed(seed, *parts):
    """Derive a stable 31-bit seed from a base seed and labels."""
    h = hashlib.sha256(("%d|" % seed + "|".join(str(p) for p in parts)).encode()).digest()
    return int.from_bytes(h[:4], "big") & 0x7FFFFFFF or 1


def chash(obj):
    """Canonical hash of a JSON-able object / string / bytes."""
    if isinstance(obj, bytes):
        b = obj
    elif isinstance(obj, str):
        b = obj.encode("utf-8", "surrogateescape")
    else:
        b = json.dumps(obj, sort_keys=True, default=str).encode()
    return hashlib.sha1(b).hexdigest()[:16]


def scratch(name):
    """Fresh per-run scratch directory under .work (deleted first)."""
    d = os.path.join(WORK, "run", name)
    shutil.rmtree(d, ignore_errors=True)
    os.makedirs(d, exist_ok=True)
    return d


def run(cmd, cwd=None, timeout=120, env=None, stdin=None, input=None):
    """Run a command; returns (rc, stdout, stderr, cpu_s). rc<0 => signal; rc=None => timeout."""
    t0 = time.time()
    try:
        p = subprocess.run(cmd, cwd=cwd, timeout=timeout, env=env, stdin=stdin, input=input,
                           stdout=subprocess.PIPE, stderr=subprocess.PIPE)
        return p.returncode, p.stdout.decode("utf-8", "replace"), p.stderr.decode("utf-8", "replace"), time.time() - t0
    except subprocess.TimeoutExpired as e:
        out = (e.stdout or b"").decode("utf-8", "replace")
        err = (e.stderr or b"").decode("utf-8", "replace")
        return None, out, err, time.time() - t0


# ----------------------------------------------------------------------------------------------
# known findings

class Findings:
    """known_findings.jsonl: lines {"status":"open"|"fixed", "property":..., "id":..., "sig":..., "what":...}.
    A check computes a root-cause signature string for each failure it sees; only `open` entries whose
    property and sig equal it suppress the violation.  Never written at run time."""

    def __init__(self, path=None):
        self.path = path or os.path.join(VERIF, "known_findings.jsonl")
        self.entries = []
        if os.path.exists(self.path):
            for line in open(self.path):
                line = line.strip()
                if line and not line.startswith("#"):
                    self.entries.append(json.loads(line))

    def open_for(self, prop):
        return [e for e in self.entries if e.get("status") == "open" and e.get("property") == prop]

    def match(self, prop, sig):
        for e in self.open_for(prop):
            if e.get("sig") == sig:
                return e
        return None


# ----------------------------------------------------------------------------------------------
# evidence

class Evidence:
    def __init__(self, prop, level, tier, seed, rule):
        self.prop, self.level, self.tier, self.seed, self.rule = prop, level, tier, seed, rule
        self.t0 = time.time()
        self.evaluations = 0
        self.nontrivial = set()
        self.nontrivial_counted = 0   # distinct non-trivial cases counted by a harness itself (enumerations), added to len(nontrivial)
        self.classes = {}
        self.samples = []
        self.max_samples = 6
        self.violations = 0
        self.known = {}          # finding id -> count
        self.excluded = {}       # reason -> count (cases avoided by construction)
        self.extra = {}
        self.assumptions = []
        self.exhaustive = None
        self.inconclusive = []

    def case(self, canon, nontrivial, classes=(), sample=None):
        """Record one executed case. canon: hashable canonical form or precomputed hash."""
        self.evaluations += 1
        for c in classes:
            self.classes[c] = self.classes.get(c, 0) + 1
        if nontrivial:
            h = canon if isinstance(canon, str) and len(canon) == 16 else chash(canon)
            if h not in self.nontrivial:
                self.nontrivial.add(h)
                if sample is not None and len(self.samples) < self.max_samples:
                    self.samples.append(sample)
        elif sample is not None and not self.samples:
            pass

    def bump(self, cls, n=1):
        self.classes[cls] = self.classes.get(cls, 0) + n

    def exclude(self, reason, n=1):
        self.excluded[reason] = self.excluded.get(reason, 0) + n

    def known_hit(self, fid, n=1):
        self.known[fid] = self.known.get(fid, 0) + n

    def merge(self, other):
        """Merge a partial evidence dict produced by a worker (see partial())."""
        self.evaluations += other["evaluations"]
        self.nontrivial |= set(other["nontrivial"])
        self.nontrivial_counted += other.get("nontrivial_counted", 0)
        for k, v in other["classes"].items():
            self.classes[k] = self.classes.get(k, 0) + v
        for s in other["samples"]:
            if len(self.samples) < self.max_samples:
                self.samples.append(s)
        for k, v in other["known"].items():
            self.known[k] = self.known.get(k, 0) + v
        for k, v in other["excluded"].items():
            self.excluded[k] = self.excluded.get(k, 0) + v
        self.violations += other.get("violations", 0)
        self.inconclusive += other.get("inconclusive", [])
        for k, v in other.get("extra", {}).items():
            if isinstance(v, (int, float)) and isinstance(self.extra.get(k, 0), (int, float)):
                self.extra[k] = self.extra.get(k, 0) + v
            else:
                self.extra.setdefault(k, v)

    def partial(self):
        return {"evaluations": self.evaluations, "nontrivial": sorted(self.nontrivial), "nontrivial_counted": self.nontrivial_counted,
                "classes": self.classes, "samples": self.samples, "known": self.known,
                "excluded": self.excluded, "violations": self.violations,
                "inconclusive": self.inconclusive, "extra": self.extra}

    def write(self):
        cov = {"evaluations": int(self.evaluations), "distinct_nontrivial": len(self.nontrivial) + int(self.nontrivial_counted),
               "rule": self.rule, "samples": self.samples if self.samples else ["(no non-trivial case was produced)"],
               "classes": dict(sorted(self.classes.items())),
               "known_findings_hit": self.known, "excluded_by_construction": self.excluded}
        if self.exhaustive is not None:
            cov["exhaustive"] = bool(self.exhaustive)
        if self.inconclusive:
            cov["inconclusive"] = self.inconclusive[:20]
        cov.update(self.extra)
        doc = {"property_id": self.prop, "tier": self.tier, "seed": int(self.seed), "level": self.level,
               "coverage": cov, "assumptions": self.assumptions,
               "wall_s": round(time.time() - self.t0, 2), "violations": int(self.violations)}
        # (VERIF_EVIDENCE_DIR: exploratory runs against a scratch copy of the repository must not overwrite the evidence of /repo)
        edir = os.environ.get("VERIF_EVIDENCE_DIR") or os.path.join(VERIF, "evidence")
        os.makedirs(edir, exist_ok=True)
        p = os.path.join(edir, self.prop + ".json")
        tmp = p + ".tmp"
        with open(tmp, "w") as f:
            json.dump(doc, f, indent=1, default=str)
            f.write("\n")
        os.replace(tmp, p)
        return p


# ----------------------------------------------------------------------------------------------
# violations / replays

def save_replay(prop, files, meta):
    """files: {name: str|bytes}. Returns replay dir path."""
    h = chash({k: (v if isinstance(v, str) else v.decode("latin-1")) for k, v in files.items()})
    d = os.path.join(VERIF, "replays", prop, h)
    os.makedirs(d, exist_ok=True)
    for name, content in files.items():
        mode = "wb" if isinstance(content, bytes) else "w"
        with open(os.path.join(d, name), mode) as f:
            f.write(content)
    with open(os.path.join(d, "meta.json"), "w") as f:
        json.dump(meta, f, indent=1, default=str)
    return d


def print_violation(prop, replay_dir, what=""):
    if what:
        print("violation detail: " + what.replace("\n", "\n    ")[:4000])
    print("VIOLATION property=%s replay=%s" % (prop, replay_dir))
    sys.stdout.flush()


def print_known(prop, what):
    print("KNOWN-FINDING: property=%s %s" % (prop, what))
    sys.stdout.flush()


# ----------------------------------------------------------------------------------------------
# parallel map (fork based; results must be picklable)

_PM = {}


def _pm_call(i):
    return _PM["f"](_PM["items"][i])


def pmap(func, items, nproc=None, chunksize=1):
    """Parallel map via fork; func and items are inherited by the children (closures allowed),
    only results are pickled."""
    import multiprocessing as mp
    items = list(items)
    if not items:
        return []
    nproc = min(nproc or NPROC, len(items))
    if nproc <= 1:
        return [func(i) for i in items]
    saved = dict(_PM)
    _PM["f"], _PM["items"] = func, items
    try:
        ctx = mp.get_context("fork")
        with ctx.Pool(nproc) as pool:
            return pool.map(_pm_call, range(len(items)), chunksize)
    finally:
        _PM.clear()
        _PM.update(saved)


def guarded(func):
    """Wrap a worker so an unexpected exception in our own machinery is reported, not lost."""
    def w(arg):
        try:
            return ("ok", func(arg))
        except Exception:
            return ("exc", traceback.format_exc())
    w.__name__ = getattr(func, "__name__", "w")
    return w
